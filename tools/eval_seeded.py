#!/venv/bin/python
"""Run every seeded change (seeded/CNN-x) and every own mutant (mutants/CNN/*.diff)
against the check of its property; write seeded/RESULTS.json + print a table.
  tools/eval_seeded.py [IDs...] [--mutants]"""
import json
import pathlib
import subprocess
import sys

V = pathlib.Path(__file__).resolve().parent.parent
ids = [a for a in sys.argv[1:] if not a.startswith("--")]
res_p = V / "seeded" / "RESULTS.json"
res = json.loads(res_p.read_text()) if res_p.exists() else {}
targets = []
only = None
for a_ in sys.argv[1:]:
    if a_.startswith("--only="):
        only = a_.split("=", 1)[1].split(",")
for d in sorted((V / "seeded").glob("C*-*")):
    pid = d.name.split("-")[0]
    if only and d.name.split("-")[1] not in only:
        continue
    if (not ids or pid in ids) and (V / "vf" / "props" / f"{pid.lower()}.py").exists():
        pr = d / "patch_rebased.diff"
        targets.append((d.name, pid, pr if pr.exists() else d / "patch.diff"))
if "--mutants" in sys.argv:
    for d in sorted((V / "mutants").glob("C*")):
        pid = d.name
        if (not ids or pid in ids) and (V / "vf" / "props" / f"{pid.lower()}.py").exists():
            for m in sorted(d.glob("*.diff")):
                targets.append((f"{pid}/{m.stem}", pid, m))
own = {}
for name, pid, patch in targets:
    r = subprocess.run([str(V / "tools" / "seeded.py"), str(patch), pid, "quick"],
                       capture_output=True, text=True)
    first = [ln for ln in r.stdout.splitlines() if ln.startswith(("KILLED", "SURVIVED", "PATCH"))]
    sigs = [ln.split("signature:")[1].strip() for ln in r.stdout.splitlines() if "signature:" in ln]
    verdict = first[0].split()[0] if first else "ERROR"
    own[name] = {"property": pid, "verdict": verdict, "signatures": sigs[:4]}
    print(f"{verdict:20s} {name:45s} {', '.join(sigs[:2])}", flush=True)
    # merge with the file as it is now (several evaluations may run side by side)
    res = json.loads(res_p.read_text()) if res_p.exists() else {}
    res.update(own)
    res_p.write_text(json.dumps(res, indent=1, sort_keys=True) + "\n")
