#!/usr/bin/env python3
"""Regenerate the two tables of DESIGN.md section 12 from known_findings.json."""
import json
import pathlib
import re

V = pathlib.Path(__file__).resolve().parent.parent
kf = json.loads((V / "known_findings.json").read_text())
lines = (V / "DESIGN.md").read_text().split("\n")


def table(header, rows):
    i = lines.index(header)
    j = i + 2
    while j < len(lines) and lines[j].startswith("|"):
        j += 1
    lines[i + 2:j] = rows


def esc(s):
    return s.replace("|", "\\|").replace("\n", " ")


fx = []
for e in kf["fixed"]:
    what = re.sub(r"^fixed: property=\S+ \S+ ", "", e["what"])
    fx.append(f"| {e['property']} | `{e['commit']}` | {esc(what)} |")
table("| property | commit | what failed |", fx)
kn = [f"| {e['property']} | `{e['signature']}` | {esc(e['what'])} |" for e in kf["findings"]]
table("| property | signature | what fails |", kn)
txt = "\n".join(lines)
txt = re.sub(r"### 12\.1 Repaired \(\d+ entries", f"### 12.1 Repaired ({len(fx)} entries", txt)
txt = re.sub(r"### 12\.2 Known findings \(\d+ signatures",
             f"### 12.2 Known findings ({len(kn)} signatures", txt)
(V / "DESIGN.md").write_text(txt)
print(len(fx), "fixed;", len(kn), "known")
