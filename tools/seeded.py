#!/venv/bin/python
"""Run checks against a seeded change without touching /repo.

  tools/seeded.py PATCH ID[,ID...] [tier] [--budget N] [--keep]

Creates a scratch git worktree of /repo HEAD under /tmp/vfwt (with the compiled
extensions copied in), applies PATCH, runs ./check with VERIF_REPO pointing at it
and evidence/replays redirected to a scratch dir, prints `KILLED`/`SURVIVED` per
check and removes the worktree.  Exit 0 when every listed check reported a
violation (exit code 1 + VIOLATION line)."""
import hashlib
import os
import pathlib
import shutil
import subprocess
import sys

VERIF = pathlib.Path(__file__).resolve().parent.parent


def main():
    args = [a for a in sys.argv[1:] if not a.startswith("--")]
    patch = pathlib.Path(args[0]).resolve()
    ids = args[1].split(",")
    tier = args[2] if len(args) > 2 else "quick"
    budget = None
    if "--budget" in sys.argv:
        budget = sys.argv[sys.argv.index("--budget") + 1]
        args = [a for a in args if a != budget]
    name = hashlib.sha1(str(patch).encode()).hexdigest()[:10]
    wt = pathlib.Path("/tmp/vfwt") / name
    out = pathlib.Path("/tmp/vfwt") / (name + "_out")
    wt.parent.mkdir(exist_ok=True)
    subprocess.run(["git", "-C", "/repo", "worktree", "remove", "--force", str(wt)],
                   capture_output=True)
    subprocess.run(["git", "-C", "/repo", "worktree", "add", "--detach", str(wt), "HEAD"],
                   check=True, capture_output=True)
    rc_all = 0
    try:
        for so in pathlib.Path("/repo/dclab").rglob("*.so"):
            shutil.copy2(so, wt / so.relative_to("/repo"))
        r = subprocess.run(["git", "-C", str(wt), "apply", "--3way", str(patch)],
                           capture_output=True, text=True)
        if r.returncode != 0:
            r = subprocess.run(["git", "-C", str(wt), "apply", str(patch)],
                               capture_output=True, text=True)
        if r.returncode != 0:
            print("PATCH-DOES-NOT-APPLY", patch, r.stderr[-500:])
            return 3
        for pid in ids:
            env = dict(os.environ, VERIF_REPO=str(wt), VERIF_OUT=str(out))
            cmd = [str(VERIF / "check"), pid, tier]
            if budget:
                cmd += ["--budget", budget]
            r = subprocess.run(cmd, env=env, capture_output=True, text=True, cwd=str(VERIF))
            lines = [ln for ln in r.stdout.splitlines()
                     if ln.startswith(("VIOLATION", "  signature", pid + " "))]
            killed = r.returncode == 1 and any(ln.startswith("VIOLATION") for ln in lines)
            print(("KILLED  " if killed else f"SURVIVED(rc={r.returncode})"), pid, patch)
            for ln in lines[:12]:
                print("   ", ln[:300])
            if r.returncode == 2:
                print(r.stderr[-1500:])
            if not killed:
                rc_all = 1
    finally:
        if "--keep" not in sys.argv:
            subprocess.run(["git", "-C", "/repo", "worktree", "remove", "--force", str(wt)],
                           capture_output=True)
            shutil.rmtree(out, ignore_errors=True)
            subprocess.run(["git", "-C", "/repo", "worktree", "prune"], capture_output=True)
    return rc_all


if __name__ == "__main__":
    sys.exit(main())
