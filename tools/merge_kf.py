#!/venv/bin/python
"""tools/merge_kf.py CNN [signature-substring ...]: move findings of known_findings.d/CNN.json
(all, or those whose signature contains one of the substrings) into known_findings.json."""
import json, pathlib, sys
V = pathlib.Path(__file__).resolve().parent.parent
pid = sys.argv[1]; subs = sys.argv[2:]
src = V / "known_findings.d" / f"{pid}.json"
d = json.loads(src.read_text())
main = json.loads((V / "known_findings.json").read_text())
keep = []
for f in d["findings"]:
    if not subs or any(s in f["signature"] for s in subs):
        if f["signature"] not in [g["signature"] for g in main["findings"]]:
            main["findings"].append(f)
            print("merged", f["signature"])
    else:
        keep.append(f)
(V / "known_findings.json").write_text(json.dumps(main, indent=1) + "\n")
if keep:
    src.write_text(json.dumps({"findings": keep}, indent=1) + "\n")
else:
    src.unlink()
