#!/venv/bin/python
"""Regenerates MANIFEST.json from the table below (keeps it valid at all times)."""
import json
import pathlib

ROOT = pathlib.Path(__file__).resolve().parent.parent
BASE_OFF = ("cd /repo && env -u DCLAB_VERIF /venv/bin/python -m pytest -ra -q -p no:cacheprovider "
            "--timeout=900 --continue-on-collection-errors --junitxml=/tmp/dclab_baseline_off.junit.xml")

# id -> (category, technique, level text, level note, design ref)
CHECKS = {
 "C20": ("exploration",
         "Hypothesis-generated production histories + differential oracle (nanmin/nanmax/nanmean of the data read back)",
         "Generated-input search: scalar data with arbitrary NaN placement x append compositions x writer re-opens x replace mode x stripped summaries x join/compress/repack/condense/export chains x file / hierarchy-child (with refresh) / basin views; each reported min/max/mean compared with the NaN-ignoring statistic of the values actually read. Exploration cannot show absence; counts and samples are in the evidence.",
         "Trusts numpy's nan-statistics and h5py; version shim (dclab._version pre-seeded) so written files re-open; mapped-basin feature objects expose no summary methods (counted as skipped).",
         "DESIGN.md §5 C20"),
}
CHECKS["C01"] = ("exploration",
    "model-based history generation (Hypothesis) + in-memory reference model of the writer, read back through dclab and raw h5py",
    "Generated writer programs: 1-4 writer sessions (append/replace/reset, own chunk-size configuration) of interleaved store_feature/store_log/store_table/store_metadata calls with events split arbitrarily over calls, every feature kind (scalar float/int, index, image, mask, contour, trace, float32 image, user-shaped temporary feature) and every documented single-event/list/array input form; the file is compared with an in-memory model through dclab (whole/int/slice/boolean access) and through raw h5py (values, dtypes, counts). Exploration, not proof.",
    "Trusts h5py/numpy as independent reader; version shim; tables written once per name (second write raises by design); NUL characters excluded from log lines; integer features within the stored type's range.",
    "DESIGN.md §5 C01")
CHECKS["C03"] = ("exploration",
    "stateful operation-history generation (Hypothesis) + stateless reference specification (exact rational even-odd polygon test) + fresh-dataset differential",
    "Generated histories (<=40 operations: set/change/delete ranges, add/modify/invert/deregister polygon filters, invalid-event removal, enable, event limit, manual exclusions, reset, apply with/without force) on datasets with NaN/inf and bounds tying with data; after every apply the box/polygon/invalid/all arrays are compared with a from-scratch evaluation of the current configuration and with a freshly configured dataset (history independence, reproducible limit). Exploration, not proof.",
    "Events exactly on a polygon boundary or with non-finite polygon coordinates are excluded from the polygon comparison (counted); dyadic coordinates make the float test exact; lone min/max keys (documented ValueError) are not generated.",
    "DESIGN.md §5 C03")
CHECKS["C05"] = ("exploration",
    "Hypothesis-generated LUTs/set-ups/query points + differential oracle (own LUT parser, own Delaunay + barycentric interpolation, transcribed scaling/pixelation/viscosity laws) + metamorphic relations",
    "Generated-input search over built-in and generated user LUTs (path / identifier / array+metadata), channel widths, flow rates, pixel sizes incl. 0, media x viscosity models x temperatures (scalar and per event) and numeric viscosities; query points are constructed in LUT coordinates (interior, triangle edges, nodes, hull +-1e-3..1e-12, outside, NaN/inf). Each event is compared with an independent interpolation + scaling implementation (rtol 1e-7 + conditioning term), NaN <=> outside the hull (own hull test, 1e-9 band excluded and counted), and metamorphic laws (batch independence, scalar vs array temperature vs numeric viscosity, linearity, joint rescaling, no state leak, inputs/LUTs unmodified, ancillary-feature scenarios A/B/C). Exploration, not proof.",
    "Qhull is shared between oracle and code; constants of the pixelation/viscosity formulas are transcribed from the docs of this tree; extrapolate=True not claimed; quads with ambiguous Delaunay diagonal skipped and counted.",
    "DESIGN.md §5 C05, notes/C05.md")
CHECKS["C17"] = ("exploration",
    "history-driven generation (Hypothesis) over memoised functions with adversarially similar arguments + differential oracle (undecorated function / direct digest / get_contour / first read)",
    "Generated call histories on kde_histogram/kde_gauss/kde_multivariate/downsample_grid with byte-identical siblings (other dtype, re-split bytes, strided views, 1-D vs 2-D, positional vs keyword), bursts beyond the cache capacity and in-place modification of results; util.hashfile with rewrites at +1 ns..+1 s mtime, same-size rewrites, symlinks, LRU overflow; LazyContourList with small capacities; dataset reads (HDF5, child, grandchild, basin, mapped basin) followed by in-place modification and re-read. Every result must equal a fresh computation exactly. Exploration, not proof.",
    "The undecorated functions (Cache.func) and hashlib are the reference; eviction order itself is not observable through values (only bound, consistency, immediate-repeat hit); compiled downsampling body is black-box.",
    "DESIGN.md §5 C17, notes/C17.md")
CHECKS["C18"] = ("exploration",
    "Hypothesis-generated masks/polygons/images/spill matrices + exact-arithmetic reference (rational polygon moments, Pappus volume, integer brightness statistics) + invariants (refill, translation, swap, rotation, scaling, inverse)",
    "Generated connected hole-free masks (blobs, thin, border/corner-touching), star-shaped and elliptic polygons at offsets up to 5000 px, pixelated discs, uint8 images/backgrounds with every offset container, non-negative invertible spill matrices: contour traces the boundary and refill(contour)==mask; moments/inertia ratios against exact rational moments + translation/swap/rotation laws; volume against an independent Pappus evaluation, s^3 scaling, orientation sign, analytic bounds; brightness = exact mean/SD/percentiles; crosstalk correction inverts the modelled spill-over; list/3-D/dataset routes equal the single-event functions. Exploration, not proof.",
    "Float tolerances are condition based with >=100x margin over measured error (table in notes/C18.md); compiled marching squares is black-box; one-pixel masks are a documented rejection.",
    "DESIGN.md §5 C18, notes/C18.md")
CHECKS["C15"] = ("exploration",
    "exhaustive enumeration of small integer-grid polygons x lattice points (exact int64 even-odd oracle with two independent rays) + Hypothesis-generated float polygons/points (exact big-integer parity) + .poly save/load round trips",
    "Exhaustive part (both tiers): every 3-/4-gon on the 4x4 grid and every 5-gon on the 3x3 grid (128 681 polygons incl. degenerate, self-intersecting, repeated/closing vertices) x all integer and half-integer lattice points (7.4 M off-boundary checks; thorough adds 5-gons on 4x4 and 6-gons on 3x3). Generated part: 3-12 double vertices over 20 orders of magnitude, points level with vertices / next to edges; points_in_poly, PolygonFilter.filter (plain, inverted, copies) and point_in_poly must agree with exact parity, be invariant under cyclic shift/reversal/closing vertex. Persistence: 1-6 filters per file through save_all/save/file object, import_all: axes, inversion, names (incl. '=' and '[Polygon]'), identifiers, coordinates, classifications. Exploration + exhaustive small scope.",
    "Boundary points are excluded (exact test) and points closer than 1e-12 relative to an edge are skipped and counted; compiled containment code is black-box (mutants live in the Python wrappers).",
    "DESIGN.md §5 C15, notes/C15.md")
CHECKS["C16"] = ("exploration",
    "Hypothesis-generated array pairs / request relations / dataset filter histories + exact selection oracle (subset, count rule, invalid handling, reproducibility under perturbed RNG and cleared cache) + fresh-dataset differential for the event limit",
    "Generated-input search over downsample_grid, downsample_rand and dataset histories (dict/HDF5/hierarchy child; manual, box, polygon, invalid, limit; get_downsampled_scatter lin/log, both invalid modes, ret_mask, pending settings): requests are drawn relative to the numbers of valid events, events and occupied grid cells (0, 1, <V, V, V+1, N-1, N, N+1, >N); returned values are bit-identical to input[mask], count rule per mode, invalid points only after valid ones are exhausted, same mask on a second call with cleared cache and perturbed global RNG, inputs untouched. Exploration, not proof.",
    "Which points the grid step keeps is not asserted (only subset/count/reproducibility, as the property states); compiled code is black-box for git-diff mutants (a gcc driver mutates the generated C); two compiled defects are known findings.",
    "DESIGN.md §5 C16, notes/C16.md")
NOT_APPLICABLE = {}

def main():
    props = [json.loads(l) for l in (ROOT / "properties.jsonl").read_text().splitlines() if l.strip()]
    checks = []
    for p in props:
        pid = p["id"]
        if pid not in CHECKS:
            continue
        cat, tech, text, note, ref = CHECKS[pid]
        checks.append({
            "property_id": pid,
            "quick_cmd": f"./check {pid} quick",
            "thorough_cmd": f"./check {pid} thorough",
            "evidence_file": f"/verif/evidence/{pid}.json",
            "replay_cmd_template": f"./check {pid} --replay {{path}}",
            "engine": "vf",
            "level_claimed": {"category": cat, "text": text, "design_ref": ref},
            "level_note": note,
            "technique": tech,
        })
    na = []
    for p in props:
        if p["id"] not in CHECKS:
            na.append({"property_id": p["id"],
                       "reason": NOT_APPLICABLE.get(p["id"], "check not built yet (work in progress, see DESIGN.md §9); not claimed")})
    man = {
        "version": 1,
        "setup_cmd": "./setup.sh",
        "hooks": {"guard": "DCLAB_VERIF", "enable": "no source hooks are needed: all instrumentation (fault injection, call counting, version shim) is harness-side monkeypatching; checks import /repo's working tree directly",
                  "baseline_off_cmd": BASE_OFF, "source_commits": [], "add_only": True},
        "engines": [{"name": "vf", "path": "/verif/vf", "serves_properties": sorted(CHECKS),
                     "kind_free_text": "Hypothesis-driven property-based testing: JSON specs -> interpreter -> oracle; 16 shard processes; signature-based known findings; replay bypasses Hypothesis"}],
        "checks": checks,
        "notes": "All checks: ./check <ID> [quick|thorough]; VERIF_SEED selects the Hypothesis seeds; exit 0 held / 1 VIOLATION / 2 harness error or inconclusive.",
        "not_applicable": na,
    }
    (ROOT / "MANIFEST.json").write_text(json.dumps(man, indent=1) + "\n")
    print("MANIFEST.json:", len(checks), "checks,", len(na), "not claimed")

if __name__ == "__main__":
    main()
