#!/venv/bin/python
"""Regenerates MANIFEST.json from the table below (keeps it valid at all times)."""
import json
import pathlib

ROOT = pathlib.Path(__file__).resolve().parent.parent
BASE_OFF = ("cd /repo && env -u DCLAB_VERIF /venv/bin/python -m pytest -ra -q -p no:cacheprovider "
            "--timeout=900 --continue-on-collection-errors --junitxml=/tmp/dclab_baseline_off.junit.xml")

# id -> (category, technique, level text, level note, design ref)
CHECKS = {
 "C20": ("exploration",
         "Hypothesis-generated production histories + differential oracle (nanmin/nanmax/nanmean of the data read back)",
         "Generated-input search: scalar data with arbitrary NaN placement x append compositions x writer re-opens x replace mode x stripped summaries x join/compress/repack/condense/export chains x file / hierarchy-child (with refresh) / basin views; each reported min/max/mean compared with the NaN-ignoring statistic of the values actually read. Exploration cannot show absence; counts and samples are in the evidence.",
         "Trusts numpy's nan-statistics and h5py; version shim (dclab._version pre-seeded) so written files re-open; mapped-basin feature objects expose no summary methods (counted as skipped).",
         "DESIGN.md §5 C20"),
}
CHECKS["C01"] = ("exploration",
    "model-based history generation (Hypothesis) + in-memory reference model of the writer, read back through dclab and raw h5py",
    "Generated writer programs: 1-4 writer sessions (append/replace/reset, own chunk-size configuration) of interleaved store_feature/store_log/store_table/store_metadata calls with events split arbitrarily over calls, every feature kind (scalar float/int, index, image, mask, contour, trace, float32 image, user-shaped temporary feature) and every documented single-event/list/array input form; the file is compared with an in-memory model through dclab (whole/int/slice/boolean access) and through raw h5py (values, dtypes, counts). Exploration, not proof.",
    "Trusts h5py/numpy as independent reader; version shim; tables written once per name (second write raises by design); NUL characters excluded from log lines; integer features within the stored type's range.",
    "DESIGN.md §5 C01")
CHECKS["C03"] = ("exploration",
    "stateful operation-history generation (Hypothesis) + stateless reference specification (exact rational even-odd polygon test) + fresh-dataset differential",
    "Generated histories (<=40 operations: set/change/delete ranges, add/modify/invert/deregister polygon filters, invalid-event removal, enable, event limit, manual exclusions, reset, apply with/without force) on datasets with NaN/inf and bounds tying with data; after every apply the box/polygon/invalid/all arrays are compared with a from-scratch evaluation of the current configuration and with a freshly configured dataset (history independence, reproducible limit). Exploration, not proof.",
    "Events exactly on a polygon boundary or with non-finite polygon coordinates are excluded from the polygon comparison (counted); dyadic coordinates make the float test exact; lone min/max keys (documented ValueError) are not generated.",
    "DESIGN.md §5 C03")
CHECKS["C05"] = ("exploration",
    "Hypothesis-generated LUTs/set-ups/query points + differential oracle (own LUT parser, own Delaunay + barycentric interpolation, transcribed scaling/pixelation/viscosity laws) + metamorphic relations",
    "Generated-input search over built-in and generated user LUTs (path / identifier / array+metadata), channel widths, flow rates, pixel sizes incl. 0, media x viscosity models x temperatures (scalar and per event) and numeric viscosities; query points are constructed in LUT coordinates (interior, triangle edges, nodes, hull +-1e-3..1e-12, outside, NaN/inf). Each event is compared with an independent interpolation + scaling implementation (rtol 1e-7 + conditioning term), NaN <=> outside the hull (own hull test, 1e-9 band excluded and counted), and metamorphic laws (batch independence, scalar vs array temperature vs numeric viscosity, linearity, joint rescaling, no state leak, inputs/LUTs unmodified, ancillary-feature scenarios A/B/C). Exploration, not proof.",
    "Qhull is shared between oracle and code; constants of the pixelation/viscosity formulas are transcribed from the docs of this tree; extrapolate=True not claimed; quads with ambiguous Delaunay diagonal skipped and counted.",
    "DESIGN.md §5 C05, notes/C05.md")
CHECKS["C17"] = ("exploration",
    "history-driven generation (Hypothesis) over memoised functions with adversarially similar arguments + differential oracle (undecorated function / direct digest / get_contour / first read)",
    "Generated call histories on kde_histogram/kde_gauss/kde_multivariate/downsample_grid with byte-identical siblings (other dtype, re-split bytes, strided views, 1-D vs 2-D, positional vs keyword), bursts beyond the cache capacity and in-place modification of results; util.hashfile with rewrites at +1 ns..+1 s mtime, same-size rewrites, symlinks, LRU overflow; LazyContourList with small capacities; dataset reads (HDF5, child, grandchild, basin, mapped basin) followed by in-place modification and re-read. Every result must equal a fresh computation exactly. Exploration, not proof.",
    "The undecorated functions (Cache.func) and hashlib are the reference; eviction order itself is not observable through values (only bound, consistency, immediate-repeat hit); compiled downsampling body is black-box.",
    "DESIGN.md §5 C17, notes/C17.md")
CHECKS["C18"] = ("exploration",
    "Hypothesis-generated masks/polygons/images/spill matrices + exact-arithmetic reference (rational polygon moments, Pappus volume, integer brightness statistics) + invariants (refill, translation, swap, rotation, scaling, inverse)",
    "Generated connected hole-free masks (blobs, thin, border/corner-touching), star-shaped and elliptic polygons at offsets up to 5000 px, pixelated discs, uint8 images/backgrounds with every offset container, non-negative invertible spill matrices: contour traces the boundary and refill(contour)==mask; moments/inertia ratios against exact rational moments + translation/swap/rotation laws; volume against an independent Pappus evaluation, s^3 scaling, orientation sign, analytic bounds; brightness = exact mean/SD/percentiles; crosstalk correction inverts the modelled spill-over; list/3-D/dataset routes equal the single-event functions. Exploration, not proof.",
    "Float tolerances are condition based with >=100x margin over measured error (table in notes/C18.md); compiled marching squares is black-box; one-pixel masks are a documented rejection.",
    "DESIGN.md §5 C18, notes/C18.md")
CHECKS["C15"] = ("exploration",
    "exhaustive enumeration of small integer-grid polygons x lattice points (exact int64 even-odd oracle with two independent rays) + Hypothesis-generated float polygons/points (exact big-integer parity) + .poly save/load round trips",
    "Exhaustive part (both tiers): every 3-/4-gon on the 4x4 grid and every 5-gon on the 3x3 grid (128 681 polygons incl. degenerate, self-intersecting, repeated/closing vertices) x all integer and half-integer lattice points (7.4 M off-boundary checks; thorough adds 5-gons on 4x4 and 6-gons on 3x3). Generated part: 3-12 double vertices over 20 orders of magnitude, points level with vertices / next to edges; points_in_poly, PolygonFilter.filter (plain, inverted, copies) and point_in_poly must agree with exact parity, be invariant under cyclic shift/reversal/closing vertex. Persistence: 1-6 filters per file through save_all/save/file object, import_all: axes, inversion, names (incl. '=' and '[Polygon]'), identifiers, coordinates, classifications. Exploration + exhaustive small scope.",
    "Boundary points are excluded (exact test) and points closer than 1e-12 relative to an edge are skipped and counted; compiled containment code is black-box (mutants live in the Python wrappers).",
    "DESIGN.md §5 C15, notes/C15.md")
CHECKS["C16"] = ("exploration",
    "Hypothesis-generated array pairs / request relations / dataset filter histories + exact selection oracle (subset, count rule, invalid handling, reproducibility under perturbed RNG and cleared cache) + fresh-dataset differential for the event limit",
    "Generated-input search over downsample_grid, downsample_rand and dataset histories (dict/HDF5/hierarchy child; manual, box, polygon, invalid, limit; get_downsampled_scatter lin/log, both invalid modes, ret_mask, pending settings): requests are drawn relative to the numbers of valid events, events and occupied grid cells (0, 1, <V, V, V+1, N-1, N, N+1, >N); returned values are bit-identical to input[mask], count rule per mode, invalid points only after valid ones are exhausted, same mask on a second call with cleared cache and perturbed global RNG, inputs untouched. Exploration, not proof.",
    "Which points the grid step keeps is not asserted (only subset/count/reproducibility, as the property states); compiled code is black-box for git-diff mutants (a gcc driver mutates the generated C); two compiled defects are known findings.",
    "DESIGN.md §5 C16, notes/C16.md")
CHECKS["C04"] = ("exploration",
    "stateful operation-history generation (Hypothesis) on hierarchy chains of depth 1-4 + reference model (root-index views composed from observed filters, per-level sets of manually excluded root events, stateless per-level filter specification)",
    "Generated histories (<=40 operations) on dict/HDF5 roots with scalar, image, mask, contour, trace, computed and temporary features: filter edits on any level (ranges, inactive ranges, key deletion, invalid, enable, limit, polygons), manual exclusion/re-inclusion on any level, reset, temporary features on any level, root configuration changes, reads, new youngest member, youngest and ancestor-only refreshes, scripted exclude->hide->refresh->unhide cycles. After every refresh each level must equal the filtered view of its parent for every feature kind and access form, and manual exclusions must sit on exactly the excluded root events. Exploration, not proof.",
    "Views are composed from the observed parent filters (a wrong parent filter is caught by the separate per-level filter specification); computed features are compared with the root's values; manual/temporary operations are only applied to levels that are synchronised with their ancestors.",
    "DESIGN.md §5 C04, notes/C04.md")
CHECKS["C08"] = ("exploration",
    "Hypothesis-generated HDF5 storage layouts (raw h5py) x task options + structural round-trip comparison through raw h5py and through dclab + enumerated tdms fixtures",
    "Generated .rtdc inputs in every storage layout the copier branches on (contiguous/chunked/oversized chunks, none/gzip/lzf/shuffle/Zstd 1-5-9, fletcher32, variable/fixed/empty logs incl. multi-byte lines >100 bytes, compound tables with attributes, file/mapped/internal basins, defective-feature markers, unknown datasets, temporary features, zero events) x compress / repack (strip flags) / condense (ancillary x basin flags), optionally applied twice; 7 tdms fixtures x options for tdms2rtdc. Oracles: input sha256 unchanged; values/dtypes/attributes/logs/tables/basin JSON/root attributes equal modulo documented additions; defective features not copied; compress output Zstd>=5; dclab views of input and output equal; condensed scalar features equal the input view. Exploration, not proof.",
    "tdms inputs are the repository fixtures only; the defect rules are transcribed for a fixed list of version strings; an ffmpeg header timeout under load is counted as skip.",
    "DESIGN.md §5 C08, notes/C08.md")
CHECKS["C09"] = ("exploration",
    "Hypothesis-generated measurements/split sizes/join input sets + reference model (numpy slicing and concatenation, exact Fraction arithmetic on time stamps, marker feature decoding the source order)",
    "Split: sizes 1, divisor, non-divisor, remainder 1, N, >N; empty boundary images at the ends, at part boundaries and inside; both skip flags; optional re-join in order or reversed. Join: 2-5 inputs in random order, time stamps with mixed fractional digits, minute/day carry, ties, run indices incl. 10, differing feature sets (single, adjacent and non-adjacent missing, computable-only, extras). Oracles: parts partition the source in order with len<=size; join order chronological with documented tie-break; feature set sandwiched; values exact concatenation; time/frame offsets; index 1..N; index_online strictly increasing; logs of every source; join(split(x))==x. Exploration, not proof.",
    "No tdms inputs; inputs of one join share frame rate, image shape and trace names; UTC assumed.",
    "DESIGN.md §5 C09, notes/C09.md")
CHECKS["C10"] = ("fault_enumeration",
    "fault injection at every Python-level HDF5/file-system operation of a golden run (one-shot OSError, persistent failure, process kill before the operation) over enumerated + Hypothesis-generated task configurations",
    "For compress, condense, repack, join, split, tdms2rtdc: a harness-side injector counts every outermost h5py mutation and pathlib/os/shutil step on paths of the case (K = 53..1270 per golden run); for fault points (mode, k) the task is re-run with the k-th operation raising OSError, with every write from k on failing (disk full), or in a forked child killed before operation k; stale outputs/temp files in the initial state. After the fault every requested output path must be absent, golden-equal, or the untouched complete stale file; other new files must be named *.rtdc~; inputs byte-identical; a fault-free run leaves no temp file; a re-run after the crash succeeds. Quick: stratified points (every open/close/rename/unlink/mkdir, first/last of each kind); thorough: every k in every mode for 12 fixed configurations.",
    "Faults inside one HDF5 C call, power loss and fsync ordering are not modelled; kill = fork + os._exit; clock and uuid4 frozen so that complete outputs are structurally identical to the golden output; 'complete' means equal to the golden output of the same tree (content is C08/C09's subject).",
    "DESIGN.md §5 C10, notes/C10.md")
CHECKS["C12"] = ("exploration",
    "Hypothesis-generated datasets/filters/poison values/queries + metamorphic oracle (filtered dataset == dataset of the selected events) + definitions + independent reference estimators",
    "Generated datasets (clustered, tie-heavy, lognormal, signed, int/uint32, NaN/inf; dict and .rtdc) x filters (manual, box, invalid, limit, disabled) x poison on excluded events x queries (all statistics, get_kde_scatter 3 estimators x lin/log x own/explicit positions, get_kde_contour, quantile levels, contour lines, downsampled scatter, tsv export). Oracles: result equals that of a dataset holding only the selected events; statistics by definition; histogram-spline / Gaussian / product-kernel reference implementations (rtol 1e-9 + 1e-12 scale, ~870x margin); quantile fraction; iso-level vertices; mask marks selected events only; tsv rows equal %.10e text. Exploration, not proof.",
    "scipy/numpy are trusted for the reference estimators; no reference for <3 events or singular data (metamorphic only); exceptions for degenerate inputs are unspecified (counted).",
    "DESIGN.md §5 C12, notes/C12.md")
CHECKS["C19"] = ("exploration",
    "stateful operation-history generation (Hypothesis) against an in-process RFC 7233 range server + reference model (byte string + position) + local-vs-HTTP dataset differential",
    "Byte level: random resources with length around multiples of the chunk size (chunk 1-4096, keep_chunks 1-8, length 0 included), histories of seek (SET/CUR/END), tell, read(n) ending on chunk boundaries, spanning chunks, ending at / crossing EOF, n=0; after every operation data, position, cache size <= keep_chunks, cached content, no chunk behind EOF. Dataset level: generated .rtdc files (scalar, image, mask, contour, trace, logs, tables; Zstd/gzip/none) opened through RTDC_HTTP / new_dataset(url) with small chunk sizes and compared with the local file (features, config incl. types, logs, tables). All comparisons exact. Exploration, not proof.",
    "One server behaviour (invalid range ignored per RFC 7233) plus one transient 503 on the header request and a resource replaced behind the same URL; S3File runs at byte level against the same server (unsigned path-style endpoint, 5 enumerated sizes), RTDC_S3 / DCOR datasets are not opened; faults on range requests are outside the property; request counts are recorded but not judged.",
    "DESIGN.md §5 C19, notes/C19.md")
CHECKS["C11"] = ("exploration",
    "enumerated sweep over every metadata key x route + Hypothesis-generated assignment histories / configuration files / stored files carried through the tools, against an independent key table and normalisation (vf/lib_meta.py)",
    "Enumerated: all 108 table keys, pattern keys and user keys x 5 routes with canonical representations. Generated: histories of set/delete on a Configuration (item, update(dict), update(**kw), Configuration.update, constructor; keys in random case; every value representation of the quantifier plus rejected inputs), hand-written and saved configuration files, files written by store_metadata / dict export / raw h5py attributes and carried through export, filtered export, compress, repack, condense, split, join. After every operation the whole section is compared with the model (documented type, equal value, untouched entries unchanged, rejected inputs warn and store nothing, idempotence, case-insensitive lookup); HDF5 attribute types after writing; configuration after re-open equals the normalised originals. Exploration + exhaustive key sweep.",
    "The key table and normalisation rules are an own transcription of the documented tables (a key-set mismatch with dclab is itself a failure); invalid representations may raise or store a value of the documented type; text files are ASCII without '#'/quotes.",
    "DESIGN.md §5 C11, notes/C11.md")
CHECKS["C02"] = ("exploration",
    "Hypothesis-generated sources/selections/feature lists/options (+87 enumerated essential cases) + reference model computed from the generated arrays (composition of basin map, parent selections and the final selection), read back through raw h5py and dclab",
    "Sources: in-memory dict, dict with non-sliceable (tdms-like) columns, RTDCWriter files, files with short features, basin-backed files (unmapped/mapped), the 7 tdms fixtures; hierarchy depth 0-2; selections empty/full/single/straddling the export chunk size; export.hdf5 with feature subsets incl. duplicates / all / None, logs, tables, basins, skip_checks, prefixes, compression, path variants; export.tsv. Oracles: exported feature set, per-feature event count, exact NaN-aware values for every feature kind, stored dtypes, metadata incl. user section with only the documented changes, logs/tables, source filter untouched, TSV cells within the exact bound of %.10e. Exploration, not proof.",
    "Expected content is computed from the generated arrays, never read through dclab (tdms: a second sequentially read instance); the selection itself is taken from ds.filter.all (C03's subject); stored basin definitions are C07's subject.",
    "DESIGN.md §5 C02, notes/C02.md")
CHECKS["C07"] = ("exploration",
    "history-driven generation (Hypothesis) of programs of file-producing steps (store_basin referrers, filtered basin exports from files/children/grandchildren, rtdc_copy, directory moves) + from-scratch reference model that composes the index maps with numpy.take",
    "Generated origins (up to 6 of 11 feature kinds incl. image, mask, contour, trace, float32 images; optional internal basin) and programs of 1-5 steps, each using any earlier file as source (up to 4 basin hops): referrers with unmapped/mapped basins (sorted, unsorted, repeating, permuted, superset, chunk-crossing, length-1 maps; feature restriction; own copies of basin features; absolute/relative locations), export.hdf5(basins=True) from files, hierarchy children and grandchildren (filtered or not, with/without stored features), rtdc_copy, and moving the whole directory tree. Every produced file is re-opened and every feature compared on every access route (integer incl. negative, stepped slice, boolean mask, [:], np.asarray) with the model; features_basin, membership, innate-ness, len, shape. Exact comparisons. Exploration, not proof.",
    "Only file/hdf5 and internal basins (remote formats: C14/C19); when own copies upstream make two basins disagree either is accepted (counted); ancillary features derived from basin data are not compared.",
    "DESIGN.md §5 C07, notes/C07.md")
CHECKS["C06"] = ("exploration",
    "stateful operation-history generation (Hypothesis) on a long-lived dataset (+ hierarchy child) with a fresh-dataset differential after every observation, an availability model and direct recipe evaluation",
    "Generated histories (<=40 operations) starting from near-complete configurations with every changeable feature read once: set/change/delete 18 [calculation]/[imaging]/[setup]/[user] keys (5 emodulus keys, 6 crosstalk elements), set/replace temporary features and ml_score_???, register/replace/remove plugin recipes, parent filter changes, reads / membership / feature lists on the dataset and on the refreshed child. For every observation a fresh dataset is built from the current model state: value equal (NaN-aware, exact) or same exception class; membership and feature list equal; membership <=> reading succeeds (deliberate errors only in contradictory configurations); availability per documented scenario; emodulus A/B/C precedence, area_um, time, aspect, ml_class, plugin formulas and crosstalk correction against direct evaluation. Exploration, not proof.",
    "Input data fixed per case; HDF5 features are hashed by (file, dataset name) so on-disk changes under an open dataset are out of scope; definitions of volume/brightness/inertia are C18's subject.",
    "DESIGN.md §5 C06, notes/C06.md")
CHECKS["C14"] = ("exploration",
    "Hypothesis-generated basin-reference graphs over <=6 files (local, loopback HTTP, remote-format stand-in) + reference model = graph search over the spec; signature features name the providing file; dataset constructions counted against a precomputed walk bound",
    "Generated graphs (chains, k-cycles, lasso, diamond, self loop, random) with run-identifier classes (equal, prefix, prefix of prefix, unrelated, derived, none), edge types file / http / remote-format stand-in / internal, mapped or same, feature restrictions, absolute/relative/dangling/second-candidate locations; entry opened locally, through RTDC_HTTP and through the stand-in. Termination: number of dataset constructions bounded by the graph's walk bound (deterministic cut, no wall clock). Isolation: every returned array carries the signature of a provider reachable over existing, permitted, identifier-matching edges; no local file is opened below a network format. Availability: features on accepted simple paths are readable and listed, others raise KeyError and are not listed. Exact comparisons. Exploration, not proof.",
    "S3/DCOR transports are not run (their only relevant behaviour, _local_basins_allowed = False for non-hdf5 formats, is exercised through a stand-in subclass and RTDC_HTTP on loopback); referrers without identifier are unspecified; byte-identical basin definitions excluded (cycles are cut by key).",
    "DESIGN.md §5 C14, notes/C14.md")
CHECKS["C13"] = ("exploration",
    "enumerated sweep (every corruption kind x variant, every mandatory key, every write path once and chained) + Hypothesis-generated closure / defect / corruption cases with an oracle on the reported violations",
    "Closure: datasets with complete metadata through writer histories or dict export, chained through compress, repack, condense, export (filtered, basins, hierarchy child), split, join: every file without violations, a file and its compressed/repacked copy receive identical violation lists. Defect: metadata lacking a mandatory key / non-positive set-up values must be reported, identically for the copies. Corruption: one or two raw h5py corruptions (feature length, event count, ROI attributes, unknown feature, deleted key/section, non-enumerating index, channel/laser/samples-per-event contradictions, external links incl. dangling, virtual/external datasets, non-positive values) must each come back as a violation naming the affected object with matching category/section/key; check_dataset agrees with IntegrityChecker.check; verify_dataset exit codes; the checker must not raise. Exploration + exhaustive sweep of kinds.",
    "Matching is on names and categories, never numbers; the 'same violations for the copy' clause is asserted for files dclab itself produced; write-path failures that belong to other properties are skipped and counted.",
    "DESIGN.md §5 C13, notes/C13.md")
NOT_APPLICABLE = {}

def main():
    props = [json.loads(l) for l in (ROOT / "properties.jsonl").read_text().splitlines() if l.strip()]
    checks = []
    for p in props:
        pid = p["id"]
        if pid not in CHECKS:
            continue
        cat, tech, text, note, ref = CHECKS[pid]
        checks.append({
            "property_id": pid,
            "quick_cmd": f"./check {pid} quick",
            "thorough_cmd": f"./check {pid} thorough",
            "evidence_file": f"/verif/evidence/{pid}.json",
            "replay_cmd_template": f"./check {pid} --replay {{path}}",
            "engine": "vf",
            "level_claimed": {"category": cat, "text": text, "design_ref": ref},
            "level_note": note,
            "technique": tech,
        })
    na = []
    for p in props:
        if p["id"] not in CHECKS:
            na.append({"property_id": p["id"],
                       "reason": NOT_APPLICABLE.get(p["id"], "check not built yet (work in progress, see DESIGN.md §9); not claimed")})
    man = {
        "version": 1,
        "setup_cmd": "./setup.sh",
        "hooks": {"guard": "DCLAB_VERIF", "enable": "no source hooks are needed: all instrumentation (fault injection, call counting, version shim) is harness-side monkeypatching; checks import /repo's working tree directly",
                  "baseline_off_cmd": BASE_OFF, "source_commits": [], "add_only": True},
        "engines": [{"name": "vf", "path": "/verif/vf", "serves_properties": sorted(CHECKS),
                     "kind_free_text": "Hypothesis-driven property-based testing: JSON specs -> interpreter -> oracle; 16 shard processes; signature-based known findings; replay bypasses Hypothesis"}],
        "checks": checks,
        "notes": "All checks: ./check <ID> [quick|thorough]; VERIF_SEED selects the Hypothesis seeds; exit 0 held / 1 VIOLATION / 2 harness error or inconclusive.",
        "not_applicable": na,
    }
    (ROOT / "MANIFEST.json").write_text(json.dumps(man, indent=1) + "\n")
    print("MANIFEST.json:", len(checks), "checks,", len(na), "not claimed")

if __name__ == "__main__":
    main()
