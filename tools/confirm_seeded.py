#!/venv/bin/python
"""Confirm a seeded change produced by an independent sub-agent and file it under
/verif/seeded/<ID>-<x>/.

  tools/confirm_seeded.py /tmp/wt/out/C03/a [...]

For each directory (patch.diff, demo.py, meta.json): scratch worktree of /repo HEAD ->
demo must exit 0 -> apply patch -> demo must exit != 0 -> pinned suite must have no
regression against /root/.vp/BASELINE.json -> copy to /verif/seeded with the record of
what was run.  The worktree is removed afterwards."""
import json
import os
import pathlib
import shutil
import subprocess
import sys
import tempfile
import xml.etree.ElementTree as ET

VERIF = pathlib.Path(__file__).resolve().parent.parent


def suite(wt):
    base = set(json.load(open("/root/.vp/BASELINE.json"))["stable_pass"])
    xml = tempfile.mktemp(suffix=".xml")
    env = dict(os.environ, PYTHONPATH=str(wt))
    subprocess.run(["/venv/bin/python", "-m", "pytest", "-q", "-p", "no:cacheprovider",
                    "--timeout=900", "--continue-on-collection-errors",
                    f"--junitxml={xml}", "tests"], cwd=str(wt), env=env,
                   stdout=subprocess.DEVNULL, stderr=subprocess.DEVNULL)
    passed = set()
    for tc in ET.parse(xml).getroot().iter("testcase"):
        if not any(c.tag in ("failure", "error", "skipped") for c in tc):
            passed.add(f"{tc.get('classname')}::{tc.get('name')}")
    os.unlink(xml)
    return sorted(base - passed)


def demo(wt, src):
    env = dict(os.environ, PYTHONPATH=str(wt))
    r = subprocess.run(["/venv/bin/python", str(src / "demo.py")], env=env,
                       capture_output=True, text=True, timeout=900, cwd="/tmp")
    return r.returncode, (r.stdout + r.stderr)[-600:]


def one(src):
    src = pathlib.Path(src).resolve()
    pid, x = src.parent.name, src.name
    name = f"{pid}-{x}"
    wt = pathlib.Path("/tmp/vfwt") / f"confirm_{name}"
    wt.parent.mkdir(exist_ok=True)
    subprocess.run(["git", "-C", "/repo", "worktree", "remove", "--force", str(wt)], capture_output=True)
    subprocess.run(["git", "-C", "/repo", "worktree", "add", "--detach", str(wt), "HEAD"],
                   check=True, capture_output=True)
    rec = {"repo_head": subprocess.run(["git", "-C", "/repo", "rev-parse", "--short", "HEAD"],
                                       capture_output=True, text=True).stdout.strip()}
    try:
        for so in pathlib.Path("/repo/dclab").rglob("*.so"):
            shutil.copy2(so, wt / so.relative_to("/repo"))
        rc0, out0 = demo(wt, src)
        rec["demo_clean_rc"] = rc0
        r = subprocess.run(["git", "-C", str(wt), "apply", str(src / "patch.diff")],
                           capture_output=True, text=True)
        if r.returncode != 0:
            r = subprocess.run(["git", "-C", str(wt), "apply", "--3way", str(src / "patch.diff")],
                               capture_output=True, text=True)
        rec["patch_applies"] = r.returncode == 0
        if r.returncode == 0:
            rc1, out1 = demo(wt, src)
            rec["demo_patched_rc"] = rc1
            rec["demo_patched_tail"] = out1[-300:]
            rec["suite_regressions"] = suite(wt)
        ok = (rec.get("patch_applies") and rc0 == 0 and rec.get("demo_patched_rc", 0) != 0
              and rec.get("suite_regressions") == [])
        rec["confirmed"] = bool(ok)
        rec["ran"] = ["demo.py on clean worktree (expect 0)", "git apply patch.diff",
                      "demo.py on patched worktree (expect != 0)",
                      "pytest pinned suite on patched worktree vs BASELINE stable_pass"]
        if ok:
            sfx = os.environ.get("SEEDED_SUFFIXES")   # e.g. "c,d" for round 2
            if sfx:
                m_ = dict(zip(("a", "b"), sfx.split(",")))
                dst = VERIF / "seeded" / f"{pid}-{m_.get(x, x)}"
            else:
                dst = VERIF / "seeded" / name
            dst.mkdir(parents=True, exist_ok=True)
            shutil.copy2(src / "patch.diff", dst / "patch.diff")
            shutil.copy2(src / "demo.py", dst / "demo.py")
            try:
                meta = json.loads((src / "meta.json").read_text())
            except Exception:
                meta = {"property": pid}
            meta["confirmation"] = rec
            (dst / "meta.json").write_text(json.dumps(meta, indent=1) + "\n")
        print(("CONFIRMED " if ok else "REJECTED  ") + name, json.dumps(rec)[:400], flush=True)
    finally:
        subprocess.run(["git", "-C", "/repo", "worktree", "remove", "--force", str(wt)], capture_output=True)


if __name__ == "__main__":
    for a in sys.argv[1:]:
        try:
            one(a)
        except Exception as e:  # noqa
            print("ERROR", a, repr(e), flush=True)
