#!/bin/bash
# MANIFEST.setup_cmd: offline; makes sure the interpreter has what the checks need.
set -e
cd "$(dirname "$0")"
PY=/venv/bin/python
if ! $PY -c "import hypothesis" 2>/dev/null; then
  /venv/bin/pip install --no-index --find-links /opt/veriftools/wheels hypothesis
fi
$PY - <<'PY'
import sys
sys.path.insert(0, ".")
import vf.boot as boot
import dclab, h5py, numpy, scipy, hypothesis
print("setup ok: dclab from", dclab.__file__, "hypothesis", hypothesis.__version__)
for s in boot.stale_extensions():
    print("note:", s)
PY
