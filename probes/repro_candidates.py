#!/venv/bin/python
"""Design-phase reproduction of the defect candidates listed in DESIGN.md §7.

This is *not* part of the verification framework; it documents, with the
smallest input found during the design probes, what was observed on the
unchanged tree.  Run:  /venv/bin/python probes/repro_candidates.py [ids...]
Every item prints  `<nr> <property> REPRODUCED|not reproduced  <detail>`.
Scratch files go to a temporary directory that is removed at exit.
"""
import sys
import types

# version shim (see DESIGN.md §2): files written by the untagged build
# could otherwise not be re-opened
_m = types.ModuleType("dclab._version")
_m.version = _m.__version__ = "0.62.7"
_m.version_tuple = _m.__version_tuple__ = (0, 62, 7)
_m.commit_id = _m.__commit_id__ = None
sys.modules["dclab._version"] = _m

import atexit  # noqa: E402
import pathlib  # noqa: E402
import shutil  # noqa: E402
import tempfile  # noqa: E402
import warnings  # noqa: E402

import h5py  # noqa: E402
import numpy as np  # noqa: E402

import dclab  # noqa: E402
from dclab import RTDCWriter, PolygonFilter  # noqa: E402
import dclab.cli as cli  # noqa: E402

warnings.simplefilter("ignore")
TMP = pathlib.Path(tempfile.mkdtemp(prefix="dclab_repro_"))
atexit.register(shutil.rmtree, TMP, ignore_errors=True)
META = {"experiment": {"sample": "s", "run index": 1,
                       "date": "2020-01-01", "time": "12:00:00",
                       "run identifier": "rid"},
        "imaging": {"frame rate": 2000., "pixel size": 0.34},
        "setup": {"channel width": 20., "flow rate": 0.04,
                  "medium": "CellCarrier", "chip region": "channel"}}


def mk(name, feats, meta=None, extra=None):
    p = TMP / name
    with RTDCWriter(p) as hw:
        hw.store_metadata(meta or META)
        for f, d in feats.items():
            hw.store_feature(f, d)
        if extra:
            extra(hw)
    return p


def c01():
    p = mk("c1.rtdc", {"deform": np.arange(3.)},
           extra=lambda hw: (hw.store_log("l", ["short"]),
                             hw.store_log("l", ["x" * 150])))
    with dclab.new_dataset(p) as ds:
        n = len(ds.logs["l"][1])
    return n != 150, f"150-char line read back with {n} chars"


def c03():
    ds = dclab.new_dataset({"deform": np.linspace(0, 1, 11)})
    ds.config["filtering"]["deform min"] = .2
    ds.config["filtering"]["deform max"] = .5
    ds.apply_filter()
    del ds.config["filtering"]["deform min"]
    del ds.config["filtering"]["deform max"]
    ds.apply_filter()
    return ds.filter.all.sum() != 11, f"{ds.filter.all.sum()} of 11 selected"


def _emods():
    ds = dclab.new_dataset({"area_um": np.linspace(50, 150, 20),
                            "deform": np.linspace(.01, .1, 20)})
    ds.config["setup"]["flow rate"] = .04
    ds.config["setup"]["channel width"] = 20.
    ds.config["imaging"]["pixel size"] = .34
    return ds


def c06a():
    ds = _emods()
    c = ds.config["calculation"]
    c.update({"emodulus lut": "LE-2D-FEM-19", "emodulus medium": "other",
              "emodulus temperature": 23., "emodulus viscosity": 1.,
              "emodulus viscosity model": "buyukurganci-2022"})
    e1 = np.array(ds["emodulus"])
    c["emodulus viscosity"] = 2.
    e2 = np.array(ds["emodulus"])
    return np.allclose(e1, e2, equal_nan=True), "viscosity 1→2, same values"


def c06b():
    ds = dclab.new_dataset({"deform": np.linspace(0, 1, 8)})
    dclab.set_temporary_feature(ds, "ml_score_aaa", np.linspace(0, 1, 8))
    dclab.set_temporary_feature(ds, "ml_score_bbb", np.linspace(1, 0, 8))
    m1 = np.array(ds["ml_class"])
    dclab.set_temporary_feature(ds, "ml_score_aaa", np.linspace(1, 0, 8))
    dclab.set_temporary_feature(ds, "ml_score_bbb", np.linspace(0, 1, 8))
    return np.array_equal(m1, ds["ml_class"]), "scores swapped, same classes"


def c06c():
    ds = dclab.new_dataset({"area_cvx": np.linspace(1, 2, 5)})
    ds.config["imaging"]["pixel size"] = .3
    ds["area_um"]
    del ds.config["imaging"]["pixel size"]
    try:
        ds["area_um"]
        readable = True
    except KeyError:
        readable = False
    return ("area_um" in ds) and not readable, "in ds: True, read: KeyError"


def c07a():
    n = 8
    p = mk("o7.rtdc", {"deform": np.arange(n) / 10.,
                       "contour": [np.array([[1, 2], [3, 4], [5, 6 + i]])
                                   for i in range(n)],
                       "trace": {"fl1_raw": np.zeros((n, 5), np.int16)}})
    with dclab.new_dataset(p) as ds:
        ds.filter.manual[::2] = False
        ds.apply_filter()
        ds.export.hdf5(TMP / "r7.rtdc", features=["deform"], basins=True)
    out = []
    with dclab.new_dataset(TMP / "r7.rtdc") as r:
        for name, fn in [("trace", lambda: r["trace"]["fl1_raw"][0]),
                         ("contour[1:3]", lambda: r["contour"][1:3])]:
            try:
                fn()
            except BaseException as e:
                out.append(f"{name}: {type(e).__name__}")
    return bool(out), "; ".join(out)


def c07b():
    n = 10
    o = mk("o8.rtdc", {"area_um": np.arange(n, dtype=float)})
    o2 = mk("o8b.rtdc", {"deform": np.arange(n) / 10.},
            extra=lambda hw: hw.store_basin(
                basin_name="b", basin_type="file", basin_format="hdf5",
                basin_locs=[str(o)]))
    ds = dclab.new_dataset(o2)
    ds.filter.manual[:5] = False
    ds.apply_filter()
    ch = dclab.new_dataset(ds)
    ch.filter.manual[0] = False
    ch.apply_filter()
    ch.export.hdf5(TMP / "r8.rtdc", features=["deform"], basins=True)
    with dclab.new_dataset(TMP / "r8.rtdc") as r:
        got = r["area_um"][:]
    ds.close()
    return not np.array_equal(got, [6, 7, 8, 9]), f"area_um={got.tolist()}"


def c08():
    def ex(hw):
        tab = np.rec.array(np.zeros((3, 2)), dtype=np.dtype(
            {"names": ["a", "b"], "formats": [float, float]}))
        hw.store_table("t", tab)
        hw.h5file["tables/t"].attrs["COLOR_a"] = "red"
    p = mk("c8.rtdc", {"deform": np.arange(3.)}, extra=ex)
    cli.compress(p, TMP / "c8c.rtdc")
    with h5py.File(TMP / "c8c.rtdc") as h:
        attrs = dict(h["tables/t"].attrs)
    return "COLOR_a" not in attrs, f"table attrs after compress: {attrs}"


def c09a():
    a = mk("j1.rtdc", {f: np.arange(4.) + 1 for f in
                       ["area_um", "aspect", "bright_avg", "deform"]})
    m2 = {k: dict(v) for k, v in META.items()}
    m2["experiment"]["time"] = "12:00:01"
    b = mk("j2.rtdc", {f: np.arange(4.) + 1 for f in ["area_um", "deform"]},
           meta=m2)
    try:
        cli.join([a, b], TMP / "jo.rtdc")
    except BaseException as e:
        return True, f"{type(e).__name__}: {str(e)[:40]}"
    return False, "joined"


def c09b():
    feats = {"deform": np.arange(4.), "frame": np.arange(4) + 1}
    a = mk("k1.rtdc", feats)
    m2 = {k: dict(v) for k, v in META.items()}
    m2["experiment"]["time"] = "12:00:00.5"
    b = mk("k2.rtdc", feats, meta=m2)
    try:
        cli.join([a, b], TMP / "ko.rtdc")
    except BaseException as e:
        return True, f"{type(e).__name__}: {str(e)[:50]}"
    return False, "joined"


def c11():
    p = mk("c11.rtdc", {"deform": np.arange(3.)},
           extra=lambda hw: hw.store_metadata({"user": {"a:b": 1}}))
    try:
        dclab.new_dataset(p).close()
    except BaseException as e:
        return True, f"open: {type(e).__name__}"
    return False, "opened"


def c15():
    PolygonFilter.clear_all_filters()
    pf = PolygonFilter(axes=("area_um", "deform"),
                       points=[[0, 0], [1, 0], [1, 1]], name="a=b")
    pf.save(TMP / "x.poly")
    PolygonFilter.clear_all_filters()
    try:
        PolygonFilter.import_all(TMP / "x.poly")
    except BaseException as e:
        return True, f"import: {type(e).__name__}"
    return False, "imported"


def c16a():
    from dclab import downsampling
    a = np.arange(5.)
    try:
        downsampling.downsample_grid(a, a, samples=10, ret_idx=True)
    except BaseException as e:
        return True, f"samples=10 of 5: {type(e).__name__}"
    return False, "ok"


def c16b():
    from dclab import downsampling
    a = np.full(50, .5)
    b = np.linspace(0, 1, 50)
    try:
        downsampling.downsample_grid(a, b, samples=10, ret_idx=True)
    except BaseException as e:
        return True, f"constant axis: {type(e).__name__}"
    return False, "ok"


def c17a():
    from dclab import kde_methods as km
    from dclab.cached import Cache
    Cache.clear_cache()
    rng = np.random.default_rng(0)
    xf, yf = rng.random(50), rng.random(50)
    xi, yi = xf.view(np.int64).copy(), yf.view(np.int64).copy()
    r1 = km.kde_histogram(xf, yf)
    r2 = km.kde_histogram(xi, yi)
    Cache.clear_cache()
    r3 = km.kde_histogram(xi, yi)
    return (np.allclose(r1, r2, equal_nan=True)
            and not np.allclose(r2, r3, equal_nan=True)), \
        "int64 args return the float64 result"


def c17b():
    p = mk("c17.rtdc", {"deform": np.linspace(0, 1, 5)})
    with dclab.new_dataset(p) as ds:
        x = ds["deform"][:]
        try:
            x[0] = 99
        except ValueError:
            return False, "read-only"
        return ds["deform"][0] == 99, "ds['deform'][0] == 99 after x[0]=99"


def c18a():
    import scipy.ndimage as ndi
    from dclab.features.contour import get_contour
    m = np.zeros((10, 12), bool)
    m[0:4, 4:9] = True
    c = get_contour(m)
    r = np.zeros_like(m)
    r[c[:, 1], c[:, 0]] = True
    r = ndi.binary_fill_holes(r)
    return not np.array_equal(r, m), f"refill differs in {np.sum(r != m)} px"


def c18b():
    from dclab.features import bright_perc
    n = 3
    img = np.arange(n * 20, dtype=np.uint8).reshape(n, 4, 5)
    bg = np.ones_like(img)
    m = np.zeros((n, 4, 5), bool)
    m[:, 1:3, 1:4] = True
    try:
        bright_perc.get_bright_perc(m, img, bg, bg_off=np.array([1., 2, 3]))
    except ValueError as e:
        return True, f"ValueError: {str(e)[:40]}"
    return False, "ok"


def c20():
    p = TMP / "c20.rtdc"
    with RTDCWriter(p) as hw:
        hw.store_metadata(META)
        hw.store_feature("deform", np.array([1., np.nan, np.nan, np.nan]))
        hw.store_feature("deform", np.array([3., 3, 3, 3]))
    with dclab.new_dataset(p) as ds:
        got, exp = ds["deform"].mean(), np.nanmean(ds["deform"][:])
    return not np.isclose(got, exp), f"mean() {got} vs nanmean {exp}"


def c14():
    n = 6
    o = mk("o14.rtdc", {"userdef1": np.arange(n, dtype=float)},
           meta={"experiment": {"sample": "s", "run index": 1}})
    out = []
    for bm in (None, np.arange(3, dtype=np.uint64)):
        k = n if bm is None else 3
        r = mk(f"r14_{bm is None}.rtdc", {"userdef0": np.zeros(k)},
               extra=lambda hw: hw.store_basin(
                   basin_name="b", basin_type="file", basin_format="hdf5",
                   basin_locs=[str(o)], basin_map=bm, verify=False))
        try:
            with dclab.new_dataset(r) as ds:
                out.append(f"{'same' if bm is None else 'mapped'}: "
                           f"{ds.features_basin}")
        except BaseException as e:
            out.append(f"mapped: {type(e).__name__}")
    return True, "; ".join(out)


ALL = {"2": ("C01", c01), "3": ("C03", c03), "4": ("C06", c06a),
       "5": ("C06", c06b), "22": ("C06", c06c), "6": ("C07", c07a),
       "23": ("C07", c07b), "7": ("C08", c08), "8": ("C09", c09a),
       "9": ("C09", c09b), "10": ("C11", c11), "11": ("C15", c15),
       "12": ("C16", c16a), "25": ("C16", c16b), "13": ("C17", c17a),
       "14": ("C17", c17b), "15": ("C18", c18a), "16": ("C18", c18b),
       "1": ("C20", c20), "20/21": ("C14", c14)}

if __name__ == "__main__":
    want = sys.argv[1:] or sorted(ALL, key=lambda s: int(s.split("/")[0]))
    for nr in want:
        prop, fn = ALL[nr]
        try:
            rep, detail = fn()
        except BaseException as e:  # a crash of the probe itself
            rep, detail = None, f"probe error {type(e).__name__}: {e}"
        state = {True: "REPRODUCED", False: "not reproduced",
                 None: "PROBE-ERROR"}[rep]
        print(f"{nr:>5} {prop} {state:15s} {detail}")
