"""In-process range-capable HTTP/1.1 server on 127.0.0.1 (shared by C14, C19).

Small interface (keep it that way; extend only backwards-compatibly):

    base = lib_httpd.start(root_dir_or_mapping)   # -> "http://127.0.0.1:<port>/"
    lib_httpd.server()                            # the RangeServer behind start()
    lib_httpd.request_count()                     # requests answered so far
    lib_httpd.stop()

    srv = lib_httpd.RangeServer(root_dir_or_mapping); srv.start(); ... srv.stop()
    srv.put(name, bytes_or_path, etag=True)       # add / replace a resource
    srv.remove(name); srv.url(name)
    srv.requests          # int, all requests
    srv.counts            # Counter: status code -> n   (200, 206, 404, 416)
    srv.history           # deque (maxlen 2000) of (method, name, range-header, status)

Resources: a *mapping* name -> bytes | path (a path is read at request time, so
the file may be rewritten between cases) and/or a *root directory* (names are
paths relative to it; no traversal outside).

Semantics (RFC 7233, single ranges): `bytes=a-b`, `bytes=a-`, `bytes=-n`;
206 + Content-Range for satisfiable ranges (last byte clamped to the end),
416 + `Content-Range: bytes */len` when the first byte is >= len (or the
suffix length is 0), and a *syntactically invalid* range (`last < first`, junk,
several ranges) is **ignored** as the RFC demands -> 200 with the full body.
Strong `ETag` (content hash), `Accept-Ranges: bytes`, `Content-Length` always.

Traps handled here (DESIGN §2, sandbox facts): TCP_NODELAY (otherwise every
request costs 40 ms through Nagle + delayed ACK), aborted streaming GETs (dclab
probes the header with `stream=True` and drops the connection) are swallowed
silently, keep-alive connections, daemon threads (nothing to join at exit).
"""
import collections
import hashlib
import http.server
import os
import pathlib
import re
import socket
import threading
import urllib.parse

_RANGE = re.compile(r"^\s*bytes\s*=\s*(\d*)\s*-\s*(\d*)\s*$")


def parse_range(header, length):
    """-> ("full", None) | ("partial", (first, last_inclusive)) | ("unsat", None)"""
    if header is None:
        return "full", None
    m = _RANGE.match(header)
    if m is None:
        return "full", None          # junk / multiple ranges: ignore the header
    a, b = m.group(1), m.group(2)
    if a == "" and b == "":
        return "full", None
    if a == "":                       # suffix range: last n bytes
        n = int(b)
        if n == 0 or length == 0:
            return "unsat", None
        n = min(n, length)
        return "partial", (length - n, length - 1)
    first = int(a)
    if b != "":
        last = int(b)
        if last < first:
            return "full", None       # invalid byte-range-spec: MUST be ignored
    else:
        last = length - 1
    if first >= length:
        return "unsat", None
    return "partial", (first, min(last, length - 1))


class _Handler(http.server.BaseHTTPRequestHandler):
    protocol_version = "HTTP/1.1"
    disable_nagle_algorithm = True
    server_version = "vf-httpd"

    def setup(self):
        super().setup()
        try:
            self.request.setsockopt(socket.IPPROTO_TCP, socket.TCP_NODELAY, 1)
        except OSError:
            pass

    def log_message(self, *a, **k):
        pass

    def _answer(self, head_only):
        owner = self.server.owner
        name = urllib.parse.unquote(urllib.parse.urlsplit(self.path).path).lstrip("/")
        rng = self.headers.get("Range")
        res = owner._lookup(name)
        fail = owner._take_fail(name)
        if fail:
            owner._count(self.command, name, rng, fail)
            self._send(fail, [("Content-Type", "text/plain")],
                       b"temporarily unavailable", head_only)
            return
        if res is None:
            body = b"not found"
            owner._count(self.command, name, rng, 404)
            self._send(404, [("Content-Type", "text/plain")], body, head_only)
            return
        data, etag = res
        length = len(data)
        kind, span = parse_range(rng, length)
        hdrs = [("Accept-Ranges", "bytes"),
                ("Content-Type", "application/octet-stream")]
        if etag:
            hdrs.append(("ETag", f'"{etag}"'))
        if kind == "partial":
            first, last = span
            hdrs.append(("Content-Range", f"bytes {first}-{last}/{length}"))
            owner._count(self.command, name, rng, 206)
            self._send(206, hdrs, data[first:last + 1], head_only)
        elif kind == "unsat":
            hdrs.append(("Content-Range", f"bytes */{length}"))
            owner._count(self.command, name, rng, 416)
            self._send(416, hdrs, b"", head_only)
        else:
            owner._count(self.command, name, rng, 200)
            self._send(200, hdrs, data, head_only)

    def _send(self, status, hdrs, body, head_only):
        try:
            self.send_response(status)
            for k, v in hdrs:
                self.send_header(k, v)
            self.send_header("Content-Length", str(len(body)))
            self.end_headers()
            if not head_only and body:
                self.wfile.write(body)
        except (BrokenPipeError, ConnectionResetError, ConnectionAbortedError,
                TimeoutError, OSError):
            self.close_connection = True

    def do_GET(self):
        self._answer(False)

    def do_HEAD(self):
        self._answer(True)


class _Server(http.server.ThreadingHTTPServer):
    daemon_threads = True
    block_on_close = False
    request_queue_size = 128
    allow_reuse_address = True

    def handle_error(self, request, client_address):
        pass  # aborted streaming GETs etc.


class RangeServer:
    def __init__(self, root=None):
        self._lock = threading.Lock()
        self._map = {}
        self._noetag = set()
        self._fail = {}
        self._root = None
        self._etags = {}
        self._httpd = None
        self._thread = None
        self.base_url = None
        self.requests = 0
        self.counts = collections.Counter()
        self.history = collections.deque(maxlen=2000)
        if root is not None:
            if isinstance(root, (str, os.PathLike)):
                self._root = pathlib.Path(root).resolve()
            else:
                for k, v in dict(root).items():
                    self.put(k, v)

    # ---- resources
    def put(self, name, data, etag=True):
        name = str(name).lstrip("/")
        with self._lock:
            self._map[name] = bytes(data) if isinstance(
                data, (bytes, bytearray, memoryview)) else pathlib.Path(data)
            (self._noetag.discard if etag else self._noetag.add)(name)
        return self.url(name)

    def fail_once(self, name, status=503):
        """answer the next request for `name` with an error status (transient fault)"""
        with self._lock:
            self._fail[str(name).lstrip("/")] = int(status)

    def _take_fail(self, name):
        with self._lock:
            return self._fail.pop(name, None)

    def remove(self, name):
        with self._lock:
            self._map.pop(str(name).lstrip("/"), None)
            self._noetag.discard(str(name).lstrip("/"))

    def url(self, name):
        return self.base_url + urllib.parse.quote(str(name).lstrip("/"))

    def _lookup(self, name):
        with self._lock:
            src = self._map.get(name)
            noetag = name in self._noetag
        if src is None and self._root is not None and name:
            p = (self._root / name).resolve()
            if p == self._root or self._root in p.parents:
                src = p
        if src is None:
            return None
        if isinstance(src, bytes):
            data = src
        else:
            try:
                data = pathlib.Path(src).read_bytes()
            except OSError:
                return None
        return data, (None if noetag else hashlib.sha1(data).hexdigest())

    def _count(self, method, name, rng, status):
        item = (method, name, rng, status)   # allocate outside the lock (GC!)
        with self._lock:
            self.requests += 1
            self.counts[status] += 1
            self.history.append(item)

    # ---- life cycle
    def start(self):
        if self._httpd is None:
            self._httpd = _Server(("127.0.0.1", 0), _Handler)
            self._httpd.owner = self
            port = self._httpd.server_address[1]
            self.base_url = f"http://127.0.0.1:{port}/"
            self._thread = threading.Thread(
                target=self._httpd.serve_forever, kwargs={"poll_interval": 0.05},
                daemon=True, name="vf-httpd")
            self._thread.start()
        return self.base_url

    def stop(self):
        if self._httpd is not None:
            self._httpd.shutdown()
            self._httpd.server_close()
            self._httpd = None
            self._thread = None


_default = None


def start(root_dir_or_mapping=None):
    """Start (once per process) the shared server; returns its base URL."""
    global _default
    if _default is None:
        _default = RangeServer(root_dir_or_mapping)
        _default.start()
    elif root_dir_or_mapping is not None:
        if isinstance(root_dir_or_mapping, (str, os.PathLike)):
            _default._root = pathlib.Path(root_dir_or_mapping).resolve()
        else:
            for k, v in dict(root_dir_or_mapping).items():
                _default.put(k, v)
    return _default.base_url


def server():
    if _default is None:
        start()
    return _default


def request_count():
    return 0 if _default is None else _default.requests


def stop():
    global _default
    if _default is not None:
        _default.stop()
        _default = None
