import sys
from . import boot  # noqa: F401  (must precede any dclab import)
from .runner import shard_main

if __name__ == "__main__":
    shard_main(sys.argv[1:])
