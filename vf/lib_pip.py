"""Exact even-odd point-in-polygon in rational arithmetic (reference oracle).

`classify(px, py, verts)` -> "in" | "out" | "boundary"
Floats are converted with `fractions.Fraction(float)` (exact), so the result is
the mathematically exact crossing parity of a ray from the point; points lying
on an edge or a vertex are reported as "boundary" (the property excludes them).
Any consistent half-open rule yields the same parity off the boundary, so the
oracle is independent of the implementation's tie breaking.
"""
from fractions import Fraction


def _F(v):
    return v if isinstance(v, (int, Fraction)) else Fraction(v)


def classify(px, py, verts):
    x, y = _F(px), _F(py)
    vs = [(_F(a), _F(b)) for a, b in verts]
    n = len(vs)
    inside = False
    for i in range(n):
        x1, y1 = vs[i]
        x2, y2 = vs[(i + 1) % n]
        # on-segment test (exact)
        cross = (x2 - x1) * (y - y1) - (y2 - y1) * (x - x1)
        if cross == 0 and min(x1, x2) <= x <= max(x1, x2) \
                and min(y1, y2) <= y <= max(y1, y2):
            return "boundary"
        # half-open crossing rule
        if (y1 > y) != (y2 > y):
            # x coordinate of the edge at height y
            xi = x1 + (x2 - x1) * (y - y1) / (y2 - y1)
            if x < xi:
                inside = not inside
    return "in" if inside else "out"


def classify_int(px, py, verts):
    """same for integer (or doubled-integer) coordinates, pure int arithmetic"""
    n = len(verts)
    inside = False
    for i in range(n):
        x1, y1 = verts[i]
        x2, y2 = verts[(i + 1) % n]
        cross = (x2 - x1) * (py - y1) - (y2 - y1) * (px - x1)
        if cross == 0 and min(x1, x2) <= px <= max(x1, x2) \
                and min(y1, y2) <= py <= max(y1, y2):
            return "boundary"
        if (y1 > py) != (y2 > py):
            # px < x1 + (x2-x1)*(py-y1)/(y2-y1)  <=>  sign-aware cross product
            d = y2 - y1
            lhs = (px - x1) * d
            rhs = (x2 - x1) * (py - y1)
            if (lhs < rhs) if d > 0 else (lhs > rhs):
                inside = not inside
    return "in" if inside else "out"
