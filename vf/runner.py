"""Generic runner: seeds, sharding, budgets, evidence, VIOLATION / KNOWN-FINDING
lines and replay (DESIGN.md §3).

A property module (vf/props/cNN.py) provides

    ID, RULE, BUDGET = {"quick": n, "thorough": n}
    strategy(tier)            -> hypothesis strategy of JSON-able specs (or None)
    enumerate_cases(tier)     -> optional iterable of specs (deterministic order)
    run_case(spec, rec)       -> interprets the spec against dclab and records
                                 failures / classes / non-triviality in `rec`
optional: LEVEL, ASSUMPTIONS, ESSENTIAL (class names that must be hit),
          setup_shard(), teardown_shard(), sample_view(spec), SHARDS, MAX_ROUNDS
"""
import collections
import hashlib
import importlib
import json
import os
import pathlib
import subprocess
import sys
import time
import traceback

VERIF = pathlib.Path(__file__).resolve().parent.parent
#: evidence/ and replays/ go here (redirected for runs against seeded changes)
OUT = pathlib.Path(os.environ.get("VERIF_OUT") or VERIF)
PY = sys.executable


class HarnessAbort(KeyboardInterrupt):
    """Harness-side error: never a violation (exit 2).  Derives from
    KeyboardInterrupt so that Hypothesis lets it propagate."""


class CaseFailure(Exception):
    def __init__(self, sig, msg, spec):
        super().__init__(f"{sig}: {msg}")
        self.sig = sig
        self.msg = msg
        self.spec = spec


def canon(spec):
    return json.dumps(spec, sort_keys=True, allow_nan=True, default=_default)


def _default(o):
    import numpy as np
    if isinstance(o, np.generic):
        return o.item()
    if isinstance(o, np.ndarray):
        return o.tolist()
    if isinstance(o, (set, frozenset)):
        return sorted(o)
    if isinstance(o, bytes):
        return {"__bytes__": o.hex()}
    raise TypeError(f"not JSON-able: {type(o)}")


def h12(s):
    return hashlib.sha1(s.encode()).hexdigest()[:12]


class Rec:
    """Per-case recorder handed to run_case."""

    def __init__(self, pid):
        self.pid = pid
        self.failures = []          # (sig, msg)
        self.classes = collections.Counter()
        self.skips = collections.Counter()
        self.is_nontrivial = False
        self.ntkey = None
        self.checks = 0

    def fail(self, sig, msg=""):
        full = sig if sig.startswith(self.pid + "/") else f"{self.pid}/{sig}"
        self.failures.append((full, str(msg)[:1500]))

    def check(self, cond, sig, msg=""):
        self.checks += 1
        if not cond:
            self.fail(sig, msg() if callable(msg) else msg)
        return bool(cond)

    def cls(self, name, n=1):
        self.classes[name] += n

    def skip(self, name, n=1):
        self.skips[name] += n

    def nontrivial(self, key=None):
        self.is_nontrivial = True
        if key is not None:
            self.ntkey = canon(key)


def load_prop(pid):
    return importlib.import_module(f"vf.props.{pid.lower()}")


def load_known(pid):
    """findings of `pid` from known_findings.json (+ known_findings.d/*.json,
    the per-property inbox that is merged into the main file when triaged)"""
    out = []
    files = [VERIF / "known_findings.json"]
    files += sorted((VERIF / "known_findings.d").glob("*.json"))
    for p in files:
        if p.exists():
            data = json.loads(p.read_text())
            out += [f for f in data.get("findings", []) if f["property"] == pid]
    return out


def classify_exception(exc, repo):
    """(is_dclab, where) – innermost frame inside the dclab package."""
    tb = traceback.extract_tb(exc.__traceback__)
    root = os.path.realpath(os.path.join(repo, "dclab")) + os.sep
    where = None
    for fr in tb:
        fn = os.path.realpath(fr.filename)
        if fn.startswith(root):
            where = f"{fn[len(root):]}:{fr.name}"
    return where is not None, where


def execute(prop, spec, known_sigs=()):
    """Run one case; unexpected exceptions from dclab become failures, from
    the harness a HarnessAbort."""
    from . import boot
    rec = Rec(prop.ID)
    try:
        prop.run_case(spec, rec)
    except HarnessAbort:
        raise
    except CaseFailure:
        raise
    except BaseException as e:  # noqa
        if isinstance(e, (KeyboardInterrupt, SystemExit, MemoryError)):
            raise
        isd, where = classify_exception(e, boot.REPO)
        if isd:
            rec.fail(f"exception/{type(e).__name__}/{where}",
                     "".join(traceback.format_exception(e))[-1500:])
        else:
            raise HarnessAbort(
                f"harness error in {prop.ID}: "
                + "".join(traceback.format_exception(e))[-3000:]) from e
    return rec


# --------------------------------------------------------------------------
# shard process
# --------------------------------------------------------------------------

def shard_main(argv):
    import argparse
    ap = argparse.ArgumentParser()
    ap.add_argument("--prop"), ap.add_argument("--tier")
    ap.add_argument("--seed", type=int), ap.add_argument("--shard", type=int)
    ap.add_argument("--nshards", type=int), ap.add_argument("--out")
    a = ap.parse_args(argv)
    out = {"shard": a.shard, "harness_error": None}
    try:
        out.update(_shard_run(a))
    except HarnessAbort as e:
        out["harness_error"] = str(e)
    except BaseException as e:  # noqa
        out["harness_error"] = "".join(traceback.format_exception(e))[-3000:]
    tmp = a.out + ".tmp"
    with open(tmp, "w") as fd:
        json.dump(out, fd, default=_default)
    os.replace(tmp, a.out)
    sys.stdout.flush()
    os._exit(0)  # no lingering threads (servers, basin availability threads)


def _shard_run(a):
    from . import boot
    import hypothesis
    from hypothesis import HealthCheck, Phase, given, settings
    prop = load_prop(a.prop)
    tier = a.tier
    known = {f["signature"] for f in load_known(prop.ID)}
    t0 = time.time()
    stats = {
        "evaluations": 0, "shrink_evaluations": 0, "nt_hashes": set(),
        "classes": collections.Counter(), "skips": collections.Counter(),
        "known_hits": collections.Counter(), "samples": [], "found": {},
        "checks": 0, "rounds": 0, "enumerated": 0,
    }
    if hasattr(prop, "setup_shard"):
        prop.setup_shard()
    max_shrink = {"quick": 120, "thorough": 1500}[tier]
    view = getattr(prop, "sample_view", lambda s: s)
    session_excluded = set()
    state = {"target": None, "shrinks": 0, "best": None, "besthash": None,
             "frozen": False}
    case_counter = [0]

    def one(spec, allow_raise=True):
        spec = json.loads(canon(spec))
        ch = None
        if state["frozen"]:
            # shrink budget used up: only the best failing spec keeps failing
            ch = h12(canon(spec))
            if ch == state["besthash"]:
                raise CaseFailure(*state["best"])
            return
        boot.reset_globals()
        rec = execute(prop, spec)
        case_counter[0] += 1
        if case_counter[0] % 50 == 0:
            boot.collect()
        if state["target"] is None:
            stats["evaluations"] += 1
            stats["checks"] += rec.checks
            stats["classes"].update(rec.classes)
            stats["skips"].update(rec.skips)
            if rec.is_nontrivial:
                stats["nt_hashes"].add(h12(rec.ntkey or canon(spec)))
                if len(stats["samples"]) < 3:
                    stats["samples"].append(view(spec))
        else:
            stats["shrink_evaluations"] += 1
        new = []
        for sig, msg in rec.failures:
            if sig in known:
                if state["target"] is None:
                    stats["known_hits"][sig] += 1
            elif sig in session_excluded:
                pass
            else:
                new.append((sig, msg))
        if not new or not allow_raise:
            return new
        if state["target"] is None:
            state["target"] = new[0][0]
        for sig, msg in new:
            if sig == state["target"]:
                state["shrinks"] += 1
                state["best"] = (sig, msg, spec)
                state["besthash"] = h12(canon(spec))
                if state["shrinks"] > max_shrink:
                    state["frozen"] = True
                raise CaseFailure(sig, msg, spec)
        return new

    def record_found(sig, msg, spec):
        cur = stats["found"].get(sig)
        if cur is None or len(canon(spec)) < len(canon(cur["spec"])):
            stats["found"][sig] = {"sig": sig, "msg": msg, "spec": spec}

    # ---- enumerated part (round robin over shards): the module's own enumerated
    # cases, then the committed replay files of the property (regression tier: shrunk
    # cases that once failed - on a defect repaired since or on a seeded change)
    enum = list(prop.enumerate_cases(tier)) if hasattr(prop, "enumerate_cases") else []
    for rp in sorted((VERIF / "replays" / prop.ID).glob("*.json")):
        try:
            enum.append(json.loads(rp.read_text())["spec"])
        except (ValueError, KeyError):
            continue
    if enum:
        for i, spec in enumerate(enum):
            if i % a.nshards != a.shard:
                continue
            stats["enumerated"] += 1
            new = one(spec, allow_raise=False)
            for sig, msg in new or []:
                record_found(sig, msg, json.loads(canon(spec)))
        # do not re-report these in the generated part
        session_excluded.update(stats["found"].keys())

    # ---- generated part
    strat = prop.strategy(tier) if hasattr(prop, "strategy") else None
    total = int(os.environ.get("VERIF_BUDGET") or prop.BUDGET[tier])
    per_shard = max(1, -(-total // a.nshards)) if strat is not None and total else 0
    max_rounds = getattr(prop, "MAX_ROUNDS", 6)
    remaining = per_shard
    rnd = 0
    while strat is not None and remaining > 0 and rnd < max_rounds:
        rnd += 1
        stats["rounds"] = rnd
        state.update(target=None, shrinks=0, best=None, besthash=None,
                     frozen=False)
        hseed = (a.seed * 1000003 + a.shard * 1009 + rnd * 17) % (2**31)
        before = stats["evaluations"]

        @hypothesis.seed(hseed)
        @settings(max_examples=remaining, database=None, deadline=None,
                  derandomize=False, report_multiple_bugs=False,
                  suppress_health_check=list(HealthCheck),
                  phases=[Phase.generate, Phase.shrink],
                  verbosity=hypothesis.Verbosity.quiet)
        @given(strat)
        def test(spec):
            one(spec)

        try:
            test()
        except CaseFailure as e:
            record_found(e.sig, e.msg, e.spec)
            session_excluded.add(e.sig)
        except hypothesis.errors.Flaky as e:
            if state["best"] is not None:
                sig, msg, spec = state["best"]
                record_found(sig, msg + " [flaky under shrinking]", spec)
                session_excluded.add(sig)
            else:
                raise HarnessAbort(f"flaky: {e}")
        used = stats["evaluations"] - before
        remaining -= max(used, 1)
    if hasattr(prop, "teardown_shard"):
        prop.teardown_shard()
    return {
        "evaluations": stats["evaluations"],
        "shrink_evaluations": stats["shrink_evaluations"],
        "nt_hashes": sorted(stats["nt_hashes"]),
        "classes": dict(stats["classes"]), "skips": dict(stats["skips"]),
        "known_hits": dict(stats["known_hits"]),
        "samples": stats["samples"], "found": list(stats["found"].values()),
        "checks": stats["checks"], "rounds": stats["rounds"],
        "enumerated": stats["enumerated"], "wall_s": time.time() - t0,
    }


# --------------------------------------------------------------------------
# main process
# --------------------------------------------------------------------------

def _truncate(obj, limit=1800):
    s = canon(obj)
    if len(s) <= limit:
        return obj
    return {"truncated_json": s[:limit] + "..."}


def write_evidence(prop, tier, seed, cov, wall, violations, assumptions):
    ev = {
        "property_id": prop.ID, "tier": tier, "seed": seed,
        "level": getattr(prop, "LEVEL", "exploration"),
        "coverage": cov, "assumptions": assumptions,
        "wall_s": round(wall, 2), "violations": violations,
    }
    d = OUT / "evidence"
    d.mkdir(parents=True, exist_ok=True)
    (d / f"{prop.ID}.json").write_text(
        json.dumps(ev, indent=1, allow_nan=False, default=_default) + "\n")


def _nan_safe(o):
    """evidence must be strict JSON: replace NaN/inf floats by strings."""
    if isinstance(o, float):
        if o != o or o in (float("inf"), float("-inf")):
            return repr(o)
        return o
    if isinstance(o, dict):
        return {str(k): _nan_safe(v) for k, v in o.items()}
    if isinstance(o, (list, tuple)):
        return [_nan_safe(v) for v in o]
    return o


def main(argv):
    import argparse
    ap = argparse.ArgumentParser(prog="check")
    ap.add_argument("prop")
    ap.add_argument("tier", nargs="?", default=os.environ.get("VERIF_TIER", "quick"))
    ap.add_argument("--replay")
    ap.add_argument("--shards", type=int)
    ap.add_argument("--budget", type=int)
    a = ap.parse_args(argv)
    pid = a.prop.upper()
    seed = int(os.environ.get("VERIF_SEED", "1") or 1)
    tier = a.tier if a.tier in ("quick", "thorough") else "quick"
    env = dict(os.environ, PYTHONHASHSEED="0", PYTHONPATH=str(VERIF),
               PYTHONWARNINGS="ignore", OMP_NUM_THREADS="1",
               OPENBLAS_NUM_THREADS="1", MKL_NUM_THREADS="1")
    if a.replay:
        return replay(pid, a.replay)

    # import the property in a child only (dclab stays out of this process)
    r = subprocess.run(
        [PY, "-c", "import json,vf.boot;from vf.runner import load_prop;"
         f"p=load_prop('{pid}');print('META'+json.dumps(dict(budget=p.BUDGET,"
         "shards=getattr(p,'SHARDS',{}),rule=p.RULE,level=getattr(p,'LEVEL','exploration'),"
         "assumptions=getattr(p,'ASSUMPTIONS',[]),essential=getattr(p,'ESSENTIAL',[]),"
         "timeout=getattr(p,'TIMEOUT',{}),exhaustive=getattr(p,'EXHAUSTIVE',{}),"
         "stale=vf.boot.stale_extensions())))"],
        env=env, cwd=str(VERIF), capture_output=True, text=True)
    lines = [ln for ln in r.stdout.splitlines() if ln.startswith("META")]
    if r.returncode != 0 or not lines:
        print("HARNESS-ERROR: cannot load property module:\n" + r.stderr[-3000:],
              file=sys.stderr)
        return 2
    meta = json.loads(lines[-1][4:])
    nshards = a.shards or meta["shards"].get(tier) or int(os.environ.get("VERIF_SHARDS", "16"))
    if a.budget:
        env["VERIF_BUDGET"] = str(a.budget)
    t0 = time.time()
    import tempfile
    import shutil
    work = pathlib.Path(tempfile.mkdtemp(prefix=f"vfrun_{pid}_"))
    env["VERIF_TMP"] = str(work)
    procs = []
    for s in range(nshards):
        out = work / f"shard{s}.json"
        log = open(work / f"shard{s}.log", "w")
        p = subprocess.Popen(
            [PY, "-m", "vf.shard", "--prop", pid, "--tier", tier, "--seed",
             str(seed), "--shard", str(s), "--nshards", str(nshards),
             "--out", str(out)], env=env, cwd=str(VERIF), stdout=log,
            stderr=subprocess.STDOUT)
        procs.append((p, out, log))
    timeout = meta["timeout"].get(tier) or {"quick": 2400, "thorough": 6 * 3600}[tier]
    results, errors = [], []
    for p, out, log in procs:
        left = max(1, timeout - (time.time() - t0))
        try:
            p.wait(timeout=left)
        except subprocess.TimeoutExpired:
            p.kill()
            errors.append(f"shard timed out after {timeout}s (inconclusive)")
            continue
        finally:
            log.close()
        if out.exists():
            r = json.loads(out.read_text())
            if r.get("harness_error"):
                errors.append(r["harness_error"])
            else:
                results.append(r)
        else:
            tail = pathlib.Path(log.name).read_text()[-2000:]
            errors.append(f"shard died (rc={p.returncode}): {tail}")
    shutil.rmtree(work, ignore_errors=True)
    wall = time.time() - t0

    class P:  # light stand-in for write_evidence
        ID = pid
        LEVEL = meta["level"]

    known = load_known(pid)
    known_sigs = {f["signature"] for f in known}
    ev = sum(r["evaluations"] for r in results)
    nt = set()
    classes, skips, khits = collections.Counter(), collections.Counter(), collections.Counter()
    samples, found = [], {}
    for r in results:
        nt.update(r["nt_hashes"])
        classes.update(r["classes"]), skips.update(r["skips"])
        khits.update(r["known_hits"])
        for s in r["samples"]:
            if len(samples) < 5:
                samples.append(_nan_safe(_truncate(s)))
        for f in r["found"]:
            cur = found.get(f["sig"])
            if cur is None or len(canon(f["spec"])) < len(canon(cur["spec"])):
                found[f["sig"]] = f
    violations = {s: f for s, f in found.items() if s not in known_sigs}
    cov = {
        "evaluations": ev, "distinct_nontrivial": len(nt), "rule": meta["rule"],
        "samples": samples, "classes": dict(sorted(classes.items())),
        "excluded_counted": dict(sorted(skips.items())),
        "oracle_checks": sum(r["checks"] for r in results),
        "shrink_evaluations": sum(r["shrink_evaluations"] for r in results),
        "enumerated": sum(r["enumerated"] for r in results),
        "shards": nshards, "known_finding_hits": dict(khits),
        "violation_signatures": sorted(violations),
        "exhaustive": bool(meta["exhaustive"].get(tier, False)),
    }
    assumptions = list(meta["assumptions"]) + list(meta["stale"])
    for f in known:
        print(f"KNOWN-FINDING: property={pid} {f['signature']}: {f['what']} "
              f"(hits this run: {khits.get(f['signature'], 0)})")
    rc = 0
    if violations:
        rc = 1
        rdir = OUT / "replays" / pid
        rdir.mkdir(parents=True, exist_ok=True)
        for sig, f in sorted(violations.items()):
            path = rdir / (h12(sig) + ".json")
            path.write_text(json.dumps(
                {"property": pid, "signature": sig, "message": f["msg"],
                 "spec": f["spec"], "seed": seed, "tier": tier},
                indent=1, default=_default) + "\n")
            print(f"VIOLATION property={pid} replay={path}")
            print(f"  signature: {sig}\n  " + f["msg"].replace("\n", "\n  ")[:1200])
    missing = [c for c in meta["essential"] if not classes.get(c)]
    if errors:
        for e in errors[:3]:
            print("HARNESS-ERROR:", e, file=sys.stderr)
        if rc == 0:
            rc = 2
    elif missing and rc == 0:
        print(f"HARNESS-ERROR: generator vacuous, classes never hit: {missing}",
              file=sys.stderr)
        rc = 2
    if ev > 0:
        write_evidence(P, tier, seed, cov, wall, len(violations), assumptions)
    print(f"{pid} {tier} seed={seed}: cases={ev} nontrivial_distinct={len(nt)} "
          f"checks={cov['oracle_checks']} violations={len(violations)} "
          f"known_hits={sum(khits.values())} wall={wall:.1f}s rc={rc}")
    return rc


def replay(pid, path):
    """Bypasses Hypothesis: interpreter + oracle on the stored spec."""
    code = (
        "import json,sys,vf.boot as boot\n"
        "from vf.runner import load_prop,execute,load_known\n"
        f"p=load_prop('{pid}');d=json.load(open(sys.argv[1]))\n"
        "boot.reset_globals();r=execute(p,d['spec'])\n"
        "k={f['signature'] for f in load_known(p.ID)}\n"
        "bad=[f for f in r.failures if f[0] not in k]\n"
        "for s,m in r.failures: print(('KNOWN ' if s in k else 'FAIL  ')+s+': '+m[:800])\n"
        "print('checks',r.checks,'failures',len(r.failures))\n"
        "sys.stdout.flush()\n"
        "import os;os._exit(1 if bad else 0)\n")
    env = dict(os.environ, PYTHONHASHSEED="0", PYTHONPATH=str(VERIF),
               PYTHONWARNINGS="ignore")
    r = subprocess.run([PY, "-c", code, path], env=env, cwd=str(VERIF))
    if r.returncode == 1:
        print(f"VIOLATION property={pid} replay={path}")
        return 1
    return 0 if r.returncode == 0 else 2
