"""C15 — polygon filters classify points by exact even-odd containment.

Three kinds of cases (``spec["k"]``):

``grid``  (enumerated, exhaustive)  every polygon with 3 and 4 vertices on the
    4x4 integer grid and every 5-gon on the 3x3 grid (thorough: also all 5-gons
    on 4x4 and 6-gons on 3x3) -- degenerate, self-intersecting, repeated and
    closing vertices included -- against every integer and half-integer point
    of the enclosing lattice.  Oracle: even-odd parity in exact int64
    arithmetic (cross-multiplication, no division), two independent rays.
``rand``  (Hypothesis)  3..12 float vertices ``m*10**e`` (e in -6..6), built
    from coordinate pools (many level / repeated coordinates), star shapes
    (convex / concave) or free coordinates, optionally scaled as a whole by
    1e-10..1e10 or moved 1e4..1e9 extents away from the origin (features in SI
    units, narrow gates on frame numbers / times); query points random, level with a
    vertex / horizontal edge, next to an edge (relative offsets 1e-15..1e-3).
    Oracle: the same parity in exact big-integer arithmetic on the doubles.
    Checked for the polygon, a cyclic shift, the reversal, a repeated closing
    vertex and a doubled vertex, through ``points_in_poly``,
    ``PolygonFilter.filter`` (plain / inverted / ``copy(invert=True)``) and
    ``PolygonFilter.point_in_poly``.
``poly``  (Hypothesis)  1..6 filters written to one .poly file (``save_all``,
    appending ``save(path)``, shared file object), ``clear_all_filters`` +
    ``import_all``: axes, inversion, name, identifier, points, classifications.

A replay calls ``run_case`` on the stored spec; every array is an explicit
list, derived query points are recipes expanded by a pure function.
"""
import locale
import math

import numpy as np
from hypothesis import strategies as st

from .. import boot

import dclab  # noqa: F401
from dclab import PolygonFilter
from dclab.external.skimage.measure import points_in_poly

ID = "C15"
RULE = ("exhaustive lattice part: batches of consecutively numbered grid polygons "
        "(every batch holds non-convex / self-intersecting polygons and points "
        "level with vertices); random part: a containment case is non-trivial "
        "when a *checked* (off-boundary, non-ambiguous) query point is level "
        "with a vertex or a horizontal edge or the polygon is not convex; a "
        ".poly case is non-trivial when >=2 filters share the file or a filter "
        "is inverted / has non-decimal coordinates; distinct = sha1 of the "
        "canonical JSON spec")
BUDGET = {"quick": 4000, "thorough": 80000}
EXHAUSTIVE = {"quick": True, "thorough": True}
ESSENTIAL = ["grid:polygons", "grid:pt-hedge-level", "grid:pt-vertex-level",
             "rand:convex", "rand:concave", "rand:self-intersecting",
             "rand:repeated-vertex", "rand:pt-vertex-level",
             "rand:pt-hedge-level", "rand:pt-near-edge",
             "rand:xf-tiny", "rand:xf-huge", "rand:xf-offset",
             "poly:multi", "poly:inverted", "poly:coords-decimal",
             "poly:coords-double", "poly:name-with-equals",
             "poly:how-save_all", "poly:how-append", "poly:how-fobj",
             "poly:requested-id-taken"]
ASSUMPTIONS = [
    "compiled extension _pnpoly/geometry is tested as shipped (.so); it cannot "
    "be rebuilt from .pyx here (no Cython)",
    "random part: a query point whose horizontal distance to a straddling edge "
    "is <= 1e-12 * max(|x_i|,|x_j|,|x|) is numerically ambiguous for the double "
    "precision edge test (error bound ~1e-15 relative) and is skipped (counted)",
    "coordinates are finite doubles that are 0 or have magnitude 1e-30..1e30 "
    "(no under/overflow in the edge formula); NaN/inf query points are not points",
    ".poly names: printable text without line breaks, without surrounding "
    "blanks (the format strips them); axes: lower-case feature names",
    "16 significant digits ('{:.15e}') reproduce a double to <= 6.1e-16 "
    "relative (0.5e-15 from the decimal rounding + 2^-53 from parsing) and "
    "reproduce exactly every double that is the nearest double of a decimal "
    "with <= 15 significant digits",
]

# ---------------------------------------------------------------------------
# tolerances
# ---------------------------------------------------------------------------
#: relative horizontal margin below which a float query point is "ambiguous"
AMBIG_NUM, AMBIG_DEN = 1, 10 ** 12
#: relative agreement of re-loaded non-decimal coordinates (bound: 6.1e-16)
POINT_RTOL = 1e-15
#: scaled distance to the boundary below which a classification is not
#: compared across a (<=1e-15 relative) perturbation of the vertices
PERTURB_MARGIN = 1e-9
MAG_LO, MAG_HI = 1e-30, 1e30

AXES_POOL = ["area_um", "deform", "aspect", "tilt", "bright_avg", "fl1_max",
             "area_ratio", "userdef1", "volume", "time"]

# ---------------------------------------------------------------------------
# exhaustive lattice part
# ---------------------------------------------------------------------------
GRID_BATCH = 1024


def _grid_parts(tier):
    parts = [(4, 3), (4, 4), (3, 5)]
    if tier == "thorough":
        parts += [(4, 5), (3, 6)]
    return parts


def enumerate_cases(tier):
    for g, nv in _grid_parts(tier):
        total = (g * g) ** nv
        for lo in range(0, total, GRID_BATCH):
            yield {"k": "grid", "g": g, "nv": nv, "lo": lo,
                   "hi": min(total, lo + GRID_BATCH)}


def _grid_vertices(g, nv, lo, hi):
    G = g * g
    idx = np.arange(lo, hi, dtype=np.int64)
    digits = (idx[:, None] // (G ** np.arange(nv, dtype=np.int64))[None, :]) % G
    return digits % g, digits // g          # (B, nv) integer coordinates


def _grid_oracle(vx, vy, g):
    """exact parity for all polygons of a batch x all lattice points.
    Coordinates are doubled so that half-integers are integers."""
    q = np.arange(-1, 2 * g, dtype=np.int64)
    qx, qy = [a.ravel() for a in np.meshgrid(q, q, indexing="ij")]
    AX = (2 * vx)[:, :, None]
    AY = (2 * vy)[:, :, None]
    BX = np.roll(2 * vx, -1, axis=1)[:, :, None]
    BY = np.roll(2 * vy, -1, axis=1)[:, :, None]
    PX = qx[None, None, :]
    PY = qy[None, None, :]
    DX = BX - AX
    DY = BY - AY
    cross = DX * (PY - AY) - DY * (PX - AX)
    onb = ((cross == 0)
           & (np.minimum(AX, BX) <= PX) & (PX <= np.maximum(AX, BX))
           & (np.minimum(AY, BY) <= PY) & (PY <= np.maximum(AY, BY))).any(axis=1)
    # ray towards +x, edge counted when exactly one end point is above the ray
    strad = (AY > PY) != (BY > PY)
    num = (AX - PX) * DY + DX * (PY - AY)        # (xint - px) * DY
    par1 = (strad & (num * DY > 0)).sum(axis=1) % 2
    # independent ray towards +y
    strad2 = (AX > PX) != (BX > PX)
    num2 = (AY - PY) * DX + DY * (PX - AX)
    par2 = (strad2 & (num2 * DX > 0)).sum(axis=1) % 2
    if not np.all((par1 == par2) | onb):
        raise RuntimeError("C15 harness: the two exact rays disagree")
    lvl_vertex = (AY == PY).any(axis=1)
    lvl_hedge = ((AY == PY) & (BY == PY) & (AX != BX)).any(axis=1)
    return qx / 2.0, qy / 2.0, par1.astype(bool), onb, lvl_vertex, lvl_hedge


def _ptclass(hedge, vertex, near=False):
    if hedge:
        return "hedge-level"
    if vertex:
        return "vertex-level"
    if near:
        return "near-edge"
    return "plain"


def _run_grid(spec, rec):
    g, nv, lo, hi = spec["g"], spec["nv"], spec["lo"], spec["hi"]
    vx, vy = _grid_vertices(g, nv, lo, hi)
    px, py, exp, onb, lvlv, lvlh = _grid_oracle(vx, vy, g)
    pts = np.stack([px, py], axis=1)
    use = ~onb
    B = vx.shape[0]
    rec.cls("grid:polygons", B)
    rec.cls("grid:points-checked", int(use.sum()))
    rec.cls("grid:pt-vertex-level", int((use & lvlv & ~lvlh).sum()))
    rec.cls("grid:pt-hedge-level", int((use & lvlh).sum()))
    rec.skip("grid:point-on-boundary", int(onb.sum()))
    rec.nontrivial()
    tag = f"grid{g}x{g}-{nv}gon"

    def report(b, got, api):
        bad = np.flatnonzero((got != exp[b]) & use[b])
        seen = set()
        for k in bad:
            pc = _ptclass(lvlh[b, k], lvlv[b, k])
            if pc in seen:
                continue
            seen.add(pc)
            verts = list(zip(vx[b].tolist(), vy[b].tolist()))
            rec.fail(f"contain/{api}/grid/{pc}",
                     f"{tag} polygon {verts}, point ({px[k]}, {py[k]}): dclab says "
                     f"{bool(got[k])}, exact even-odd parity says {bool(exp[b, k])}")

    for b in range(B):
        verts = np.stack([vx[b], vy[b]], axis=1).astype(np.float64)
        got = points_in_poly(points=pts, verts=verts)
        rec.checks += 1
        if not np.array_equal(got[use[b]], exp[b][use[b]]):
            report(b, got, "points_in_poly")
        gi = lo + b
        if gi % 7 == 0:
            inv = bool(gi % 2)
            pf = PolygonFilter(axes=("area_um", "deform"), points=verts,
                               inverted=inv)
            f = pf.filter(px, py)
            rec.checks += 1
            if not np.array_equal((f ^ inv)[use[b]], exp[b][use[b]]):
                report(b, f ^ inv, "filter-inverted" if inv else "filter")
        if gi % 61 == 0:
            single = np.array([PolygonFilter.point_in_poly((px[k], py[k]), verts)
                               for k in range(len(px))], dtype=bool)
            rec.checks += 1
            if not np.array_equal(single[use[b]], exp[b][use[b]]):
                report(b, single, "point_in_poly")
    PolygonFilter.clear_all_filters()


# ---------------------------------------------------------------------------
# exact arithmetic on doubles
# ---------------------------------------------------------------------------

def _to_ints(vals):
    """scale doubles by a common power of two -> python ints (exact)"""
    ratios = [float(v).as_integer_ratio() for v in vals]
    D = max(d for _, d in ratios)
    return [n * (D // d) for n, d in ratios]


def _in_domain(vals):
    for v in vals:
        v = float(v)
        if not math.isfinite(v):
            return False
        if v != 0 and not (MAG_LO <= abs(v) <= MAG_HI):
            return False
    return True


class ExactPoly:
    """polygon with double vertices in exact integer coordinates"""

    def __init__(self, verts, pts):
        n = len(verts)
        xs = _to_ints([v[0] for v in verts] + [p[0] for p in pts])
        ys = _to_ints([v[1] for v in verts] + [p[1] for p in pts])
        self.n = n
        self.vx, self.px = xs[:n], xs[n:]
        self.vy, self.py = ys[:n], ys[n:]

    def edges(self):
        n = self.n
        for i in range(n):
            j = (i + 1) % n
            yield self.vx[i], self.vy[i], self.vx[j], self.vy[j]

    def classify_point(self, k):
        """-> (state, hedge_level, vertex_level); state in
        'in' 'out' 'boundary' 'ambiguous'"""
        px, py = self.px[k], self.py[k]
        c1 = c2 = 0
        onb = amb = False
        hedge = vertex = False
        for ax, ay, bx, by in self.edges():
            dx, dy = bx - ax, by - ay
            if ay == py or by == py:
                vertex = True
                if ay == by and ax != bx:
                    hedge = True
            cross = dx * (py - ay) - dy * (px - ax)
            if (cross == 0 and min(ax, bx) <= px <= max(ax, bx)
                    and min(ay, by) <= py <= max(ay, by)):
                onb = True
            if (ay > py) != (by > py):
                num = (ax - px) * dy + dx * (py - ay)     # (xint - px) * dy
                if num * dy > 0:
                    c1 += 1
                m = max(abs(ax), abs(bx), abs(px))
                if abs(num) * AMBIG_DEN <= abs(dy) * m * AMBIG_NUM:
                    amb = True
            if (ax > px) != (bx > px):
                num2 = (ay - py) * dx + dy * (px - ax)
                if num2 * dx > 0:
                    c2 += 1
        if onb:
            return "boundary", hedge, vertex
        if (c1 - c2) % 2:
            raise RuntimeError("C15 harness: the two exact rays disagree")
        if amb:
            return "ambiguous", hedge, vertex
        return ("in" if c1 % 2 else "out"), hedge, vertex

    def shape_class(self):
        """'degenerate' | 'convex' | 'concave' | 'self-intersecting',
        has_repeated_vertex"""
        n = self.n
        P = list(zip(self.vx, self.vy))
        repeated = len(set(P)) < n
        area2 = sum(P[i][0] * P[(i + 1) % n][1] - P[(i + 1) % n][0] * P[i][1]
                    for i in range(n))
        if len(set(P)) < 3 or area2 == 0:
            return "degenerate", repeated
        if repeated or not _is_simple(P):
            return "self-intersecting", repeated
        sg = set()
        for i in range(n):
            a, b, c = P[i], P[(i + 1) % n], P[(i + 2) % n]
            t = _orient(a, b, c)
            if t:
                sg.add(t > 0)
        return ("convex" if len(sg) == 1 else "concave"), repeated


def _orient(a, b, c):
    v = (b[0] - a[0]) * (c[1] - a[1]) - (b[1] - a[1]) * (c[0] - a[0])
    return (v > 0) - (v < 0)


def _on_seg(a, b, c):
    return (min(a[0], b[0]) <= c[0] <= max(a[0], b[0])
            and min(a[1], b[1]) <= c[1] <= max(a[1], b[1]))


def _seg_touch(a, b, c, d):
    """closed segments ab and cd share a point"""
    o1, o2 = _orient(a, b, c), _orient(a, b, d)
    o3, o4 = _orient(c, d, a), _orient(c, d, b)
    if o1 != o2 and o3 != o4:
        return True
    return ((o1 == 0 and _on_seg(a, b, c)) or (o2 == 0 and _on_seg(a, b, d))
            or (o3 == 0 and _on_seg(c, d, a)) or (o4 == 0 and _on_seg(c, d, b)))


def _is_simple(P):
    """distinct vertices given: no contact between non-adjacent edges and
    adjacent edges meet only in their common vertex"""
    n = len(P)
    for i in range(n):
        a, b = P[i], P[(i + 1) % n]
        for j in range(i + 1, n):
            c, d = P[j], P[(j + 1) % n]
            if j == i + 1 or (i == 0 and j == n - 1):
                # adjacent: overlap iff collinear and pointing back
                if j == i + 1:
                    p, q, r = a, b, d          # shared vertex b == c
                else:
                    p, q, r = c, a, b          # shared vertex d == a
                if n > 2 and _orient(p, q, r) == 0:
                    # q is the shared vertex: p and r must be on opposite sides
                    dot = ((p[0] - q[0]) * (r[0] - q[0])
                           + (p[1] - q[1]) * (r[1] - q[1]))
                    if dot > 0:
                        return False
                continue
            if _seg_touch(a, b, c, d):
                return False
    return True


# ---------------------------------------------------------------------------
# random containment part
# ---------------------------------------------------------------------------

def _expand_points(verts, recipes):
    """pure expansion of the point recipes -> list of (x, y, is_near)"""
    n = len(verts)
    xs = [v[0] for v in verts]
    ys = [v[1] for v in verts]
    x0, x1, y0, y1 = min(xs), max(xs), min(ys), max(ys)
    w = (x1 - x0) or abs(x0) or 1.0
    h = (y1 - y0) or abs(y0) or 1.0
    out = []
    for r in recipes:
        t = r[0]
        near = False
        if t == "abs":
            x, y = float(r[1]), float(r[2])
        elif t == "box":
            x = x0 - 0.25 * w + float(r[1]) * 1.5 * w
            y = y0 - 0.25 * h + float(r[2]) * 1.5 * h
        elif t == "lvl":                      # level with vertex i
            y = ys[int(r[1]) % n]
            x = x0 - 0.25 * w + float(r[2]) * 1.5 * w
        elif t == "vx":                       # x of vertex i, y of vertex j
            x = xs[int(r[1]) % n]
            y = ys[int(r[2]) % n]
        elif t == "mid":
            i, j = int(r[1]) % n, int(r[2]) % n
            x = 0.5 * (xs[i] + xs[j])
            y = 0.5 * (ys[i] + ys[j])
        elif t == "near":                     # next to edge i
            i = int(r[1]) % n
            j = (i + 1) % n
            lam = float(r[2])
            x = xs[i] + lam * (xs[j] - xs[i])
            y = ys[i] + lam * (ys[j] - ys[i])
            sc = max(abs(xs[i]), abs(xs[j]), abs(x)) or w
            x = x + float(r[3]) * sc
            near = True
        else:
            raise ValueError(f"unknown point recipe {r!r}")
        out.append((float(x), float(y), near))
    return out


def _variants(verts, shift, dup):
    n = len(verts)
    s = shift % n or 1
    d = dup % n
    return [
        ("base", verts),
        ("shifted", verts[s:] + verts[:s]),
        ("reversed", verts[::-1]),
        ("closed", verts + [verts[0]]),
        ("doubled-vertex", verts[:d + 1] + [verts[d]] + verts[d + 1:]),
    ]


def _run_rand(spec, rec):
    verts = [[float(a), float(b)] for a, b in spec["verts"]]
    pts = _expand_points(verts, spec["pts"])
    flat = [c for v in verts for c in v] + [c for p in pts for c in p[:2]]
    if len(verts) < 3 or not pts or not _in_domain(flat):
        rec.skip("rand:out-of-domain")
        return
    ex = ExactPoly(verts, pts)
    shape, repeated = ex.shape_class()
    rec.cls(f"rand:{shape}")
    if repeated:
        rec.cls("rand:repeated-vertex")
    mode = str(spec.get("mode", "?"))
    rec.cls(f"rand:mode-{mode.split('+')[0]}")
    if "+" in mode:
        rec.cls(f"rand:xf-{mode.split('+')[1]}")
    states, pcs = [], []
    for k in range(len(pts)):
        stt, hedge, vertex = ex.classify_point(k)
        states.append(stt)
        pcs.append(_ptclass(hedge, vertex, pts[k][2]))
    use = np.array([s in ("in", "out") for s in states], dtype=bool)
    exp = np.array([s == "in" for s in states], dtype=bool)
    for s in states:
        if s == "boundary":
            rec.skip("rand:point-on-boundary")
        elif s == "ambiguous":
            rec.skip("rand:point-numerically-ambiguous")
    special = False
    for k in np.flatnonzero(use):
        rec.cls(f"rand:pt-{pcs[k]}")
        if pcs[k] in ("hedge-level", "vertex-level"):
            special = True
    rec.cls("rand:points-checked", int(use.sum()))
    if use.any() and (special or shape in ("concave", "self-intersecting")):
        rec.nontrivial()
    P = np.array([[p[0], p[1]] for p in pts], dtype=np.float64)

    def compare(got, api, variant):
        got = np.asarray(got, dtype=bool)
        ok = got.shape == exp.shape and np.array_equal(got[use], exp[use])
        rec.checks += 1
        if ok:
            return
        if got.shape != exp.shape:
            rec.fail(f"contain/{api}/{variant}/shape",
                     f"result shape {got.shape} for {exp.shape[0]} points")
            return
        seen = set()
        for k in np.flatnonzero((got != exp) & use):
            if pcs[k] in seen:
                continue
            seen.add(pcs[k])
            rec.fail(f"contain/{api}/{variant}/{shape}/{pcs[k]}",
                     f"polygon {verts} ({variant}), point {pts[k][:2]}: dclab "
                     f"says {bool(got[k])}, exact even-odd parity says {bool(exp[k])}")

    base_raw = None
    for variant, vv in _variants(verts, spec.get("shift", 1), spec.get("dup", 0)):
        V = np.array(vv, dtype=np.float64)
        got = points_in_poly(points=P, verts=V)
        compare(got, "points_in_poly", variant)
        if variant == "base":
            base_raw = np.asarray(got, dtype=bool)
    V = np.array(verts, dtype=np.float64)
    axes = ("area_um", "deform")
    pf = PolygonFilter(axes=axes, points=V, inverted=False)
    pfi = PolygonFilter(axes=axes, points=V, inverted=True)
    f = pf.filter(P[:, 0], P[:, 1])
    fi = pfi.filter(P[:, 0], P[:, 1])
    fc = pf.copy(invert=True).filter(P[:, 0], P[:, 1])
    compare(f, "filter", "base")
    compare(~np.asarray(fi, dtype=bool), "filter-inverted", "base")
    # same routine, same input: identical on *every* point (also boundary)
    rec.check(np.array_equal(f, base_raw), "api/filter-vs-points_in_poly",
              lambda: f"filter() {f.tolist()} != points_in_poly {base_raw.tolist()}")
    rec.check(np.array_equal(fi, ~base_raw), "invert/complement",
              lambda: f"inverted filter {np.asarray(fi).tolist()} is not the "
                      f"complement of {base_raw.tolist()} for polygon {verts}")
    rec.check(np.array_equal(fc, ~base_raw), "invert/copy-inverted",
              lambda: f"copy(invert=True) gives {np.asarray(fc).tolist()}, "
                      f"complement is {(~base_raw).tolist()}")
    fcc = pfi.copy(invert=True).filter(P[:, 0], P[:, 1])
    rec.check(np.array_equal(fcc, base_raw), "invert/copy-inverted-of-inverted",
              lambda: f"copy(invert=True) of an inverted filter gives "
                      f"{np.asarray(fcc).tolist()}, expected {base_raw.tolist()}")
    fcp = pfi.copy().filter(P[:, 0], P[:, 1])
    rec.check(np.array_equal(fcp, ~base_raw), "invert/copy-plain-of-inverted",
              lambda: f"copy() of an inverted filter gives "
                      f"{np.asarray(fcp).tolist()}, expected {(~base_raw).tolist()}")
    # the classification of a point does not depend on the other points of the call:
    # every point alone, and a far-away point alone (nothing near the polygon)
    for tag, flt, whole in (("plain", pf, np.asarray(f, dtype=bool)),
                            ("inverted", pfi, np.asarray(fi, dtype=bool))):
        alone = np.array([bool(np.asarray(flt.filter(P[k:k + 1, 0], P[k:k + 1, 1]))[0])
                          for k in range(len(P))], dtype=bool)
        rec.check(np.array_equal(alone, whole), f"api/filter-pointwise/{tag}",
                  lambda: f"{tag} filter: points evaluated one by one give "
                          f"{alone.tolist()}, evaluated together {whole.tolist()}; "
                          f"polygon {verts}")
        span = float(np.abs(V).max()) + 1.0
        far = np.array([[1e3 * span, 1e3 * span], [-1e3 * span, 7.0 * span]])
        gfar = np.asarray(flt.filter(far[:, 0], far[:, 1]), dtype=bool)
        rec.check(np.array_equal(gfar, np.array([tag == "inverted"] * 2)),
                  f"api/filter-far-points/{tag}",
                  lambda: f"{tag} filter classifies far-away points {far.tolist()} as "
                          f"{gfar.tolist()}")
    # coordinate arrays of different dtypes (integer features such as `index` or
    # `frame` on one axis, float32 data): the conversions to double are exact, so the
    # classification must be that of the same double values on *every* point
    for tag, cx, cy in (("int-x", np.round(P[:, 0]).astype(np.int64), P[:, 1]),
                        ("int-y", P[:, 0], np.round(P[:, 1]).astype(np.int32)),
                        ("f32-x", P[:, 0].astype(np.float32), P[:, 1]),
                        ("f32-y", P[:, 0], P[:, 1].astype(np.float32))):
        Pm = np.stack([cx.astype(np.float64), cy.astype(np.float64)], axis=1)
        want = np.asarray(points_in_poly(points=Pm, verts=V), dtype=bool)
        gm = np.asarray(pf.filter(cx, cy), dtype=bool)
        rec.check(np.array_equal(gm, want), f"api/filter-mixed-dtype/{tag}",
                  lambda: f"filter(x {cx.dtype}, y {cy.dtype}) gives {gm.tolist()}, the "
                          f"same values as float64 give {want.tolist()}; polygon "
                          f"{verts}, x={cx.tolist()}, y={cy.tolist()}")
        if not np.array_equal(want, base_raw):
            rec.cls(f"rand:mixed-dtype-changes-class/{tag}")
    single = np.array([PolygonFilter.point_in_poly((p[0], p[1]), V) for p in pts],
                      dtype=bool)
    compare(single, "point_in_poly", "base")
    rec.check(np.array_equal(single, base_raw), "api/point_in_poly-vs-points_in_poly",
              lambda: f"point_in_poly {single.tolist()} != points_in_poly "
                      f"{base_raw.tolist()} for polygon {verts}")
    # list input (documented "array_like") for the single-point API
    k0 = spec.get("shift", 0) % len(pts)
    s2 = PolygonFilter.point_in_poly([pts[k0][0], pts[k0][1]], [list(v) for v in verts])
    rec.check(bool(s2) == bool(base_raw[k0]), "api/point_in_poly-list-input",
              "list input classifies differently from array input")


# ---------------------------------------------------------------------------
# .poly persistence part
# ---------------------------------------------------------------------------

def _is_decimal15(x):
    """x is the nearest double of a decimal with <= 15 significant digits"""
    if x != 0 and abs(math.frexp(x)[0]) == 0.5 and not (1e-7 <= abs(x) <= 1e7):
        # exact power of two outside the range where every power of two is
        # itself a <=15-digit decimal: the asymmetric rounding interval could
        # (in principle) break the 16-digit round trip -> tolerance class
        return False
    return float(f"{x:.14e}") == x


def _seg_dist_scaled(px, py, V, sx, sy):
    """min Euclidean distance of (px,py) to the closed polygon outline in
    coordinates scaled by (sx, sy)"""
    u, v = px / sx, py / sy
    best = math.inf
    n = len(V)
    for i in range(n):
        ax, ay = V[i][0] / sx, V[i][1] / sy
        bx, by = V[(i + 1) % n][0] / sx, V[(i + 1) % n][1] / sy
        dx, dy = bx - ax, by - ay
        L = dx * dx + dy * dy
        t = 0.0 if L == 0 else min(1.0, max(0.0, ((u - ax) * dx + (v - ay) * dy) / L))
        best = min(best, math.hypot(u - (ax + t * dx), v - (ay + t * dy)))
    return best


def _utf8_locale():
    return locale.getpreferredencoding(False).lower().replace("-", "") == "utf8"


def _run_poly(spec, rec):
    d = boot.casedir()
    try:
        names = [f.get("name") for f in spec["filters"]]
        has_eq = any(nm is not None and "=" in nm for nm in names)
        if has_eq:
            rec.cls("poly:name-with-equals")
        ok = _persist(spec, rec, d / "a.poly", sanitize=False, expect_eq_fail=has_eq)
        if has_eq and not ok:
            # confirmed finding excluded by construction: same case, '=' replaced
            PolygonFilter.clear_all_filters()
            _persist(spec, rec, d / "b.poly", sanitize=True, expect_eq_fail=False)
    finally:
        boot.rmcase(d)


def _persist(spec, rec, path, sanitize, expect_eq_fail):
    fspecs = spec["filters"]
    how = spec.get("how", "save_all")
    made = []
    for fs in fspecs:
        verts = [[float(a), float(b)] for a, b in fs["verts"]]
        if len(verts) < 1 or not _in_domain([c for v in verts for c in v]):
            rec.skip("poly:out-of-domain")
            return True
        name = fs.get("name")
        if name is not None:
            if name != name.strip() or any(ch in name for ch in "\n\r"):
                rec.skip("poly:name-not-representable")
                return True
            if not name.isascii() and not _utf8_locale():
                rec.skip("poly:non-ascii-name-in-non-utf8-locale")
                return True
            if sanitize:
                name = name.replace("=", "-").strip()
        pf = PolygonFilter(axes=tuple(fs["axes"]), points=verts,
                           inverted=bool(fs["inv"]), name=name,
                           unique_id=fs.get("uid"))
        taken = [m[0].unique_id for m in made]
        want = fs.get("uid")
        if want is not None and want not in taken:
            rec.check(pf.unique_id == want, "registry/explicit-id-honoured",
                      lambda: f"unique_id={want} requested and free (live ids "
                              f"{taken}), got {pf.unique_id}")
        if want is not None and want in taken:
            rec.cls("poly:requested-id-taken")
        rec.check(pf.unique_id not in taken,
                  "registry/unique-ids/" + ("auto" if want is None else
                                            "requested-id-taken" if want in taken
                                            else "requested-id-free"),
                  lambda: f"new filter (unique_id={want!r} requested) got id "
                          f"{pf.unique_id}, live ids already {taken}")
        made.append((pf, verts, fs))
    for pf, _, _ in made:
        rec.check(PolygonFilter.get_instance_from_id(pf.unique_id) is pf
                  and PolygonFilter.unique_id_exists(pf.unique_id),
                  "registry/lookup-by-id",
                  lambda: f"get_instance_from_id({pf.unique_id}) is another filter")
    keep = spec.get("keep") or [True]
    if how == "save_all":
        saved = list(made)
        PolygonFilter.save_all(path)
    else:
        saved = [m for i, m in enumerate(made) if keep[i % len(keep)]] or made[:1]
        if how == "append":
            for pf, _, _ in saved:
                pf.save(path)
        elif how == "fobj":
            fd = open(path, "w")
            for pf, _, _ in saved:
                ret = pf.save(fd, ret_fobj=True)
                rec.check(ret is fd, "poly-file/save-ret-fobj",
                          "save(fobj, ret_fobj=True) did not return the file object")
            fd.close()
        else:
            raise ValueError(how)
    if not sanitize:
        rec.cls(f"poly:how-{how}")
        rec.cls("poly:multi" if len(saved) > 1 else "poly:single")
    # expected state, taken from the live objects before they are dropped
    qpts_spec = spec.get("pts") or [["box", 0.5, 0.5]]
    orig = []
    for pf, verts, fs in saved:
        q = _expand_points(verts, qpts_spec)
        Q = np.array([[p[0], p[1]] for p in q], dtype=np.float64)
        ok_dom = _in_domain(Q.ravel().tolist())
        orig.append(dict(
            axes=list(pf.axes), inverted=pf.inverted, name=pf.name,
            uid=pf.unique_id, points=np.array(pf.points, dtype=np.float64),
            Q=Q if ok_dom else None,
            cls=pf.filter(Q[:, 0], Q[:, 1]).copy() if ok_dom else None))
    PolygonFilter.clear_all_filters()
    try:
        loaded = PolygonFilter.import_all(path)
    except ValueError as e:
        if expect_eq_fail and "unpack" in str(e):
            rec.fail("poly-file/name-with-equals",
                     f"a .poly file written by save() cannot be imported when a "
                     f"filter name contains '=': {type(e).__name__}: {e}; names "
                     f"{[o['name'] for o in orig]}")
            return False
        raise
    rec.check(len(loaded) == len(orig), "poly-file/count",
              lambda: f"{len(orig)} filters saved ({how}), {len(loaded)} imported")
    nontriv = len(saved) > 1
    for pos, (o, lf) in enumerate(zip(orig, loaded)):
        where = "single" if len(orig) == 1 else (
            "last-of-many" if pos == len(orig) - 1 else "not-last-of-many")
        rec.check(list(lf.axes) == o["axes"], f"poly-file/axes/{where}",
                  lambda: f"axes {o['axes']} came back as {list(lf.axes)}")
        rec.check(lf.inverted is o["inverted"] or lf.inverted == o["inverted"],
                  f"poly-file/inverted/{where}/{'inverted' if o['inverted'] else 'plain'}",
                  lambda: f"inverted={o['inverted']} came back as {lf.inverted!r}")
        rec.check(lf.name == o["name"], f"poly-file/name/{where}",
                  lambda: f"name {o['name']!r} came back as {lf.name!r}")
        rec.check(lf.unique_id == o["uid"], f"poly-file/identifier/{where}",
                  lambda: f"identifier {o['uid']} came back as {lf.unique_id} "
                          f"(all saved ids {[x['uid'] for x in orig]})")
        if o["inverted"]:
            rec.cls("poly:inverted")
            nontriv = True
        lp = np.array(lf.points, dtype=np.float64)
        op = o["points"]
        if not rec.check(lp.shape == op.shape, f"poly-file/points-shape/{where}",
                         lambda: f"{op.shape[0]} points saved, shape {lp.shape} "
                                 f"loaded"):
            continue
        dec = np.array([_is_decimal15(float(c)) for c in op.ravel()]).reshape(op.shape)
        all_dec = bool(dec.all())
        rec.cls("poly:coords-decimal" if all_dec else "poly:coords-double")
        if not all_dec:
            nontriv = True
        bad_exact = dec & (lp != op)
        rec.check(not bad_exact.any(), f"poly-file/points-exact/{where}",
                  lambda: f"coordinates with <=15 significant digits changed: "
                          f"{op[bad_exact].tolist()} -> {lp[bad_exact].tolist()}")
        bad_tol = ~dec & (np.abs(lp - op) > POINT_RTOL * np.abs(op))
        rec.check(not bad_tol.any(), f"poly-file/points-precision/{where}",
                  lambda: f"coordinates changed by more than {POINT_RTOL} relative: "
                          f"{op[bad_tol].tolist()} -> {lp[bad_tol].tolist()}")
        # classifications
        if o["Q"] is None:
            rec.skip("poly:query-out-of-domain")
            continue
        Q = o["Q"]
        got = lf.filter(Q[:, 0], Q[:, 1])
        if all_dec and np.array_equal(lp, op):
            use = np.ones(len(Q), dtype=bool)
        else:
            sx = max(np.abs(op[:, 0]).max(), np.abs(Q[:, 0]).max()) or 1.0
            sy = max(np.abs(op[:, 1]).max(), np.abs(Q[:, 1]).max()) or 1.0
            use = np.array([_seg_dist_scaled(q[0], q[1], op.tolist(), sx, sy)
                            >= PERTURB_MARGIN for q in Q], dtype=bool)
            rec.skip("poly:point-near-boundary", int((~use).sum()))
        rec.check(np.array_equal(np.asarray(got)[use], o["cls"][use]),
                  f"poly-file/classification/{where}/"
                  f"{'inverted' if o['inverted'] else 'plain'}",
                  lambda: f"classification of {Q[use].tolist()} was "
                          f"{o['cls'][use].tolist()}, after save+import "
                          f"{np.asarray(got)[use].tolist()} (polygon {op.tolist()}, "
                          f"loaded {lp.tolist()}, inverted {o['inverted']} -> "
                          f"{lf.inverted})")
    if nontriv and not sanitize:
        rec.nontrivial()
    return True


# ---------------------------------------------------------------------------
# strategies
# ---------------------------------------------------------------------------

def _sgn(x, s):
    return -x if s else x


MANT = st.one_of(
    st.integers(-9, 9).map(float),
    st.integers(-40, 40).map(lambda i: i / 4),
    st.integers(-99, 99).map(lambda i: i / 10),
    st.builds(_sgn, st.floats(1.0, 10.0, exclude_max=True), st.booleans()),
)
EXP = st.integers(-6, 6)


@st.composite
def st_axis_values(draw, nmin, nmax):
    """coordinate pool of one axis: m*10**e, common or wild exponents,
    optional large offset"""
    e = draw(EXP)
    wild = draw(st.sampled_from([False, False, False, True]))
    n = draw(st.integers(nmin, nmax))
    off = 0.0
    if draw(st.sampled_from([False, False, True])):
        off = draw(MANT) * 10.0 ** draw(st.integers(e, 6))
    vals = []
    for _ in range(n):
        ee = draw(EXP) if wild else e
        vals.append(off + draw(MANT) * 10.0 ** ee)
    return vals


@st.composite
def st_vertices(draw):
    mode = draw(st.sampled_from(["pool", "pool", "star-convex", "star-concave",
                                 "free"]))
    n = draw(st.integers(3, 12))
    if mode == "pool":
        xs = draw(st_axis_values(2, 5))
        ys = draw(st_axis_values(2, 5))
        verts = [[draw(st.sampled_from(xs)), draw(st.sampled_from(ys))]
                 for _ in range(n)]
    elif mode == "free":
        verts = [[draw(MANT) * 10.0 ** draw(EXP), draw(MANT) * 10.0 ** draw(EXP)]
                 for _ in range(n)]
    else:
        ks = sorted(draw(st.lists(st.integers(0, 96), min_size=n, max_size=n,
                                  unique=True)))
        sx = draw(st.floats(1.0, 10.0)) * 10.0 ** draw(EXP)
        sy = draw(st.floats(1.0, 10.0)) * 10.0 ** draw(EXP)
        cx = draw(st.sampled_from([0.0, 1.0, 3.0, -2.0])) * sx
        cy = draw(st.sampled_from([0.0, 1.0, 3.0, -2.0])) * sy
        if mode == "star-convex":
            rs = [1.0] * n
        else:
            rs = [draw(st.sampled_from([0.25, 0.4, 0.7, 1.0])) for _ in range(n)]
        verts = [[cx + sx * r * math.cos(2 * math.pi * k / 97),
                  cy + sy * r * math.sin(2 * math.pi * k / 97)]
                 for k, r in zip(ks, rs)]
        if draw(st.booleans()):
            verts = verts[::-1]
    # whole-polygon scale / offset classes (features in SI units, frame
    # numbers or times with a narrow gate far from the origin)
    xf = draw(st.sampled_from(["none", "none", "none", "tiny", "huge", "offset",
                               "offset"]))
    if xf in ("tiny", "huge"):
        sg = -1 if xf == "tiny" else 1
        fx = 10.0 ** (sg * draw(st.integers(4, 10)))
        fy = 10.0 ** (sg * draw(st.integers(4, 10)))
        verts = [[v[0] * fx, v[1] * fy] for v in verts]
    elif xf == "offset":
        for ax in (0, 1):
            if ax == 1 and draw(st.sampled_from([False, False, True])):
                continue
            cs = [v[ax] for v in verts]
            ext = (max(cs) - min(cs)) or max(abs(c) for c in cs) or 1.0
            c = draw(st.sampled_from([1.0, -1.0, 2.5, 7.0])) * ext \
                * 10.0 ** draw(st.integers(4, 9))
            for v in verts:
                v[ax] = v[ax] + c
    if xf != "none":
        mode = mode + "+" + xf
    return mode, verts


UNIT = st.one_of(st.floats(0.0, 1.0), st.integers(0, 12).map(lambda i: i / 12))
OFFS = st.builds(_sgn, st.sampled_from([1e-15, 1e-14, 1e-13, 3e-12, 1e-11, 1e-10,
                                        1e-9, 1e-8, 1e-7, 1e-6, 1e-4, 1e-3]),
                 st.booleans())
IDX = st.integers(0, 11)

ST_POINT = st.one_of(
    st.tuples(st.just("box"), UNIT, UNIT),
    st.tuples(st.just("lvl"), IDX, UNIT),
    st.tuples(st.just("lvl"), IDX, UNIT),
    st.tuples(st.just("vx"), IDX, IDX),
    st.tuples(st.just("mid"), IDX, IDX),
    st.tuples(st.just("near"), IDX, UNIT, OFFS),
    st.tuples(st.just("near"), IDX, UNIT, OFFS),
    st.tuples(st.just("abs"), st.builds(lambda m, e: m * 10.0 ** e, MANT, EXP),
              st.builds(lambda m, e: m * 10.0 ** e, MANT, EXP)),
)


@st.composite
def st_rand(draw):
    mode, verts = draw(st_vertices())
    return {"k": "rand", "mode": mode, "verts": verts,
            "pts": [list(p) for p in draw(st.lists(ST_POINT, min_size=8, max_size=32))],
            "shift": draw(st.integers(1, 11)), "dup": draw(st.integers(0, 11))}


NAME_CHARS = st.one_of(
    st.sampled_from(list("abcXYZ019 _-.,:;#[]()/\\'\"%&+*!?<>|~")),
    st.sampled_from(list("=")),
    st.characters(min_codepoint=0x21, max_codepoint=0x7e),
    st.characters(min_codepoint=0xa1, max_codepoint=0x24f,
                  blacklist_categories=("Cc", "Cf", "Cs", "Cn", "Co", "Zs", "Zl", "Zp"),
                  blacklist_characters="\xad"),
    st.sampled_from(list("µΩαβ→✓")),
)


@st.composite
def st_name(draw):
    kind = draw(st.sampled_from(["none", "plain", "plain", "plain", "text", "text",
                                 "text", "text", "text", "eq"]))
    if kind == "none":
        return None
    if kind == "plain":
        return draw(st.sampled_from(["gate", "polygon filter 7", "cells 1", "A",
                                     "Example polygon filter created with Shape-Out",
                                     "[Polygon 00000001]", "point00000000", "x axis",
                                     "Name", "True", ""]))
    s = "".join(draw(st.lists(NAME_CHARS, min_size=1, max_size=24)))
    if kind == "eq":
        s = s.replace("=", "") + "=" + draw(st.sampled_from(["", "b", " 2", "="]))
    else:
        s = s.replace("=", "")
    return s.strip()


@st.composite
def st_dec_coord(draw):
    """decimal with <= 15 significant digits, magnitude 1e-7..1e7 (or 0)"""
    nd = draw(st.integers(1, 15))
    m = draw(st.integers(-(10 ** nd) + 1, 10 ** nd - 1))
    if m == 0:
        return 0.0
    e = draw(st.integers(-6, 6))
    digits = len(str(abs(m)))
    return float(f"{m}e{e - digits + 1}")


DBL_COORD = st.builds(lambda m, e: m * 10.0 ** e,
                      st.builds(_sgn, st.floats(0.1, 10.0, exclude_max=True),
                                st.booleans()), EXP)


@st.composite
def st_filter(draw):
    n = draw(st.integers(3, 12))
    kind = draw(st.sampled_from(["dec", "dbl", "shape"]))
    if kind == "dec":
        verts = [[draw(st_dec_coord()), draw(st_dec_coord())] for _ in range(n)]
    elif kind == "dbl":
        verts = [[draw(DBL_COORD), draw(DBL_COORD)] for _ in range(n)]
    else:
        verts = draw(st_vertices())[1]
    axes = draw(st.lists(st.sampled_from(AXES_POOL), min_size=2, max_size=2))
    return {"axes": axes, "name": draw(st_name()), "inv": draw(st.booleans()),
            "uid": draw(st.one_of(st.none(), st.none(), st.integers(0, 4),
                                  st.integers(0, 40), st.integers(0, 10 ** 9))),
            "verts": verts}


@st.composite
def st_poly(draw):
    nf = draw(st.sampled_from([1, 2, 2, 3, 4, 6]))
    return {"k": "poly",
            "filters": [draw(st_filter()) for _ in range(nf)],
            "how": draw(st.sampled_from(["save_all", "append", "fobj"])),
            "keep": draw(st.lists(st.booleans(), min_size=1, max_size=6)),
            "pts": [list(p) for p in draw(st.lists(ST_POINT, min_size=3, max_size=12))]}


def strategy(tier):
    return st.one_of(st_rand(), st_rand(), st_rand(), st_poly(), st_poly())


# ---------------------------------------------------------------------------

def run_case(spec, rec):
    k = spec["k"]
    if k == "grid":
        _run_grid(spec, rec)
    elif k == "rand":
        _run_rand(spec, rec)
    elif k == "poly":
        _run_poly(spec, rec)
    else:
        raise ValueError(f"unknown case kind {k!r}")


def sample_view(spec):
    if spec["k"] == "poly":
        return {"k": "poly", "how": spec["how"],
                "filters": [{**f, "verts": f["verts"][:3] + (["..."] if len(f["verts"]) > 3 else [])}
                            for f in spec["filters"][:2]],
                "n_filters": len(spec["filters"]), "pts": spec["pts"][:3]}
    if spec["k"] == "rand":
        return {**spec, "pts": spec["pts"][:6]}
    return spec
