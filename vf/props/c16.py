"""C16 — downsampling returns a reproducible subset of the requested size.

Three interpreters share one selection oracle:

* ``grid``  – dclab.downsampling.downsample_grid(a, b, samples, remove_invalid, ret_idx)
* ``rand``  – dclab.downsampling.downsample_rand(a, samples, remove_invalid, ret_idx)
* ``ds``    – a history of filter settings on a dataset (dict / HDF5 / hierarchy
  child): ``limit events`` after every ``apply_filter`` and
  ``get_downsampled_scatter`` (lin/log scales, both invalid modes, ret_mask)

Generator: pairs of arrays built from a recipe (uniform / blob / clustered /
duplicate-heavy / lattice / ramp / constant axis / two-valued axis / tiny or
huge value range / log-distributed with zeros and negatives; float64, float32,
int64; NaN, +inf, -inf at few / half / most / all / prefix / suffix positions in
one or both arrays) or given explicitly (<= 10 points, shrinks well); request
sizes are drawn as *relations* to the number of valid and of all candidate
events (0, 1, < valid, valid-1, = valid, valid+1, between, = n, n+1, > n,
number of occupied grid cells +-1) and resolved by the interpreter.

Oracle (per call): the mask has the length of the input and is a subset of the
candidates; returned values are bit-identical to ``input[mask]`` (subset, order,
no duplication, no alteration); ``remove_invalid`` => no invalid point and
count = min(request or all, valid); otherwise count = min(request or n, n) and
(grid) invalid points are used only when the valid ones are exhausted; the
ret_idx/ret_mask variants agree; the inputs are unchanged; a second call on
copies with the memo cache cleared and numpy's global RNG perturbed returns the
same mask.  ``limit events``: filter.all is a subset of the filter without the
limit (taken from a fresh dataset with the same settings), has
min(limit, available) events, is stable under re-application and equal to
that of a fresh dataset with the same settings.
"""
import numpy as np
from hypothesis import strategies as st

from .. import boot
from ..common import meta

import dclab
from dclab import RTDCWriter
from dclab import downsampling
from dclab.cached import Cache

ID = "C16"
RULE = ("Hypothesis-generated (array pair recipe, request relation, invalid mode, "
        "scales, filter history) specs; a case is non-trivial when at least one "
        "call really has to select (0 < request < eligible events; for the grid "
        "method additionally the number of occupied grid cells differs from the "
        "request, which forces the random add/remove branch), or invalid "
        "(nan/inf) points are among the candidates of a call with request > 0, "
        "or a 'limit events' value below the number of otherwise passing events "
        "is applied; distinct = sha1 of the canonical JSON spec")
BUDGET = {"quick": 4800, "thorough": 60000}
ESSENTIAL = ["level:grid", "level:rand", "level:ds", "rand:selects",
             "grid:branch-remove", "grid:branch-add", "grid:pad-invalid",
             "scatter:branch-remove", "scatter:branch-add",
             "scatter:pad-invalid",
             "req:zero", "req:lt-valid", "req:eq-valid", "req:between",
             "req:eq-n", "req:gt-n", "bad:some", "bad:all",
             "ds:limit-active", "ds:limit-reapplied", "ds:log-scale",
             "ds:filtered", "ds:fmt-child", "ds:fmt-hdf5"]
ASSUMPTIONS = [
    "dclab/downsampling is a compiled extension that cannot be rebuilt here (no "
    "Cython): its behaviour is checked, seeded changes are only possible in the "
    "Python callers (core.py, filter.py, cached.py)",
    "'invalid' means nan or +-inf in either array *after* the requested scale "
    "(log of a non-positive value is invalid)",
    "finite values are bounded (|v| <= 1e150) so that max-min cannot overflow",
    "the filter without 'limit events' is taken from a fresh dataset with the "
    "same settings (its correctness is property C03, not C16)",
    "which points an even selection keeps is not asserted (not part of the "
    "property statement); only subset / count / invalid handling / "
    "reproducibility are",
]

GRID = 300

DISTS = ["uniform", "blob", "clustered", "clustered", "dup", "dup", "lattice",
         "lattice", "ramp", "binary", "tiny_ptp", "big", "logdist", "logdist",
         "neg", "const_a", "const_b", "const_ab"]
REQ_KINDS = ["zero", "one", "lt_valid", "lt_valid", "lt_valid", "lt_valid",
             "valid_m1", "eq_valid", "valid_p1", "between", "between", "n_m1",
             "eq_n", "n_p1", "gt_n", "cells", "cells", "above_cells",
             "above_cells", "above_cells"]
LIMIT_KINDS = ["off", "one", "lt", "lt", "lt", "m1", "eq", "p1", "gt"]
AXES = ["area_um", "deform", "bright_avg", "userdef1", "time"]
POOL = [0.0, 1.0, 2.0, 3.0, 0.5, -1.0, 1e-3, 100.0, 7.25, float("nan"),
        float("inf"), float("-inf")]


# --------------------------------------------------------------------------
# generator
# --------------------------------------------------------------------------

def _st_n(tier, lo=0):
    pool = [0, 1, 2, 3, 4, 5, 7, 10, 17, 50, 100, 299, 300, 301, 1000]
    pool = [p for p in pool if p >= lo]
    big = [3000, 20000] if tier == "quick" else [3000, 20000, 100000]
    return st.one_of(st.sampled_from(pool), st.integers(lo, 60),
                     st.integers(lo, 400), st.integers(lo, 400),
                     st.sampled_from(pool + big))


@st.composite
def st_arr(draw, tier, lo=0, dtypes=("f8", "f8", "f8", "f4", "i8"),
           dists=DISTS, nmax=None, explicit=True):
    if explicit and draw(st.integers(0, 9)) == 0:
        n = draw(st.integers(max(lo, 0), 10))
        return {"explicit": {
            "a": draw(st.lists(st.sampled_from(POOL), min_size=n, max_size=n)),
            "b": draw(st.lists(st.sampled_from(POOL), min_size=n, max_size=n))}}
    n = draw(_st_n(tier, lo))
    if nmax is not None:
        n = min(n, nmax)
    return {
        "n": n,
        "dist": draw(st.sampled_from(list(dists))),
        "seed": draw(st.integers(0, 2**31 - 1)),
        "dtype": draw(st.sampled_from(list(dtypes))),
        "bad": {
            "mode": draw(st.sampled_from(["none", "none", "few", "few", "half",
                                          "most", "all", "prefix", "suffix"])),
            "kinds": draw(st.lists(st.sampled_from(["nan", "inf", "-inf"]),
                                   min_size=1, max_size=3, unique=True)),
            "axis": draw(st.sampled_from(["a", "b", "both", "split"])),
        },
    }


@st.composite
def st_arr_dense(draw, dtypes=("f8", "f8", "f4")):
    """many events per occupied grid cell: the grid step keeps fewer events
    than valid ones, so that requests in between need the 'add' branch"""
    arr = draw(st_arr("quick", lo=12, dtypes=dtypes, explicit=False,
                      dists=("clustered", "dup", "lattice", "blob")))
    if arr["dist"] == "blob":
        arr["n"] = max(arr["n"], 3000)
    arr["n"] = max(arr["n"], 12)
    return arr


def _st_req(kinds=tuple(REQ_KINDS)):
    return st.fixed_dictionaries({
        "kind": st.sampled_from(list(kinds)),
        "u": st.floats(0, 1, exclude_max=True, allow_nan=False, width=32),
    })


DENSE_REQ = ("above_cells", "above_cells", "cells", "lt_valid", "between")


@st.composite
def st_grid(draw, tier):
    if draw(st.integers(0, 3)) == 0:
        arr = draw(st_arr_dense())
        reqs = draw(st.lists(_st_req(DENSE_REQ), min_size=1, max_size=3))
    else:
        arr = draw(st_arr(tier))
        reqs = draw(st.lists(_st_req(), min_size=1, max_size=3))
    return {"level": "grid", "arr": arr, "reqs": reqs,
            "rm_first": draw(st.booleans()),
            "perturb": draw(st.integers(0, 2**31 - 1))}


@st.composite
def st_rand(draw, tier):
    arr = draw(st_arr(tier, dtypes=("f8", "f8", "f4", "i8", "bool")))
    return {"level": "rand", "arr": arr,
            "reqs": draw(st.lists(_st_req(), min_size=1, max_size=3)),
            "rm_first": draw(st.booleans()),
            "perturb": draw(st.integers(0, 2**31 - 1))}


_st_bits = st.lists(st.booleans(), min_size=1, max_size=24)
_st_q = st.floats(0, 1, allow_nan=False, width=32)


def _st_scatter(kinds):
    return st.fixed_dictionaries({
        "req": _st_req(kinds),
        "xscale": st.sampled_from(["linear", "linear", "log"]),
        "yscale": st.sampled_from(["linear", "linear", "log"]),
        "rm_first": st.booleans()})


@st.composite
def st_step(draw, kinds=tuple(REQ_KINDS)):
    return {
        "manual": draw(st.one_of(st.none(), _st_bits)),
        "box": draw(st.one_of(st.none(), st.none(), st.fixed_dictionaries(
            {"ax": st.integers(0, 1), "q": st.tuples(_st_q, _st_q)}))),
        "poly": draw(st.sampled_from([False, False, True])),
        "rie": draw(st.sampled_from([False, False, False, True])),
        "limit": {"kind": draw(st.sampled_from(LIMIT_KINDS)),
                  "u": draw(st.floats(0, 1, exclude_max=True, allow_nan=False,
                                      width=32))},
        "pending": draw(st.sampled_from([False, False, True])),
        "scatter": draw(st.one_of(st.none(), _st_scatter(kinds),
                                  _st_scatter(kinds), _st_scatter(kinds))),
    }


@st.composite
def st_ds(draw, tier):
    fmt = draw(st.sampled_from(["dict", "dict", "dict", "dict", "child",
                                "child", "hdf5"]))
    kinds = tuple(REQ_KINDS)
    if draw(st.integers(0, 3)) == 0:
        arr = draw(st_arr_dense(dtypes=("f8",)))
        kinds = DENSE_REQ
    else:
        arr = draw(st_arr(tier, lo=1, dtypes=("f8",),
                          nmax=1000 if fmt != "dict" else 3000))
    i = draw(st.integers(0, len(AXES) - 1))
    j = draw(st.integers(1, len(AXES) - 1))
    return {"level": "ds", "arr": arr, "fmt": fmt,
            "axes": [AXES[i], AXES[(i + j) % len(AXES)]],
            "parent_manual": draw(_st_bits),
            "poly_q": draw(st.tuples(_st_q, _st_q, _st_q, _st_q)),
            "poly_inv": draw(st.booleans()),
            "steps": draw(st.lists(st_step(kinds), min_size=1, max_size=3)),
            "child_check": draw(st.booleans()),
            "perturb": draw(st.integers(0, 2**31 - 1))}


def strategy(tier):
    return st.one_of(st_grid(tier), st_grid(tier), st_grid(tier), st_rand(tier),
                     st_ds(tier), st_ds(tier), st_ds(tier))


def sample_view(spec):
    s = dict(spec)
    arr = s.get("arr", {})
    if "explicit" in arr:
        s["arr"] = {"explicit": {k: v[:6] for k, v in arr["explicit"].items()}}
    if "steps" in s:
        s["steps"] = [{k: (v if k != "manual" or v is None else v[:6])
                       for k, v in stp.items()} for stp in s["steps"]]
        s["parent_manual"] = s["parent_manual"][:6]
    return s


# --------------------------------------------------------------------------
# spec -> arrays
# --------------------------------------------------------------------------

_BADVAL = {"nan": np.nan, "inf": np.inf, "-inf": -np.inf}


def _base_pair(n, dist, r):
    if n == 0:
        return np.zeros(0), np.zeros(0)
    if dist == "uniform":
        return r.uniform(20, 300, n), r.uniform(0, 0.2, n)
    if dist == "blob":
        return r.lognormal(4, 0.3, n), r.beta(2, 20, n)
    if dist == "clustered":
        k = int(r.integers(1, 5))
        cen = r.uniform(0.1, 0.9, (k, 2))
        w = r.integers(0, k, n)
        p = cen[w] + 1e-5 * r.normal(size=(n, 2))
        if n >= 3:  # two outliers fix the value range
            i, j = r.choice(n, 2, replace=False)
            p[i] = (0.0, 0.0)
            p[j] = (1.0, 1.0)
        return p[:, 0].copy(), p[:, 1].copy()
    if dist == "dup":
        m = int(r.integers(2, 8))
        pts = r.uniform(0, 10, (m, 2))
        w = r.integers(0, m, n)
        return pts[w, 0].copy(), pts[w, 1].copy()
    if dist == "lattice":
        k = int(r.integers(2, 25))
        return (r.integers(0, k, n).astype(float),
                r.integers(0, k, n).astype(float))
    if dist == "ramp":
        return np.arange(n, dtype=float), np.arange(n, dtype=float) + 50
    if dist == "binary":
        return r.integers(0, 2, n).astype(float), r.uniform(0, 1, n)
    if dist == "tiny_ptp":
        return 1.0 + r.integers(0, 4, n) * 2.0**-52, r.uniform(0, 1, n)
    if dist == "big":
        return r.uniform(-1, 1, n) * 1e150, r.uniform(0, 1, n) * 1e-150
    if dist == "logdist":
        a = np.exp(r.normal(0, 3, n))
        b = np.exp(r.normal(0, 1, n))
        z = r.random(n)
        a[z < 0.1] = 0.0
        a[(z >= 0.1) & (z < 0.2)] *= -1
        b[z > 0.92] = 0.0
        return a, b
    if dist == "neg":
        return r.uniform(-5, 5, n), r.uniform(-1, 0, n)
    if dist == "const_a":
        return np.full(n, 3.5), r.uniform(0, 1, n)
    if dist == "const_b":
        return r.uniform(0, 1, n), np.full(n, -2.0)
    if dist == "const_ab":
        return np.full(n, 1.0), np.full(n, 1.0)
    raise ValueError(dist)


def _pair(arr):
    """(a, b) from the array part of a spec – pure function of the spec"""
    if "explicit" in arr:
        return (np.array(arr["explicit"]["a"], dtype=float),
                np.array(arr["explicit"]["b"], dtype=float))
    n = int(arr["n"])
    r = np.random.default_rng(int(arr["seed"]) % (2**32))
    a, b = _base_pair(n, arr["dist"], r)
    dt = arr["dtype"]
    if dt == "i8":
        if arr["dist"] in ("big", "tiny_ptp"):
            dt = "f8"
        else:
            sc = 1 if arr["dist"] in ("ramp", "lattice", "binary") else 10
            return (np.floor(a * sc).astype(np.int64),
                    np.floor(b * sc * 10).astype(np.int64))
    if dt == "bool":
        return a > np.median(a) if n else a.astype(bool), b > 0
    bad = arr["bad"]
    if bad["mode"] != "none" and n:
        mode = bad["mode"]
        if mode == "few":
            k = min(n, 1 + int(r.integers(0, 3)))
        elif mode == "half":
            k = max(1, n // 2)
        elif mode == "most":
            k = max(1, n - 1 - int(r.integers(0, 3)))
        elif mode == "all":
            k = n
        else:
            k = int(r.integers(1, n + 1))
        if mode == "prefix":
            pos = np.arange(k)
        elif mode == "suffix":
            pos = np.arange(n - k, n)
        else:
            pos = np.sort(r.choice(n, k, replace=False))
        vals = np.array([_BADVAL[x] for x in bad["kinds"]])[
            r.integers(0, len(bad["kinds"]), k)]
        ax = bad["axis"]
        if ax in ("a", "both"):
            a[pos] = vals
        if ax in ("b", "both"):
            b[pos] = vals[::-1]
        if ax == "split":
            a[pos[::2]] = vals[::2]
            b[pos[1::2]] = vals[1::2]
    if dt == "f4":
        with np.errstate(all="ignore"):
            a, b = a.astype(np.float32), b.astype(np.float32)
    return a, b


# --------------------------------------------------------------------------
# shared pieces of the oracle
# --------------------------------------------------------------------------

def _finite(a):
    if a.dtype.kind == "f":
        return np.isfinite(a)
    return np.ones(a.shape, dtype=bool)


def _ncells(av, bv):
    """number of occupied cells of the 300x300 grid (classification and the
    'cells' request only; None when an axis has no extent)"""
    if av.size == 0:
        return None
    with np.errstate(all="ignore"):
        pa = av.max() - av.min()
        pb = bv.max() - bv.min()
        if not (pa > 0 and pb > 0 and np.isfinite(pa) and np.isfinite(pb)):
            return None
        xd = np.array((av - av.min()) / pa * (GRID - 1), dtype=np.uint32)
        yd = np.array((bv - bv.min()) / pb * (GRID - 1), dtype=np.uint32)
    return int(np.unique(xd.astype(np.int64) * GRID + yd).size)


def _is_const(av, bv):
    """an axis without extent among the valid candidates (dclab divides by
    max-min: known finding 'constant-axis' when a selection is needed)"""
    if av.size == 0:
        return False
    with np.errstate(all="ignore"):
        return bool(av.max() == av.min() or bv.max() == bv.min())


def _resolve_req(rq, N, V, cells):
    kind, u = rq["kind"], float(rq["u"])
    if kind == "zero":
        return 0
    if kind == "one":
        return 1
    if kind == "lt_valid":
        return 1 + int(u * max(V - 1, 1)) if V >= 2 else 1
    if kind == "valid_m1":
        return max(V - 1, 0)
    if kind == "eq_valid":
        return V
    if kind == "valid_p1":
        return V + 1
    if kind == "between":
        return V + int(u * (N - V + 1))
    if kind == "n_m1":
        return max(N - 1, 0)
    if kind == "eq_n":
        return N
    if kind == "n_p1":
        return N + 1
    if kind == "gt_n":
        return N + 1 + int(u * (N + 5))
    if kind == "above_cells":
        # strictly between the number of occupied grid cells and the number
        # of valid events: the grid step keeps too few, points must be added
        if cells is None or cells >= V - 1:
            return 1 + int(u * max(V - 1, 1)) if V >= 2 else 1
        return cells + 1 + int(u * (V - cells - 1))
    if kind == "cells":
        if cells is None:
            return 1 + int(u * max(V - 1, 1)) if V >= 2 else 1
        return max(cells + int(u * 3) - 1, 0)
    raise ValueError(kind)


def _rel(req, V, N):
    if req == 0:
        return "zero"
    if req < V:
        return "lt-valid"
    if req == V:
        return "eq-valid"
    if req < N:
        return "between"
    if req == N:
        return "eq-n"
    return "gt-n"


def _same(x, y):
    """bit-identical arrays (values, dtype, shape; NaN payloads included)"""
    x = np.asarray(x)
    y = np.asarray(y)
    return (x.dtype == y.dtype and x.shape == y.shape
            and np.ascontiguousarray(x).tobytes()
            == np.ascontiguousarray(y).tobytes())


def _clear_memo():
    """empty dclab's memo cache (Cache.clear_cache() additionally runs a full
    gc.collect(), which dominates the cost of a case)"""
    Cache._cache = {}
    Cache._keys = []


def _perturb(seed, k):
    """move numpy's global RNG somewhere else (deterministically)"""
    np.random.seed((int(seed) + 7919 * k) % (2**32))
    np.random.random(1 + k % 3)


def _check_mask(rec, lvl, cls, keep, cand, valid, req, rm, pad_rule):
    """count / subset / invalid rules for a boolean selection `keep` over the
    candidates `cand` (both indexed like the input)"""
    N = int(cand.sum())
    V = int((cand & valid).sum())
    nk = int(keep.sum())
    rec.check(not (keep & ~cand).any(), f"{lvl}/mask-subset/{cls}",
              lambda: f"mask selects {int((keep & ~cand).sum())} events that "
                      f"are not candidates")
    ninv = int((keep & ~valid).sum())
    if rm:
        exp = V if req == 0 else min(req, V)
        rec.check(ninv == 0, f"{lvl}/invalid-returned/{cls}",
                  lambda: f"remove_invalid=True but {ninv} invalid events "
                          f"selected (request {req}, valid {V}, all {N})")
    else:
        exp = N if req == 0 else min(req, N)
        if pad_rule:
            einv = max(0, exp - V)
            rec.check(ninv == einv, f"{lvl}/invalid-before-valid-exhausted/{cls}",
                      lambda: f"{ninv} invalid events selected, expected {einv} "
                              f"(request {req}, valid {V}, all {N})")
    rec.check(nk == exp, f"{lvl}/count/{cls}",
              lambda: f"{nk} events selected, expected {exp} (request {req}, "
                      f"valid {V}, candidates {N}, remove_invalid={rm})")


def _raise_cls(req, rm, N, V, const, rel):
    if not rm and req > N:
        return "request-exceeds-events"
    if 0 < req < V and const:
        return "constant-axis"
    return rel


# --------------------------------------------------------------------------
# level: grid
# --------------------------------------------------------------------------

def _run_grid(spec, rec):
    a, b = _pair(spec["arr"])
    a0, b0 = a.copy(), b.copy()
    n = a.size
    valid = _finite(a) & _finite(b)
    cand = np.ones(n, dtype=bool)
    V = int(valid.sum())
    cells = _ncells(a[valid].astype(a.dtype), b[valid])
    const = _is_const(a[valid], b[valid])
    rec.cls("bad:none" if V == n else "bad:all" if V == 0 else "bad:some")
    rec.cls(f"dtype:{a.dtype}")
    done = []
    for k, rq in enumerate(spec["reqs"]):
        req = _resolve_req(rq, n, V, cells)
        rel = _rel(req, V, n)
        rec.cls(f"req:{rel}")
        branch = ""
        if 0 < req < V:
            if const:
                branch = ":const"
                rec.cls("grid:constant-axis")
            elif cells is not None:
                branch = (":remove" if cells > req else ":add" if cells < req
                          else ":exact")
                rec.cls("grid:branch-" + branch[1:])
                if cells != req:
                    rec.nontrivial()
        if req > 0 and V < n:
            rec.nontrivial()
        if V < req <= n and V < n:
            rec.cls("grid:pad-invalid")
        for rm in ([True, False] if spec["rm_first"] else [False, True]):
            cls = f"{rel}{branch}/{'rm' if rm else 'keep'}"
            try:
                res = downsampling.downsample_grid(
                    a, b, samples=req, remove_invalid=rm, ret_idx=True)
            except Exception as e:  # noqa
                icls = _raise_cls(req, rm, n, V, const, rel)
                rec.fail(f"grid/raises-{type(e).__name__}/{icls}",
                         f"downsample_grid(n={n}, valid={V}, samples={req}, "
                         f"remove_invalid={rm}) raised {e!r}")
                continue
            ok = rec.check(
                isinstance(res, tuple) and len(res) == 3
                and isinstance(res[2], np.ndarray) and res[2].dtype == bool
                and res[2].shape == a.shape, f"grid/mask-shape/{cls}",
                lambda: f"unexpected return {type(res)}")
            if not ok:
                continue
            asd, bsd, keep = res
            keep = keep.copy()
            rec.check(_same(asd, a0[keep]) and _same(bsd, b0[keep]),
                      f"grid/values/{cls}",
                      lambda: f"returned values differ from input[mask]: "
                              f"{np.asarray(asd)[:8]} vs {a0[keep][:8]}")
            _check_mask(rec, "grid", cls, keep, cand, valid, req, rm, True)
            # variant without mask (positional `samples`)
            try:
                r2 = downsampling.downsample_grid(a, b, req, remove_invalid=rm)
                rec.check(len(r2) == 2 and _same(r2[0], a0[keep])
                          and _same(r2[1], b0[keep]),
                          f"grid/ret-idx-variant/{cls}",
                          "ret_idx=False returns other points than ret_idx=True")
            except Exception as e:  # noqa
                rec.fail(f"grid/ret-idx-variant/{cls}", f"raised {e!r}")
            done.append((req, rm, cls, keep))
    rec.check(_same(a, a0) and _same(b, b0), "grid/input-modified",
              "input arrays were modified")
    # same first array, other second array (memoised function: the answer
    # must follow the arguments of *this* call)
    if done and n >= 2:
        req, rm, cls, _ = done[-1]
        b2 = b0[::-1].copy()
        valid2 = _finite(a0) & _finite(b2)
        if not (0 < req < int(valid2.sum())
                and _is_const(a0[valid2], b2[valid2])):
            rec.cls("grid:second-array-changed")
            try:
                asd, bsd, keep2 = downsampling.downsample_grid(
                    a, b2, samples=req, remove_invalid=rm, ret_idx=True)
                c2 = _rel(req, int(valid2.sum()), n) + "/" + \
                    ("rm" if rm else "keep") + "/second-array-changed"
                rec.check(_same(asd, a0[keep2]) and _same(bsd, b2[keep2]),
                          f"grid/values/{c2}",
                          "returned values differ from input[mask]")
                _check_mask(rec, "grid", c2, keep2, cand, valid2, req, rm, True)
            except Exception as e:  # noqa
                icls = _raise_cls(req, rm, n, int(valid2.sum()), False,
                                  "second-array-changed")
                rec.fail(f"grid/raises-{type(e).__name__}/{icls}",
                         f"downsample_grid(a, b[::-1], samples={req}, "
                         f"remove_invalid={rm}) raised {e!r}")
    # reproducibility: fresh memo cache, other global RNG state, copies
    for k, (req, rm, cls, keep) in enumerate(done):
        _clear_memo()
        _perturb(spec["perturb"], k)
        try:
            res = downsampling.downsample_grid(
                a0.copy(), b0.copy(), samples=req, remove_invalid=rm,
                ret_idx=True)
            rec.check(_same(res[2], keep), f"grid/reproducible/{cls}",
                      lambda: f"second call selects other events "
                              f"({int((res[2] != keep).sum())} differ)")
        except Exception as e:  # noqa
            rec.fail(f"grid/reproducible/{cls}", f"second call raised {e!r}")
    # "the same input always gives the same selection": also after the caller has
    # modified the arrays returned by the *first* call in place (memo cache intact)
    if done:
        req, rm, cls, _ = done[0]
        _clear_memo()
        try:
            r1 = downsampling.downsample_grid(a0.copy(), b0.copy(), samples=req,
                                              remove_invalid=rm, ret_idx=True)
            keep1 = np.array(r1[2], copy=True)
            writable = 0
            for arr in r1:
                try:
                    if arr.dtype == bool:
                        arr[:] = ~arr
                    else:
                        arr[:] = 0
                    writable += 1
                except ValueError:
                    pass     # read-only result: cannot be altered, fine
            if writable:
                rec.cls("grid:first-result-mutated-then-recall")
            r2 = downsampling.downsample_grid(a0.copy(), b0.copy(), samples=req,
                                              remove_invalid=rm, ret_idx=True)
            rec.check(_same(r2[2], keep1) and _same(r2[0], a0[keep1])
                      and _same(r2[1], b0[keep1]),
                      f"grid/reproducible-after-result-mutation/{cls}",
                      "after modifying the first call's result in place, the same "
                      "input gives another selection / other values")
        except Exception as e:  # noqa
            icls = _raise_cls(req, rm, n, int((_finite(a0) & _finite(b0)).sum()),
                              False, "plain") if "_raise_cls" in globals() else "x"
            rec.skip("grid:mutation-recall-raised:" + type(e).__name__)


# --------------------------------------------------------------------------
# level: rand
# --------------------------------------------------------------------------

def _run_rand(spec, rec):
    a, _ = _pair(spec["arr"])
    a0 = a.copy()
    n = a.size
    valid = _finite(a)
    cand = np.ones(n, dtype=bool)
    V = int(valid.sum())
    rec.cls("bad:none" if V == n else "bad:all" if V == 0 else "bad:some")
    rec.cls(f"dtype:{a.dtype}")
    done = []
    for rq in spec["reqs"]:
        req = _resolve_req(rq, n, V, None)
        rel = _rel(req, V, n)
        rec.cls(f"req:{rel}")
        if 0 < req < n:
            rec.nontrivial()
            rec.cls("rand:selects")
        for rm in ([True, False] if spec["rm_first"] else [False, True]):
            cls = f"{rel}/{'rm' if rm else 'keep'}"
            try:
                res = downsampling.downsample_rand(
                    a, samples=req, remove_invalid=rm, ret_idx=True)
            except Exception as e:  # noqa
                rec.fail(f"rand/raises-{type(e).__name__}/{cls}",
                         f"downsample_rand(n={n}, valid={V}, samples={req}, "
                         f"remove_invalid={rm}) raised {e!r}")
                continue
            ok = rec.check(
                isinstance(res, tuple) and len(res) == 2
                and isinstance(res[1], np.ndarray) and res[1].dtype == bool
                and res[1].shape == a.shape, f"rand/mask-shape/{cls}",
                lambda: f"unexpected return {type(res)}")
            if not ok:
                continue
            dsa, keep = res
            keep = keep.copy()
            rec.check(_same(dsa, a0[keep]), f"rand/values/{cls}",
                      "returned values differ from input[mask]")
            _check_mask(rec, "rand", cls, keep, cand, valid, req, rm, False)
            try:
                r2 = downsampling.downsample_rand(a, req, rm)
                rec.check(_same(r2, a0[keep]), f"rand/ret-idx-variant/{cls}",
                          "ret_idx=False returns other points than ret_idx=True")
            except Exception as e:  # noqa
                rec.fail(f"rand/ret-idx-variant/{cls}", f"raised {e!r}")
            done.append((req, rm, cls, keep))
    rec.check(_same(a, a0), "rand/input-modified", "input array was modified")
    for k, (req, rm, cls, keep) in enumerate(done):
        _perturb(spec["perturb"], k)
        try:
            res = downsampling.downsample_rand(
                a0.copy(), samples=req, remove_invalid=rm, ret_idx=True)
            rec.check(_same(res[1], keep), f"rand/reproducible/{cls}",
                      lambda: f"second call selects other events "
                              f"({int((res[1] != keep).sum())} differ)")
        except Exception as e:  # noqa
            rec.fail(f"rand/reproducible/{cls}", f"second call raised {e!r}")


# --------------------------------------------------------------------------
# level: ds
# --------------------------------------------------------------------------

def _bits(bits, n):
    return np.array([bits[i % len(bits)] for i in range(n)], dtype=bool)


def _quant(vals, q):
    fin = np.sort(vals[np.isfinite(vals)])
    if fin.size == 0:
        return 0.0
    return float(fin[int(float(q) * (fin.size - 1))])


def _scaled(v, scale):
    if scale == "log":
        with np.errstate(all="ignore"):
            return np.log(v)
    return v


class _DS:
    """factory for the dataset under test and for fresh copies of it"""

    def __init__(self, spec, x, y, d):
        self.spec, self.x, self.y = spec, x, y
        self.xax, self.yax = spec["axes"]
        self.fmt = spec["fmt"]
        self.open = []
        self.path = None
        if self.fmt == "hdf5":
            self.path = d / "in.rtdc"
            with RTDCWriter(self.path) as hw:
                hw.store_metadata({"experiment": meta()["experiment"]})
                hw.store_feature(self.xax, x)
                hw.store_feature(self.yax, y)
        self.pmask = _bits(spec["parent_manual"], x.size)
        if not self.pmask.any():
            self.pmask[0] = True

    def new(self):
        if self.fmt == "hdf5":
            ds = dclab.new_dataset(self.path)
            self.open.append(ds)
        elif self.fmt == "child":
            par = dclab.new_dataset({self.xax: self.x.copy(),
                                     self.yax: self.y.copy()})
            par.filter.manual[:] = self.pmask
            par.apply_filter()
            ds = dclab.new_dataset(par)
            self.open += [ds, par]
        else:
            ds = dclab.new_dataset({self.xax: self.x.copy(),
                                    self.yax: self.y.copy()})
            self.open.append(ds)
        return ds

    def close(self):
        for ds in self.open:
            try:
                ds.close()
            except Exception:  # noqa
                pass
        self.open = []


def _configure(ds, cfg, limit, pf):
    """apply one generated filter setting through the documented interface
    (keys are only ever set, never deleted: key deletion is C03 business)"""
    n = len(ds)
    ds.filter.manual[:] = (_bits(cfg["manual"], n) if cfg["manual"] is not None
                           else True)
    f = ds.config["filtering"]
    for feat, (lo, hi) in cfg["boxes"].items():
        f[feat + " min"] = lo
        f[feat + " max"] = hi
    has = pf.unique_id in f["polygon filters"]
    if cfg["poly"] and not has:
        ds.polygon_filter_add(pf)
    elif has and not cfg["poly"]:
        ds.polygon_filter_rm(pf)
    f["remove invalid events"] = bool(cfg["rie"])
    f["limit events"] = int(limit)
    ds.apply_filter()


def _run_ds(spec, rec, d):
    x, y = _pair(spec["arr"])
    x = x.astype(float)
    y = y.astype(float)
    fac = _DS(spec, x, y, d)
    rec.cls(f"ds:fmt-{fac.fmt}")
    try:
        _run_ds_inner(spec, rec, fac)
    finally:
        fac.close()


def _run_ds_inner(spec, rec, fac):
    xax, yax = fac.xax, fac.yax
    ds = fac.new()
    n = len(ds)
    xd = np.array(ds[xax][:], dtype=float)
    yd = np.array(ds[yax][:], dtype=float)
    xd0, yd0 = xd.copy(), yd.copy()
    q = spec["poly_q"]
    x0, x1 = sorted([_quant(xd, q[0]), _quant(xd, q[1])])
    y0, y1 = sorted([_quant(yd, q[2]), _quant(yd, q[3])])
    ex = 0.01 * (abs(x1 - x0) + abs(x0) + 1e-9)
    ey = 0.01 * (abs(y1 - y0) + abs(y0) + 1e-9)
    pf = dclab.PolygonFilter(
        axes=(xax, yax), inverted=bool(spec["poly_inv"]),
        points=[[x0 - ex, y0 - ey], [x1 + ex, y0 - ey], [x1 + ex, y1 + ey],
                [x0 - ex, y1 + ey]])
    boxes = {}
    nsc = 0
    for si, stp in enumerate(spec["steps"]):
        # ---- filter setting of this step
        if stp["box"] is not None:
            feat = (xax, yax)[stp["box"]["ax"]]
            vals = (xd, yd)[stp["box"]["ax"]]
            lo, hi = sorted([_quant(vals, stp["box"]["q"][0]),
                             _quant(vals, stp["box"]["q"][1])])
            if lo == hi:
                hi = lo + 1.0
            boxes[feat] = (lo, hi)
        else:
            for feat in list(boxes):
                boxes[feat] = (0.0, 0.0)  # min == max: documented 'no filter'
        cfg = {"manual": stp["manual"], "boxes": dict(boxes),
               "poly": stp["poly"], "rie": stp["rie"]}
        ref = fac.new()
        _configure(ref, cfg, 0, pf)
        base = ref.filter.all.copy()
        B = int(base.sum())
        lk, lu = stp["limit"]["kind"], float(stp["limit"]["u"])
        L = {"off": 0, "one": 1, "lt": 1 + int(lu * max(B - 1, 1)) if B >= 2 else 1,
             "m1": max(B - 1, 0), "eq": B, "p1": B + 1,
             "gt": B + 1 + int(lu * (B + 5))}[lk]
        lcls = ("off" if L == 0 else "lt" if L < B else "eq" if L == B else "gt")
        hist = "first-apply" if si == 0 else "re-apply"
        if B < n:
            rec.cls("ds:filtered")
        if 0 < L < B:
            rec.cls("ds:limit-active")
            rec.nontrivial()
            if si > 0:
                rec.cls("ds:limit-reapplied")
        elif L >= B and L > 0:
            rec.cls("ds:limit-ge")
        _configure(ds, cfg, L, pf)
        fa = ds.filter.all.copy()
        ok = rec.check(fa.dtype == bool and fa.shape == (n,),
                       f"limit/mask-shape/{lcls}", "filter.all has wrong shape")
        if not ok:
            continue
        rec.check(not (fa & ~base).any(), f"limit/subset/{lcls}/{hist}",
                  lambda: f"filter.all passes {int((fa & ~base).sum())} events "
                          f"that the filters without 'limit events' reject")
        exp = B if L == 0 else min(L, B)
        rec.check(int(fa.sum()) == exp, f"limit/count/{lcls}/{hist}",
                  lambda: f"'limit events'={L}: {int(fa.sum())} events pass, "
                          f"expected {exp} ({B} pass without the limit)")
        # stable under re-application with another global RNG state
        _perturb(spec["perturb"], si)
        ds.apply_filter()
        fa2 = ds.filter.all.copy()
        rec.check(_same(fa, fa2), f"limit/reapply-stable/{lcls}/{hist}",
                  lambda: f"apply_filter() twice: {int((fa != fa2).sum())} "
                          f"events change")
        # a fresh dataset with the same settings selects the same events
        _perturb(spec["perturb"], si + 11)
        fresh = fac.new()
        _configure(fresh, cfg, L, pf)
        fa3 = fresh.filter.all.copy()
        rec.check(_same(fa2, fa3), f"limit/reproducible/{lcls}/{hist}",
                  lambda: f"fresh dataset with equal settings: "
                          f"{int((fa2 != fa3).sum())} events differ")
        fa = fa2
        # ---- scatter query of this step
        sc = stp["scatter"]
        if sc is not None:
            nsc += 1
            pend = bool(stp.get("pending")) and n > 0
            if pend:
                # settings changed but not applied: the scatter data must
                # still follow the filter as it was last applied
                rec.cls("ds:pending-settings")
                m0 = bool(ds.filter.manual[0])
                ds.filter.manual[0] = not m0
                ds.config["filtering"]["limit events"] = 1
            _scatter(spec, rec, ds, sc, fa, xd, yd, si)
            rec.check(_same(ds.filter.all, fa),
                      "scatter/filter-modified/"
                      + ("pending-settings" if pend else "applied-settings"),
                      "get_downsampled_scatter changed filter.all")
            if pend:
                ds.filter.manual[0] = m0
                ds.config["filtering"]["limit events"] = int(L)
    if spec["child_check"]:
        fa = ds.filter.all.copy()
        ch = dclab.new_dataset(ds)
        fac.open.append(ch)
        rec.cls("ds:child-of-limited")
        rec.check(len(ch) == int(fa.sum()), "limit/child-length",
                  lambda: f"child has {len(ch)} events, filter.all passes "
                          f"{int(fa.sum())}")
        if len(ch) == int(fa.sum()):
            rec.check(_same(np.array(ch[xax][:], dtype=float), xd[fa]),
                      "limit/child-values", "child data differ from parent[filter.all]")
    rec.check(_same(np.array(ds[xax][:], dtype=float), xd0)
              and _same(np.array(ds[yax][:], dtype=float), yd0),
              "scatter/input-modified", "feature data changed")


def _scatter(spec, rec, ds, sc, fa, xd, yd, si):
    xax, yax = spec["axes"]
    n = len(ds)
    xs, ys = _scaled(xd, sc["xscale"]), _scaled(yd, sc["yscale"])
    valid = np.isfinite(xs) & np.isfinite(ys)
    sel = fa & valid
    N, V = int(fa.sum()), int(sel.sum())
    cells = _ncells(xs[sel], ys[sel])
    const = _is_const(xs[sel], ys[sel])
    req = _resolve_req(sc["req"], N, V, cells)
    rel = _rel(req, V, N)
    rec.cls(f"req:{rel}")
    rec.cls("bad:none" if V == N else "bad:all" if V == 0 else "bad:some")
    scl = "log" if "log" in (sc["xscale"], sc["yscale"]) else "lin"
    if scl == "log":
        rec.cls("ds:log-scale")
    branch = ""
    if 0 < req < V:
        if const:
            branch = ":const"
            rec.cls("grid:constant-axis")
        elif cells is not None:
            branch = (":remove" if cells > req else ":add" if cells < req
                      else ":exact")
            rec.cls("scatter:branch-" + branch[1:])
            if cells != req:
                rec.nontrivial()
    if req > 0 and V < N:
        rec.nontrivial()
    if V < req <= N and V < N:
        rec.cls("scatter:pad-invalid")
    kw = dict(xax=xax, yax=yax, downsample=req, xscale=sc["xscale"],
              yscale=sc["yscale"])
    done = []
    for rm in ([True, False] if sc["rm_first"] else [False, True]):
        cls = f"{rel}{branch}/{'rm' if rm else 'keep'}/{scl}"
        try:
            res = ds.get_downsampled_scatter(remove_invalid=rm, ret_mask=True,
                                             **kw)
        except Exception as e:  # noqa
            icls = _raise_cls(req, rm, N, V, const, rel)
            rec.fail(f"scatter/raises-{type(e).__name__}/{icls}",
                     f"get_downsampled_scatter(filtered={N}, valid={V}, "
                     f"downsample={req}, remove_invalid={rm}, "
                     f"scales={sc['xscale']}/{sc['yscale']}) raised {e!r}")
            continue
        ok = rec.check(
            isinstance(res, tuple) and len(res) == 3
            and isinstance(res[2], np.ndarray) and res[2].dtype == bool
            and res[2].shape == (n,), f"scatter/mask-shape/{cls}",
            lambda: f"mask is not a boolean array of dataset length {n}: "
                    f"{getattr(res[2], 'shape', None)}")
        if not ok:
            continue
        xr, yr, mask = res
        mask = mask.copy()
        rec.check(_same(np.asarray(xr, dtype=float), xd[mask])
                  and _same(np.asarray(yr, dtype=float), yd[mask]),
                  f"scatter/values/{cls}",
                  lambda: f"returned points differ from ds[feat][mask]: "
                          f"{np.asarray(xr)[:6]} vs {xd[mask][:6]}")
        _check_mask(rec, "scatter", cls, mask, fa, valid, req, rm, True)
        try:
            r2 = ds.get_downsampled_scatter(remove_invalid=rm, **kw)
            rec.check(len(r2) == 2
                      and _same(np.asarray(r2[0], dtype=float), xd[mask])
                      and _same(np.asarray(r2[1], dtype=float), yd[mask]),
                      f"scatter/ret-mask-variant/{cls}",
                      "ret_mask=False returns other points than ret_mask=True")
        except Exception as e:  # noqa
            rec.fail(f"scatter/ret-mask-variant/{cls}", f"raised {e!r}")
        done.append((rm, cls, mask))
    for k, (rm, cls, mask) in enumerate(done):
        _clear_memo()
        _perturb(spec["perturb"], 100 + 10 * si + k)
        try:
            res = ds.get_downsampled_scatter(remove_invalid=rm, ret_mask=True,
                                             **kw)
            rec.check(_same(res[2], mask), f"scatter/reproducible/{cls}",
                      lambda: f"second call selects other events "
                              f"({int((res[2] != mask).sum())} differ)")
        except Exception as e:  # noqa
            rec.fail(f"scatter/reproducible/{cls}", f"second call raised {e!r}")


# --------------------------------------------------------------------------

def run_case(spec, rec):
    lvl = spec["level"]
    rec.cls(f"level:{lvl}")
    if lvl == "grid":
        _run_grid(spec, rec)
    elif lvl == "rand":
        _run_rand(spec, rec)
    else:
        d = boot.casedir() if spec["fmt"] == "hdf5" else None
        try:
            _run_ds(spec, rec, d)
        finally:
            if d is not None:
                boot.rmcase(d)
