"""C17 — cached computations are indistinguishable from fresh ones.

Four interpreters share one spec format (``spec["kind"]``):

``memo``     call histories against the md5-keyed global ``Cache`` (the three
             KDE functions and ``downsample_grid``): argument *families* with
             adversarially similar members (same bytes / other dtype, same bytes
             / other split between the arguments, strided and reversed views,
             1-D vs 2-D ``xout``, positional vs keyword passing), bursts that
             overflow the FIFO (default capacity 100 and the documented knob
             ``cached.MAX_SIZE``), in-place modification of returned arrays.
             Oracle: the undecorated function (``Cache.func``) behind an
             independent re-implementation of the documented nan/inf filter, on
             freshly built arguments; an immediate repetition must not invoke
             the function again; the store stays bounded and consistent.
``hash``     ``util.hashfile`` against a direct digest of the modelled file
             content across rewrites (mtime forced strictly increasing), size
             changes with restored mtime, deletion, > 100 distinct keys.
``contour``  ``LazyContourList`` with a small ``max_events`` against
             ``get_contour(mask[i])`` for random index sequences.
``ds``       reads through the dataset interface (dict, HDF5, hierarchy child /
             grandchild, basin, mapped basin; scalar, ancillary, image, mask,
             trace, contour) followed by an in-place modification of what was
             returned and a re-read; dataset-level KDE / downsampling calls.
"""
import contextlib
import functools
import hashlib
import os

import numpy as np
from hypothesis import strategies as st

from .. import boot
from ..common import meta, quiet, chunk_bytes, eqnan

import dclab
from dclab import RTDCWriter
from dclab import cached as dcached
from dclab import downsampling as ddown
from dclab import kde_methods as dkde
from dclab import util as dutil
from dclab.cached import Cache
from dclab.features import contour as dcontour
from dclab.rtdc_dataset import feat_temp

ID = "C17"
RULE = ("Hypothesis-generated call histories (lists of operations executed by an "
        "interpreter against dclab and against a fresh computation). Non-trivial: "
        "memo - a call on a member whose entry was evicted earlier, or on a member "
        "with a byte-identical sibling of other dtype/split/layout called earlier, "
        "or a re-call after the returned array was modified in place; hash - a "
        "hashfile call after the file content changed (or after > 100 other keys); "
        "contour - an index requested again after eviction or served from the deque; "
        "ds - a re-read after a successful in-place modification of the first read. "
        "distinct = sha1 of the canonical JSON spec")
BUDGET = {"quick": 1440, "thorough": 14000}
ESSENTIAL = [
    "memo:recall-after-eviction", "memo:sibling-dtype", "memo:sibling-split",
    "memo:layout-noncontiguous", "memo:xout-2d", "memo:cross-function",
    "memo:mutated-recall", "memo:param-differs", "memo:default-capacity-overflow",
    "hash:changed-content-recall", "hash:size-change-same-mtime",
    "hash:lru-overflow", "contour:evicted-recall", "contour:deque-hit",
    "ds:modified-reread", "ds:view:child", "ds:view:mapped", "ds:view:basin",
    "ds:api", "ds:read-after-refilter",
]
ASSUMPTIONS = [
    "version shim: dclab._version pre-seeded with 0.62.7 so that files written "
    "by the untagged build can be re-opened",
    "the undecorated functions (Cache.func) are deterministic: two fresh "
    "evaluations on identical arguments agree bit for bit (asserted on every "
    "50th call as harness self-check)",
    "harness-side call counting: Cache.func of the four memoised callables is "
    "replaced by a transparent counting proxy (same __name__/__doc__/__code__, "
    "hence the same keys) for the duration of a memo case",
    "hashfile: a rewrite with identical size AND identical mtime_ns is outside the "
    "documented key (path, mtime, size) and is never generated; blocksize=0 is "
    "not generated",
    "dict-format trace/contour containers hold the caller's own arrays (storage, "
    "not a cache) and are not part of the aliasing check",
]

# ===========================================================================
# helpers
# ===========================================================================


def _same(a, b):
    """bitwise-level equality of results (tuples element-wise, NaN == NaN,
    dtype and shape included)"""
    if isinstance(a, (tuple, list)) or isinstance(b, (tuple, list)):
        if not (isinstance(a, (tuple, list)) and isinstance(b, (tuple, list))):
            return False
        return len(a) == len(b) and all(_same(x, y) for x, y in zip(a, b))
    a = np.asarray(a)
    b = np.asarray(b)
    return a.dtype == b.dtype and eqnan(a, b)


def _deep(a):
    if isinstance(a, (tuple, list)):
        return tuple(_deep(x) for x in a)
    return np.array(a, copy=True)


def _arrays(res):
    if isinstance(res, (tuple, list)):
        out = []
        for r in res:
            out += _arrays(r)
        return out
    return [res] if isinstance(res, np.ndarray) else []


def _short(res):
    if isinstance(res, (tuple, list)):
        return "(" + ", ".join(_short(r) for r in res) + ")"
    a = np.asarray(res)
    return f"{a.dtype}{list(a.shape)}:{a.ravel()[:6].tolist()}"


def _modify(arr, how):
    """in-place modification through the array handed out; returns
    'readonly' | 'changed' | 'unchanged'"""
    before = np.array(arr, copy=True)
    try:
        if arr.size == 0:
            return "unchanged"
        if how == 0:                      # every element
            if arr.dtype == bool:
                np.logical_not(arr, out=arr)
            else:
                arr += 1
        elif how == 1:                    # first element only
            idx = (0,) * arr.ndim
            arr[idx] = (not arr[idx]) if arr.dtype == bool else arr[idx] + 3
        else:                             # slice assignment of the reverse
            if arr.ndim:
                arr[...] = before[::-1]
            if eqnan(arr, before):
                if arr.dtype == bool:
                    np.logical_not(arr, out=arr)
                else:
                    arr *= 2
                    if eqnan(arr, before):
                        arr += 1
    except ValueError as e:
        if "read-only" in str(e) or "not writeable" in str(e):
            return "readonly"
        raise
    return "unchanged" if eqnan(arr, before) else "changed"


def _restore(arr, pristine):
    try:
        arr[...] = pristine
    except ValueError:
        pass


@contextlib.contextmanager
def _empty_global_cache():
    """evaluate something with an empty Cache without losing the history's
    cache content"""
    saved = Cache._cache, Cache._keys
    Cache._cache, Cache._keys = {}, []
    try:
        yield
    finally:
        Cache._cache, Cache._keys = saved


def _outcome(fn):
    try:
        return ("ok", fn())
    except Exception as e:  # noqa  (BaseException subclasses propagate)
        return ("exc", e)


# ===========================================================================
# memo machine
# ===========================================================================

FUNCS = ["kde_histogram", "kde_gauss", "kde_multivariate", "downsample_grid"]
KDE_VARS = ["plain", "out", "resplit", "i8view", "strided", "negstride",
            "xout2d", "f4", "i8view-out"]
DS_VARS = ["plain", "i8view", "strided", "negstride", "f4"]
N_PARS = {"kde_histogram": 8, "kde_gauss": 1, "kde_multivariate": 3,
          "downsample_grid": 24}
# incl. tuples whose items concatenate identically ((5, 55) / (55, 5), (12, 3) / (1, 23))
BINS = [None, (5, 5), (7, 4), (12, 12), (5, 55), (55, 5), (12, 3), (1, 23)]
BWS = [None, (0.5, 0.5), (0.3, 1.2)]
BURST_BASE = 100000


class _CountingProxy:
    """transparent stand-in for Cache.func: same identity attributes (so the
    keys are unchanged), counts invocations"""

    def __init__(self, f):
        functools.update_wrapper(self, f)
        self.__code__ = f.__code__
        self._f = f
        self.calls = 0

    def __call__(self, *a, **k):
        self.calls += 1
        return self._f(*a, **k)


def _cache_instance(name):
    if name == "downsample_grid":
        obj = ddown.downsample_grid
        return obj if isinstance(obj, Cache) else None
    pub = getattr(dkde, name)
    if isinstance(pub, Cache):
        return pub
    for cell in (getattr(pub, "__closure__", None) or ()):
        try:
            if isinstance(cell.cell_contents, Cache):
                return cell.cell_contents
        except ValueError:
            pass
    return None


def _family(seed, fam):
    fam = int(fam)
    r = np.random.default_rng([int(seed) % (2 ** 32), fam])
    if fam >= BURST_BASE:
        n, m, mode = 4, 2, "normal"
    else:
        n = int(r.integers(4, 21))
        m = int(r.integers(2, 7))
        mode = ["normal", "normal", "dup", "nan", "wide"][int(r.integers(0, 5))]
    B = r.normal(size=2 * n + 2 * m)
    if mode == "dup":
        B = np.round(B * 2) / 2
    elif mode == "wide":
        B = B * 1e3 + 50
    elif mode == "nan":
        i, j = r.integers(0, 2 * n, size=2)
        B[i] = np.nan
        B[j] = np.inf
    return n, m, B


def _interleave(v, junk):
    big = np.empty(2 * v.size, dtype=v.dtype)
    big[::2] = v
    big[1::2] = junk
    return big


def _build_arrays(seed, fam, var):
    """(x, y, xo, yo) freshly allocated; identical layout on every call"""
    n, m, B = _family(seed, fam)
    x = B[:n].copy()
    y = B[n:2 * n].copy()
    xo = yo = None
    if var in ("out", "xout2d", "i8view-out"):
        xo = B[2 * n:2 * n + m].copy()
        yo = B[2 * n + m:].copy()
        if var == "xout2d":
            shp = (m // 2, 2) if m % 2 == 0 else (1, m)
            xo = xo.reshape(shp)
            yo = yo.reshape(shp)
    elif var == "resplit":
        n2, m2 = n + 1, m - 1
        x = B[:n2].copy()
        y = B[n2:2 * n2].copy()
        xo = B[2 * n2:2 * n2 + m2].copy()
        yo = B[2 * n2 + m2:].copy()
    if var in ("i8view", "i8view-out"):
        x = x.view(np.int64)
        y = y.view(np.int64)
        if xo is not None:
            xo = xo.view(np.int64)
            yo = yo.view(np.int64)
    elif var == "strided":
        x = _interleave(x, x[::-1] + 1)[::2]
        y = _interleave(y, y[::-1] - 1)[::2]
    elif var == "negstride":
        x = x[::-1].copy()[::-1]
        y = y[::-1].copy()[::-1]
    elif var == "f4":
        x = x.astype(np.float32)
        y = y.astype(np.float32)
    return x, y, xo, yo


def _build_call(seed, fam, var, func, par, style):
    """-> (args, kwargs) for the public memoised callable"""
    x, y, xo, yo = _build_arrays(seed, fam, var)
    if func == "downsample_grid":
        n = x.size
        samples = [0, 1, n // 2, n - 1, n, 3][par % 6]
        rminv = bool((par // 6) % 2)
        ridx = bool((par // 12) % 2)
        if style == 0:
            return (x, y, samples, rminv, ridx), {}
        if style == 1:
            return (x, y), {"samples": samples, "remove_invalid": rminv,
                            "ret_idx": ridx}
        kw = {}
        if rminv:
            kw["remove_invalid"] = True
        if ridx:
            kw["ret_idx"] = True
        return (x, y, samples), kw
    extra_name, extra = None, None
    if func == "kde_histogram":
        extra_name, extra = "bins", BINS[par % len(BINS)]
    elif func == "kde_multivariate":
        extra_name, extra = "bw", BWS[par % 3]
    if style == 0:
        if extra is not None:
            return (x, y, xo, yo, extra), {}
        if xo is not None:
            return (x, y, xo, yo), {}
        return (x, y), {}
    if style == 1:
        kw = {}
        if xo is not None:
            kw.update(xout=xo, yout=yo)
        if extra is not None:
            kw[extra_name] = extra
        return (x, y), kw
    kw = {"events_x": x, "events_y": y}
    if xo is not None:
        kw.update(xout=xo, yout=yo)
    if extra is not None:
        kw[extra_name] = extra
    return (), kw


def _bad(a, b):
    return np.isnan(a) | np.isinf(a) | np.isnan(b) | np.isinf(b)


def _fresh_kde(raw, events_x, events_y, xout=None, yout=None, *args, **kwargs):
    """independent transcription of the documented nan/inf filter: invalid
    input events are ignored, invalid output positions become nan"""
    bad_in = _bad(events_x, events_y)
    if xout is None:
        out = np.zeros(np.shape(events_x), dtype=np.float64)
        bad_out = bad_in
        xo = yo = None
    else:
        out = np.zeros(np.shape(xout), dtype=np.float64)
        bad_out = _bad(xout, yout)
        xo = xout[~bad_out]
        yo = yout[~bad_out]
    val = raw(events_x[~bad_in], events_y[~bad_in], xo, yo, *args, **kwargs)
    out[~bad_out] = val
    out[bad_out] = np.nan
    return out


def _keys(func, par, style, args, kwargs):
    """(stream key, ideal key): the stream key identifies calls whose raw
    argument bytes + text arguments coincide (what a key built from raw bytes
    alone cannot tell apart); the ideal key also holds dtype and size."""
    arrs = [a for a in args if isinstance(a, np.ndarray)]
    arrs += [kwargs[k] for k in ("events_x", "events_y", "xout", "yout")
             if isinstance(kwargs.get(k), np.ndarray)]
    raw = b"".join(np.ascontiguousarray(a).tobytes() for a in arrs)
    if func == "downsample_grid":
        # text arguments differ between the passing styles -> keys differ
        samples = args[2] if len(args) > 2 else kwargs["samples"]
        skey = (func, par // 6, samples, style, hashlib.md5(raw).hexdigest())
    else:
        # the nan/inf wrapper passes events/xout/yout positionally; only the
        # extra argument (bins / bw) keeps its passing style
        extra = BINS[par % len(BINS)] if func == "kde_histogram" else (
            BWS[par % 3] if func == "kde_multivariate" else None)
        how = "none" if extra is None else ("pos" if style == 0 else "kw")
        skey = (func, extra, None, how, hashlib.md5(raw).hexdigest())
    ikey = skey + tuple((a.dtype.str, a.size) for a in arrs)
    return skey, ikey


def _run_memo(spec, rec):
    seed = spec["seed"]
    insts = {f: _cache_instance(f) for f in FUNCS}
    proxies = {}
    old_max = dcached.MAX_SIZE
    dcached.MAX_SIZE = int(spec["maxsize"])
    try:
        for f, inst in insts.items():
            if inst is not None:
                proxies[f] = _CountingProxy(inst.func)
                inst.func = proxies[f]
        _memo_history(spec, rec, seed, insts, proxies)
    finally:
        for f, inst in insts.items():
            if inst is not None and f in proxies:
                inst.func = proxies[f]._f
        dcached.MAX_SIZE = old_max


def _memo_history(spec, rec, seed, insts, proxies):
    maxsize = int(spec["maxsize"])
    seen_stream = {}     # stream key -> set of ideal keys called so far
    seen_ideal = set()
    seen_ok = set()
    seen_famfunc = {}    # (fam, var) -> set of funcs
    seen_parfam = {}     # (fam, var, func, style) -> set of par
    layouts = {}         # (fam, func, par, style) -> set of vars
    recent = []          # [(callspec, result)]
    distinct_since_start = set()
    ncalls = [0]
    nontrivial = [False]

    def public(func):
        return ddown.downsample_grid if func == "downsample_grid" \
            else getattr(dkde, func)

    def fresh(func, cs):
        args, kwargs = _build_call(seed, *cs)
        px = proxies.get(func)
        if px is None:
            with _empty_global_cache():
                return public(func)(*args, **kwargs)
        if func == "downsample_grid":
            return px._f(*args, **kwargs)
        return _fresh_kde(px._f, *args, **kwargs)

    def do_call(fam, var, func, par, style, repeat, origin="call"):
        cs = (fam, var, func, par, style)
        args, kwargs = _build_call(seed, *cs)
        skey, ikey = _keys(func, par, style, args, kwargs)
        others = seen_stream.get(skey, set()) - {ikey}
        coll = None
        if others:
            mine = ikey[5:]
            if any(tuple(d for d, _ in o[5:]) != tuple(d for d, _ in mine)
                   for o in others):
                coll = "dtype"
            else:
                coll = "split"
        noncontig = any(isinstance(a, np.ndarray) and not a.flags.c_contiguous
                        for a in list(args) + list(kwargs.values()))
        was_called = ikey in seen_ok
        px = proxies.get(func)
        c0 = px.calls if px else None
        got = _outcome(lambda: public(func)(*args, **kwargs))
        invoked = (px.calls - c0) if px else None
        exp = _outcome(lambda: fresh(func, cs))
        ncalls[0] += 1
        if ncalls[0] % 50 == 0 and exp[0] == "ok":
            again = _outcome(lambda: fresh(func, cs))
            if not (again[0] == "ok" and _same(again[1], exp[1])):
                from ..runner import HarnessAbort
                raise HarnessAbort("fresh computation is not deterministic "
                                   f"for {cs}")
        # ---- classes
        rec.cls(f"memo:func:{func}")
        if coll:
            rec.cls(f"memo:sibling-{coll}")
            nontrivial[0] = True
        if var in ("strided", "negstride"):
            rec.cls("memo:layout-noncontiguous")
            if len(layouts.get((fam, func, par, style), set())
                   & {"plain"}):
                nontrivial[0] = True
        if var == "xout2d":
            rec.cls("memo:xout-2d")
        if was_called and invoked:
            rec.cls("memo:recall-after-eviction")
            nontrivial[0] = True
            if maxsize >= 100:
                rec.cls("memo:default-capacity-overflow")
        if was_called and invoked == 0:
            rec.cls("memo:hit")
        if seen_famfunc.get((fam, var), set()) - {func}:
            rec.cls("memo:cross-function")
        if seen_parfam.get((fam, var, func, style), set()) - {par}:
            rec.cls("memo:param-differs")
        if style and origin == "call":
            rec.cls("memo:keyword-style")
        if exp[0] == "exc":
            rec.skip("memo:fresh-raises:" + type(exp[1]).__name__)
        # ---- signature of this call's input class
        if coll:
            sig = f"value/bytes-collision-{coll}"
        elif origin == "mut":
            sig = f"alias/{func}/result-mutated"
        elif (noncontig and func == "downsample_grid" and got[0] == "exc"
              and isinstance(got[1], ValueError) and exp[0] == "ok"):
            sig = "raises/downsample_grid/noncontiguous-arg"
        else:
            sig = f"value/{func}/{var}"
        # ---- oracle
        if exp[0] == "ok" and got[0] == "ok":
            rec.check(_same(got[1], exp[1]), sig,
                      lambda: f"{func} {cs}: memoised call returned "
                              f"{_short(got[1])}, fresh computation gives "
                              f"{_short(exp[1])}")
        elif exp[0] == "ok":
            rec.check(False, sig,
                      lambda: f"{func} {cs}: memoised call raised "
                              f"{type(got[1]).__name__}: {got[1]}; the fresh "
                              f"computation returns {_short(exp[1])}")
        elif got[0] == "ok":
            rec.check(False, sig,
                      lambda: f"{func} {cs}: memoised call returned "
                              f"{_short(got[1])}; the fresh computation raises "
                              f"{type(exp[1]).__name__}")
        else:
            rec.check(type(got[1]) is type(exp[1]), sig,
                      lambda: f"{func} {cs}: memoised call raised "
                              f"{type(got[1]).__name__}, fresh computation "
                              f"{type(exp[1]).__name__}")
        # ---- store invariants
        rec.check(len(Cache._cache) <= maxsize
                  and len(Cache._keys) == len(Cache._cache)
                  and set(Cache._keys) == set(Cache._cache),
                  "store/bounded-and-consistent",
                  lambda: f"after {ncalls[0]} calls: {len(Cache._cache)} stored "
                          f"results, {len(Cache._keys)} keys, capacity {maxsize}")
        # ---- an immediate repetition is served from the store
        if repeat and got[0] == "ok" and px is not None:
            c1 = px.calls
            got2 = _outcome(lambda: public(func)(*args, **kwargs))
            rec.check(px.calls == c1, f"hit/immediate-repeat/{func}",
                      lambda: f"{func} {cs}: the function was evaluated again "
                              f"on an immediate repetition ({len(Cache._keys)} "
                              f"keys stored, capacity {maxsize})")
            if got2[0] == "ok" and exp[0] == "ok":
                rec.check(_same(got2[1], exp[1]), sig,
                          lambda: f"{func} {cs}: repetition returned "
                                  f"{_short(got2[1])}, fresh {_short(exp[1])}")
            rec.cls("memo:immediate-repeat")
        # ---- bookkeeping
        seen_stream.setdefault(skey, set()).add(ikey)
        seen_ideal.add(ikey)
        if got[0] == "ok" and exp[0] == "ok":
            seen_ok.add(ikey)
        seen_famfunc.setdefault((fam, var), set()).add(func)
        seen_parfam.setdefault((fam, var, func, style), set()).add(par)
        layouts.setdefault((fam, func, par, style), set()).add(var)
        distinct_since_start.add(ikey)
        if got[0] == "ok" and origin == "call":
            recent.append((cs, got[1]))
            del recent[:-8]

    for op in spec["ops"]:
        kind = op[0]
        if kind == "call":
            _, fam, var, func, par, style, repeat = op
            func = FUNCS[func % 4]
            vs = DS_VARS if func == "downsample_grid" else KDE_VARS
            do_call(int(fam), vs[var % len(vs)], func, par % N_PARS[func],
                    style % 3, bool(repeat))
        elif kind == "burst":
            _, start, count, func = op
            func = FUNCS[func % 4]
            for i in range(int(count)):
                do_call(BURST_BASE + int(start) + i, "plain", func, 0, 0,
                        i == count - 1, origin="burst")
            rec.cls("memo:burst")
        elif kind == "mut":
            _, back, how = op
            if not recent:
                rec.skip("memo:mut-without-result")
                continue
            cs, res = recent[-1 - (back % len(recent))]
            arrs = _arrays(res)
            pristine = [np.array(a, copy=True) for a in arrs]
            states = [_modify(a, how % 3) for a in arrs]
            if "changed" in states:
                rec.cls("memo:mutated-recall")
                nontrivial[0] = True
                do_call(*cs, False, origin="mut")
                for a, p in zip(arrs, pristine):
                    _restore(a, p)
            elif states and all(s == "readonly" for s in states):
                rec.cls("memo:result-readonly")
            else:
                rec.skip("memo:mut-no-change")
    if nontrivial[0]:
        rec.nontrivial()


# ---- strategy

_SIB_KDE = [(0, 3), (3, 0), (1, 2), (2, 1), (0, 4), (4, 0), (1, 6), (6, 1),
            (0, 5), (1, 8), (8, 1), (0, 7)]
_SIB_DS = [(0, 1), (1, 0), (0, 2), (2, 0), (0, 3), (0, 4)]


@st.composite
def _st_scene(draw, maxsize):
    fam = draw(st.integers(0, 5))
    func = draw(st.sampled_from([0, 0, 1, 2, 3, 3]))
    par = draw(st.integers(0, 23))
    style = draw(st.sampled_from([0, 0, 1, 2]))
    rep = draw(st.booleans())
    which = draw(st.sampled_from(
        ["sibling", "sibling", "cross", "mutate", "evict", "evict", "params",
         "tuplepair", "random"]))
    if which == "tuplepair":
        # same data, tuple-valued `bins` whose items concatenate identically
        # ((5, 55) / (55, 5), (12, 3) / (1, 23)): must not share a cache entry
        var = draw(st.integers(0, 8))
        pa, pb = draw(st.sampled_from([(4, 5), (5, 4), (6, 7), (7, 6)]))
        sty = draw(st.sampled_from([0, 1, 2]))
        return [["call", fam, var, 0, pa, sty, False],
                ["call", fam, var, 0, pb, sty, rep]]
    if which == "sibling":
        a, b = draw(st.sampled_from(_SIB_DS if func == 3 else _SIB_KDE))
        return [["call", fam, a, func, par, style, rep],
                ["call", fam, b, func, par, style, draw(st.booleans())]]
    if which == "cross":
        var = draw(st.integers(0, 8))
        f2 = draw(st.integers(0, 2))
        return [["call", fam, var, func % 3, 0, style, False],
                ["call", fam, var, f2, 0, style, rep]]
    if which == "mutate":
        var = draw(st.integers(0, 8))
        return [["call", fam, var, func, par, style, rep],
                ["mut", 0, draw(st.integers(0, 2))]]
    if which == "evict":
        var = draw(st.integers(0, 8))
        cnt = maxsize + draw(st.integers(0, 3)) - draw(st.sampled_from([0, 0, 1, 2]))
        return [["call", fam, var, func, par, style, False],
                ["burst", 0, max(1, cnt),
                 draw(st.sampled_from([3, 3, 0, 1, 2]))],
                ["call", fam, var, func, par, style, rep]]
    if which == "params":
        var = draw(st.integers(0, 8))
        sty = draw(st.sampled_from([1, 2]))
        par2 = draw(st.integers(0, 23))
        if draw(st.booleans()):
            # same `samples`, the two boolean flags exchanged
            par2 = par % 6 + 6 * ((par // 12) % 2) + 12 * ((par // 6) % 2)
        return [["call", fam, var, func, par, sty, False],
                ["call", fam, var, func, par2, sty, rep]]
    return [["call", fam, draw(st.integers(0, 8)), func, par, style, rep]]


@st.composite
def _st_memo(draw, tier):
    maxsize = draw(st.sampled_from([100, 100, 3, 6, 12]))
    nscene = draw(st.integers(2, 14 if maxsize < 100 else 8))
    ops = []
    for _ in range(nscene):
        ops += draw(_st_scene(maxsize))
    # interleave: a mild shuffle keeps scenes mostly intact but lets
    # different scenes overlap
    if draw(st.booleans()) and len(ops) > 3:
        i = draw(st.integers(0, len(ops) - 2))
        j = draw(st.integers(0, len(ops) - 2))
        ops[i], ops[j] = ops[j], ops[i]
    # bursts use disjoint member ranges (every burst inserts `count` new keys)
    # and at most ~240 burst calls per history
    out, nb, total = [], 0, 0
    for op in ops:
        if op[0] == "burst":
            if total + op[2] > 240:
                continue
            op = ["burst", 200 * nb, op[2], op[3]]
            nb += 1
            total += op[2]
        out.append(op)
    return {"kind": "memo", "seed": draw(st.integers(0, 10 ** 6)),
            "maxsize": maxsize, "ops": out}


# ===========================================================================
# hashfile machine
# ===========================================================================

BLOCKS = [1, 7, 64, 65536]
CTORS = ["md5", "sha1"]
T0 = 1_600_000_000_000_000_000


def _content(seed, size):
    return np.random.default_rng(int(seed) % (2 ** 32)).integers(
        0, 256, size=int(size), dtype=np.uint8).tobytes()


def _run_hash(spec, rec):
    d = boot.casedir()
    try:
        _hash_history(spec, rec, d)
    finally:
        boot.rmcase(d)


def _hash_history(spec, rec, d):
    nfiles = spec["files"]
    # adversarially similar files: same name, same initial mtime (and often the
    # same size) in different directories -> only the path tells them apart
    for i in range(nfiles):
        (d / f"dir{i}" / "sub").mkdir(parents=True)
    paths = [d / f"dir{i}" / "data.bin" for i in range(nfiles)]
    content = [None] * nfiles
    mtime = [T0] * nfiles
    changed = [False] * nfiles
    hashed = [set() for _ in range(nfiles)]
    coarse = [False]
    nontrivial = [False]
    ncalls_since = [0] * nfiles

    states = [dict() for _ in range(nfiles)]   # (mtime, size) -> content seen

    def put(i, data, step, keep_mtime=False):
        paths[i].write_bytes(data)
        if not keep_mtime:
            mtime[i] += step
        # The documented cache key is (path, mtime, size, arguments): a state with
        # the same mtime *and* size as an earlier state of this file but other
        # content cannot be told apart by design -> outside the contract; move the
        # modification time on instead (counted).
        prev = states[i].get((mtime[i], len(data)))
        if prev is not None and prev != data:
            mtime[i] += 1000
            rec.skip("hash:same-mtime-and-size-as-earlier-state-avoided")
        states[i][(mtime[i], len(data))] = data
        os.utime(paths[i], ns=(mtime[i], mtime[i]))
        if paths[i].stat().st_mtime_ns != mtime[i]:
            coarse[0] = True
        if content[i] is not None and content[i] != data:
            changed[i] = True
        content[i] = data

    for i in range(nfiles):
        put(i, _content(spec["seed"] + i, spec["sizes"][i % len(spec["sizes"])]), 0)
        os.symlink(paths[i], d / f"dir{i}" / "link.bin")

    def do_hash(i, bsel, count, csel, pstyle, argstyle, origin="hash"):
        bs = BLOCKS[bsel % len(BLOCKS)] if isinstance(bsel, int) and bsel < 100 \
            else bsel - 100 + 1
        ctor = getattr(hashlib, CTORS[csel % 2])
        p = paths[i]
        arg = [str(p), p, p.parent / "sub" / ".." / p.name,
               p.parent / "link.bin"][pstyle % 4]
        if coarse[0]:
            rec.skip("hash:filesystem-mtime-too-coarse")
            return
        data = content[i]
        key = (bs, count, csel % 2)
        if argstyle == 0:
            kw = {"blocksize": bs, "count": count}
            if csel % 2:
                kw["constructor"] = ctor
            got = _outcome(lambda: dutil.hashfile(arg, **kw))
            cls = "keyword-args"
        elif argstyle == 1:
            got = _outcome(lambda: dutil.hashfile(arg))
            bs, count, ctor, key = 65536, 0, hashlib.md5, (65536, 0, 0)
            cls = "default-args"
        else:
            got = _outcome(lambda: dutil.hashfile(arg, bs, count))
            ctor, key = hashlib.md5, (bs, count, 0)
            cls = "positional-args"
        rec.cls(f"hash:{cls}")
        if data is None:
            rec.cls("hash:missing-file")
            rec.check(got[0] == "exc" and isinstance(got[1], FileNotFoundError),
                      f"hashfile/missing-file/{cls}",
                      lambda: f"deleted file: expected FileNotFoundError, got {got}")
            return
        part = data[:bs * count] if count else data
        exp = ctor(part).hexdigest()
        if key in hashed[i] and changed[i]:
            rec.cls("hash:changed-content-recall")
            nontrivial[0] = True
        hist = "content-changed" if changed[i] else "unchanged"
        if got[0] == "exc":
            if cls == "positional-args" and isinstance(got[1], TypeError):
                sig = "raises/hashfile/positional-args"
            else:
                sig = f"raises/hashfile/{cls}"
            rec.check(False, sig,
                      lambda: f"hashfile({arg.__class__.__name__}, blocksize={bs}, "
                              f"count={count}) [{cls}] raised "
                              f"{type(got[1]).__name__}: {got[1]}; the "
                              f"undecorated function returns {exp}")
        else:
            rec.check(got[1] == exp, f"hashfile/{hist}/{cls}",
                      lambda: f"hashfile(blocksize={bs}, count={count}, "
                              f"{CTORS[csel % 2]}) = {got[1]}, direct digest of "
                              f"the current {len(data)} bytes = {exp}")
        hashed[i].add(key)

    for op in spec["ops"]:
        kind = op[0]
        i = op[1] % nfiles
        if kind == "hash":
            do_hash(i, op[2], op[3], op[4], op[5], op[6])
        elif kind == "rewrite":            # same size, new content, mtime + step
            if content[i] is None:
                put(i, _content(op[2], 10), 10 ** 9)
                continue
            new = _content(op[2], len(content[i]))
            if new == content[i] and new:
                new = bytes([new[0] ^ 1]) + new[1:]
            put(i, new, [1, 1000, 10 ** 9][op[3] % 3])
            rec.cls("hash:rewrite-same-size")
        elif kind == "resize":             # other size, mtime restored
            if content[i] is None:
                continue
            extra = _content(op[2], 1 + op[3] % 9)
            new = content[i] + extra if op[3] % 2 or len(content[i]) < 2 \
                else content[i][:-1]
            if op[3] % 4 == 0 and len(content[i]) > 1:
                # different content as well
                new = _content(op[2] + 1, len(new))
            put(i, new, 0, keep_mtime=True)
            rec.cls("hash:size-change-same-mtime")
        elif kind == "touch":
            if content[i] is None:
                continue
            put(i, content[i], [1, 1000, 10 ** 9][op[2] % 3])
        elif kind == "delete":
            if content[i] is not None:
                paths[i].unlink()
                content[i] = None
                changed[i] = True
        elif kind == "burst":
            if content[i] is None:
                continue
            for k in range(int(op[2])):
                do_hash(i, 100 + k, 1 + k % 3, 0, 1, 0, origin="burst")
            if op[2] > 100:
                rec.cls("hash:lru-overflow")
                nontrivial[0] = True
    if nontrivial[0]:
        rec.nontrivial()


@st.composite
def _st_hash(draw, tier):
    nfiles = draw(st.integers(1, 3))
    sizes = draw(st.lists(st.sampled_from([0, 1, 6, 7, 8, 14, 63, 64, 65, 200, 448]),
                          min_size=1, max_size=3))
    fi = st.integers(0, 2)

    def hash_op():
        return st.tuples(st.just("hash"), fi, st.integers(0, 3),
                         st.sampled_from([0, 0, 1, 2, 3, 20]), st.integers(0, 1),
                         st.integers(0, 3), st.sampled_from([0, 0, 0, 1, 2]))
    scenes = []
    for _ in range(draw(st.integers(2, 10))):
        which = draw(st.sampled_from(["hash", "rw", "rw", "resize", "touch",
                                      "delete", "burst"]))
        h = list(draw(hash_op()))
        if which == "hash":
            scenes.append(h)
        elif which == "rw":
            scenes += [h, ["rewrite", h[1], draw(st.integers(0, 10 ** 6)),
                           draw(st.integers(0, 2))], h]
        elif which == "resize":
            scenes += [h, ["resize", h[1], draw(st.integers(0, 10 ** 6)),
                           draw(st.integers(0, 40))], h]
        elif which == "touch":
            scenes += [h, ["touch", h[1], draw(st.integers(0, 2))], h]
        elif which == "delete":
            scenes += [h, ["delete", h[1]], h,
                       ["rewrite", h[1], draw(st.integers(0, 10 ** 6)), 2], h]
        else:
            scenes += [h, ["burst", h[1], draw(st.sampled_from([5, 101, 120]))],
                       ["rewrite", h[1], draw(st.integers(0, 10 ** 6)),
                        draw(st.integers(0, 2))], h]
    return {"kind": "hash", "files": nfiles, "sizes": sizes,
            "seed": draw(st.integers(0, 10 ** 6)), "ops": scenes}


# ===========================================================================
# LazyContourList machine
# ===========================================================================

def _blob_masks(seed, n, h=10, w=12):
    r = np.random.default_rng([int(seed) % (2 ** 32), 77])
    m = np.zeros((n, h, w), dtype=bool)
    for i in range(n):
        y0 = int(r.integers(1, h - 5))
        x0 = int(r.integers(1, w - 5))
        hh = int(r.integers(2, 5))
        ww = int(r.integers(2, 5))
        m[i, y0:y0 + hh, x0:x0 + ww] = True
        # second overlapping rectangle (connected, hole free)
        y1 = y0 + int(r.integers(0, hh))
        x1 = x0 + int(r.integers(0, ww))
        m[i, y1:min(h - 1, y1 + int(r.integers(1, 4))),
          x1:min(w - 1, x1 + int(r.integers(1, 4)))] = True
    return m


def _run_contour(spec, rec):
    n = spec["n"]
    masks = _blob_masks(spec["seed"], n)
    truth = [dcontour.get_contour(masks[i].copy()) for i in range(n)]
    k = spec["max_events"]
    lcl = dcontour.LazyContourList(masks.copy(), max_events=k)
    order = []           # distinct-request history for the eviction class
    nontrivial = False

    def classify(i):
        nonlocal nontrivial
        ip = i % n
        if ip in order:
            pos = len(order) - 1 - order[::-1].index(ip)
            later = len(order) - 1 - pos
            if k and later >= k:
                rec.cls("contour:evicted-recall")
            else:
                rec.cls("contour:deque-hit")
            nontrivial = True
        order.append(ip)

    def check_inv():
        rec.check(len(lcl.contours) == len(lcl.indices)
                  and (not k or len(lcl.contours) <= k),
                  "contour/deque-bounded",
                  lambda: f"{len(lcl.contours)} contours / {len(lcl.indices)} "
                          f"indices kept, max_events={k}")

    for op in spec["ops"]:
        if op[0] == "get":
            i = op[1] % (2 * n) - n          # -n .. n-1
            classify(i)
            got = lcl[i]
            rec.check(_same(got, truth[i % n]), "contour/value/index",
                      lambda: f"LazyContourList[{i}] (max_events={k}) returned a "
                              f"contour of {len(got)} points starting "
                              f"{np.asarray(got)[:3].tolist()}, get_contour(mask[{i}])"
                              f" has {len(truth[i % n])} points starting "
                              f"{truth[i % n][:3].tolist()}")
            check_inv()
        elif op[0] == "slice":
            a, b, s = op[1] % (n + 1), op[2] % (n + 1), [1, 2, -1][op[3] % 3]
            sl = slice(min(a, b), max(a, b), s) if s > 0 else slice(None, None, -1)
            idx = list(range(n))[sl]
            for i in idx:
                classify(i)
            got = lcl[sl]
            rec.check(len(got) == len(idx)
                      and all(_same(g, truth[i]) for g, i in zip(got, idx)),
                      "contour/value/slice",
                      lambda: f"LazyContourList[{sl}] (max_events={k}) differs "
                              f"from get_contour on the same masks")
            check_inv()
        elif op[0] == "mut":
            i = op[1] % n
            classify(i)
            got = lcl[i]
            keep = np.array(got, copy=True)
            state = _modify(got, op[2] % 3)
            if state == "changed":
                again = lcl[i]
                rec.cls("contour:modified-reread")
                nontrivial = True
                rec.check(_same(again, truth[i]), "alias/lazy-contour",
                          lambda: f"contour {i} was modified in place through the "
                                  f"array returned by LazyContourList[{i}]; the "
                                  f"next LazyContourList[{i}] returns the modified"
                                  f" data {np.asarray(again)[:2].tolist()} instead"
                                  f" of {truth[i][:2].tolist()}")
                _restore(got, keep)
            elif state == "readonly":
                rec.cls("contour:readonly")
    if nontrivial:
        rec.nontrivial()


@st.composite
def _st_contour(draw, tier):
    n = draw(st.integers(2, 9))
    ops = draw(st.lists(st.one_of(
        st.tuples(st.just("get"), st.integers(0, 40)),
        st.tuples(st.just("get"), st.integers(0, 3)),
        st.tuples(st.just("slice"), st.integers(0, 9), st.integers(0, 9),
                  st.integers(0, 2)),
        st.tuples(st.just("mut"), st.integers(0, 9), st.integers(0, 2)),
    ), min_size=4, max_size=40))
    return {"kind": "contour", "seed": draw(st.integers(0, 10 ** 6)), "n": n,
            "max_events": draw(st.sampled_from([1, 2, 2, 3, 3, 5, 0])),
            "ops": [list(o) for o in ops]}


# ===========================================================================
# dataset machine
# ===========================================================================

VIEWS = ["hdf5", "dict", "child", "gchild", "dchild", "basin", "mapped"]
FEATS = ["deform", "area_um", "aspect", "index", "image", "mask", "trace",
         "contour"]
TEMP = "vf_temp"
KIND = {TEMP: "scalar-temp", "deform": "scalar-innate", "area_um": "scalar-innate",
        "aspect": "scalar-anc", "index": "scalar-index", "image": "image",
        "mask": "mask", "trace": "trace", "contour": "contour-anc"}
VIEW_FEATS = {
    "hdf5": FEATS, "dict": ["deform", "area_um", "aspect", "index", "image",
                            "mask", "contour"],
    "child": FEATS, "gchild": FEATS,
    "dchild": ["deform", "area_um", "aspect", "index", "image", "mask", "contour"],
    "basin": ["deform", "area_um", "image", "mask", "trace", "contour"],
    "mapped": ["deform", "area_um", "image", "mask", "contour"],
}
for _v in ("hdf5", "dict", "child", "gchild", "dchild"):
    # appended: the existing feature selectors keep their meaning modulo the length
    VIEW_FEATS[_v] = list(VIEW_FEATS[_v]) + [TEMP]
TEMP_ROOT = {"hdf5": "hdf5", "child": "hdf5", "gchild": "hdf5", "dict": "dict",
             "dchild": "dict"}
API = ["kde_scatter", "kde_scatter_pos", "kde_contour", "downsampled",
       "downsampled_mask"]


def _ds_data(seed, n):
    r = np.random.default_rng([int(seed) % (2 ** 32), 5])
    return {
        "deform": r.uniform(0.01, 0.2, n),
        "area_um": r.uniform(20, 200, n),
        "size_x": r.uniform(5, 30, n),
        "size_y": r.uniform(5, 30, n),
        "image": r.integers(0, 255, size=(n, 10, 12), dtype=np.uint8),
        "mask": _blob_masks(seed, n),
        "fl1_raw": r.integers(-100, 100, size=(n, 16)).astype(np.int16),
    }


def _alias_sig(view, feat):
    kind = KIND[feat]
    if kind == "contour-anc":
        return "alias/lazy-contour"
    if view in ("child", "gchild", "dchild"):
        if kind == "scalar-index":
            return "alias/child-index"
        if kind.startswith("scalar"):
            return "alias/child-scalar"
    if view in ("hdf5", "basin") and kind == "scalar-innate":
        return "alias/h5-scalar"
    return f"alias/{view}/{kind}"


def _run_ds(spec, rec):
    d = boot.casedir()
    opened = []
    try:
        with chunk_bytes(spec["chunk"]), quiet():
            _ds_history(spec, rec, d, opened)
    finally:
        for o in opened[::-1]:
            try:
                o.close()
            except Exception:  # noqa
                pass
        boot.rmcase(d)


def _ds_history(spec, rec, d, opened):
    n = spec["n"]
    data = _ds_data(spec["seed"], n)
    truth_contour = {}
    p = d / "a.rtdc"
    with RTDCWriter(p) as hw:
        hw.store_metadata(meta())
        for f in ("deform", "area_um", "size_x", "size_y", "image", "mask"):
            hw.store_feature(f, data[f])
        hw.store_feature("trace", {"fl1_raw": data["fl1_raw"]})
    fmask = np.array([spec["fmask"][i % len(spec["fmask"])] for i in range(n)],
                     dtype=bool)
    if fmask.sum() < 3:
        fmask[:3] = True
    bmap = np.array([b % n for b in spec["bmap"]], dtype=np.uint64)
    views = {}
    index = {}
    needed = {VIEWS[op[1] % len(VIEWS)] for op in spec["ops"]}

    def open_view(v):
        if v in views:
            return
        if v == "hdf5":
            views[v] = dclab.new_dataset(p)
            opened.append(views[v])
            index[v] = np.arange(n)
        elif v == "dict":
            dd = {k: data[k].copy() for k in
                  ("deform", "area_um", "size_x", "size_y", "image", "mask")}
            views[v] = dclab.new_dataset(dd)
            views[v].config["imaging"]["pixel size"] = 0.34
            opened.append(views[v])
            index[v] = np.arange(n)
        elif v in ("child", "dchild"):
            par = "hdf5" if v == "child" else "dict"
            open_view(par)
            views[par].filter.manual[:] = fmask
            views[par].apply_filter()
            views[v] = dclab.new_dataset(views[par])
            index[v] = np.flatnonzero(fmask)
        elif v == "gchild":
            open_view("child")
            ch = views["child"]
            ch.filter.manual[0] = False
            ch.apply_filter()
            views[v] = dclab.new_dataset(ch)
            index[v] = index["child"][1:]
        else:
            ref = d / f"{v}.rtdc"
            m = meta()
            if v == "mapped":
                m["experiment"]["run identifier"] = "vf-rid-1-sub"
            nref = len(bmap) if v == "mapped" else n
            m["experiment"]["event count"] = nref
            with RTDCWriter(ref) as hw:
                hw.store_metadata(m)
                hw.store_feature("userdef0", np.arange(nref, dtype=float))
                hw.store_basin(basin_name="b", basin_type="file",
                               basin_format="hdf5", basin_locs=[str(p)],
                               basin_map=bmap if v == "mapped" else None)
            views[v] = dclab.new_dataset(ref)
            opened.append(views[v])
            index[v] = bmap.astype(int) if v == "mapped" else np.arange(n)

    # open in a fixed order so that the parent filters are final before any read
    for v in VIEWS:
        if v in needed:
            open_view(v)
    nontrivial = False
    was_read, stale = set(), set()

    temp_root = {}
    temp_set_after_read = set()
    if any(op[0] == "temp" for op in spec["ops"]):
        feat_temp.register_temporary_feature(TEMP, is_scalar=True)

    def truth(view, feat, sel):
        idx = index[view][sel]
        if feat == TEMP:
            return temp_root[TEMP_ROOT[view]][idx]
        if feat in ("deform", "area_um", "image", "mask"):
            return data[feat][idx]
        if feat == "trace":
            return data["fl1_raw"][idx]
        if feat == "contour":
            out = []
            for i in np.atleast_1d(idx):
                if int(i) not in truth_contour:
                    truth_contour[int(i)] = dcontour.get_contour(
                        data["mask"][int(i)].copy())
                out.append(truth_contour[int(i)])
            return out if np.ndim(idx) else out[0]
        return None

    for op in spec["ops"]:
        view = VIEWS[op[1] % len(VIEWS)]
        ds = views[view]
        nv = len(index[view])
        if op[0] == "read":
            _, _, fsel, asel, a, b, how = op
            feats = VIEW_FEATS[view]
            feat = feats[fsel % len(feats)]
            kind = KIND[feat]
            rec.cls(f"ds:view:{view}")
            rec.cls(f"ds:kind:{kind}")
            if (view, feat) in stale:
                rec.cls("ds:read-after-refilter")
                nontrivial = True
            if feat == TEMP and TEMP_ROOT[view] not in temp_root:
                rec.skip("ds:temp-not-set-yet")
                continue
            if (view, feat) in temp_set_after_read:
                rec.cls("ds:read-after-temp-replaced")
                nontrivial = True
            was_read_before = set(was_read)
            was_read.add((view, feat))
            if feat not in ds:
                rec.skip(f"ds:feature-not-offered:{view}:{feat}")
                continue
            lo, hi = sorted((a % (nv + 1), b % (nv + 1)))
            if kind.startswith("scalar"):
                acc = ["full", "slice", "asarray", "bool", "fancy", "asarray-f32",
                       "asarray-f32"][asel % 7]
            elif kind == "contour-anc":
                acc = ["item", "item", "list"][asel % 3] \
                    if view not in ("mapped", "basin") else "item"
            elif kind == "trace":
                acc = ["item", "slice"][asel % 2]
            else:
                acc = ["item", "full", "slice"][asel % 3]
            boolsel = np.zeros(nv, dtype=bool)
            boolsel[lo:hi] = True
            item = a % nv

            def get():
                obj = ds[feat]
                if feat == "trace":
                    obj = obj["fl1_raw"]
                if acc == "full":
                    return obj[:], slice(None)
                if acc in ("slice", "list"):
                    return obj[lo:hi], slice(lo, hi)
                if acc == "asarray":
                    return np.asarray(obj), slice(None)
                if acc == "asarray-f32":
                    # conversion requested by the caller (possibly as the very
                    # first access): must not leak into what later reads see
                    return np.asarray(obj, dtype=np.float32), slice(None)
                if acc == "bool":
                    return obj[boolsel], boolsel
                if acc == "fancy":
                    ii = np.arange(lo, hi)[::-1].copy()
                    return obj[ii], ii
                return obj[item], item

            first, sel = get()
            exp = truth(view, feat, sel)
            if exp is not None and acc == "asarray-f32":
                exp = np.asarray(exp).astype(np.float32)
                if (view, feat) not in was_read_before:
                    rec.cls("ds:first-access-with-dtype")
            if exp is not None:
                rec.check(_same(first, exp) if acc != "list"
                          else (len(first) == len(exp)
                                and all(_same(x, y) for x, y in zip(first, exp))),
                          f"read/{view}/{kind}/{acc}",
                          lambda: f"{view}[{feat!r}] ({acc} {sel}) differs from "
                                  f"the stored data")
            arrs = _arrays(first)
            if not arrs:
                rec.skip("ds:not-an-ndarray:" + type(first).__name__)
                continue
            keep = _deep(first)
            pristine = [np.array(x, copy=True) for x in arrs]
            states = [_modify(x, how % 3) for x in arrs]
            if "changed" in states:
                second, _ = get()
                rec.cls("ds:modified-reread")
                nontrivial = True
                ok = _same(second, keep) if acc != "list" else (
                    len(second) == len(keep)
                    and all(_same(x, y) for x, y in zip(second, keep)))
                rec.check(ok, _alias_sig(view, feat),
                          lambda: f"{view}[{feat!r}] read with access '{acc}' "
                                  f"({sel}), modified in place, read again: the "
                                  f"second read returns {_short(second)} instead "
                                  f"of {_short(keep)}")
                for x, pr in zip(arrs, pristine):
                    _restore(x, pr)
            elif states and all(s == "readonly" for s in states):
                rec.cls("ds:readonly")
            else:
                rec.skip("ds:modification-without-effect")
        elif op[0] == "temp":
            if view not in TEMP_ROOT:
                rec.skip("ds:temp-on-basin-view")
                continue
            arr = np.random.default_rng(op[2]).normal(size=nv)
            feat_temp.set_temporary_feature(ds, TEMP, arr.copy())
            root = TEMP_ROOT[view]
            if view == root:
                temp_root[root] = arr
            else:
                full = np.full(n, np.nan)
                full[index[view]] = arr
                temp_root[root] = full
            # a change made through the root or a middle level is seen by the levels
            # below after the documented refresh from the youngest member (a set
            # through the youngest member itself needs no further refresh)
            for ch in (("gchild", "child") if root == "hdf5" else ("dchild",)):
                if ch in views:
                    if ch != view:
                        views[ch].rejuvenate()
                    break
            rec.cls("ds:temp-set:" + ("root" if view == root else view))
            temp_set_after_read |= {k for k in was_read if k[1] == TEMP
                                    and TEMP_ROOT.get(k[0]) == root}
        elif op[0] == "refilter":
            if "gchild" in views:
                rec.skip("ds:refilter-with-grandchild")
                continue
            newmask = np.array([op[2][i % len(op[2])] for i in range(n)],
                               dtype=bool)
            if newmask.sum() < 3:
                newmask[-3:] = True
            did = False
            for par, ch in (("hdf5", "child"), ("dict", "dchild")):
                if ch in views:
                    views[par].filter.manual[:] = newmask
                    views[ch].rejuvenate()   # documented way to refresh a child
                    index[ch] = np.flatnonzero(newmask)
                    did = True
            if did:
                rec.cls("ds:refilter")
                stale |= {k for k in was_read if k[0] in ("child", "dchild")}
        elif op[0] == "api":
            _, _, wsel, ksel, dsamp, how = op
            if view in ("basin", "gchild", "dchild"):
                view = "hdf5" if "hdf5" in views else view
                ds = views[view]
                nv = len(index[view])
            which = API[wsel % len(API)]
            kt = ["histogram", "gauss", "multivariate"][ksel % 3]
            pos = (data["area_um"][:3] * 1.01, data["deform"][:3] * 0.99)

            def call():
                if which == "kde_scatter":
                    return ds.get_kde_scatter("area_um", "deform", kde_type=kt)
                if which == "kde_scatter_pos":
                    return ds.get_kde_scatter("area_um", "deform", kde_type=kt,
                                              positions=pos)
                if which == "kde_contour":
                    return ds.get_kde_contour("area_um", "deform", kde_type=kt)
                k = 1 + dsamp % max(1, nv - 1)
                return ds.get_downsampled_scatter(
                    "area_um", "deform", downsample=k,
                    ret_mask=(which == "downsampled_mask"))
            rec.cls("ds:api")
            rec.cls(f"ds:api:{which}")
            got = _outcome(call)
            with _empty_global_cache():
                exp = _outcome(call)
            if exp[0] == "exc" or got[0] == "exc":
                if exp[0] == "exc":
                    rec.skip("ds:api-raises-without-cache:"
                             + type(exp[1]).__name__)
                rec.check(got[0] == exp[0]
                          and type(got[1]) is type(exp[1]),
                          f"api/{which}/{view}",
                          lambda: f"{which} on {view}: {got} with the history's "
                                  f"cache, {exp} with an empty cache")
                continue
            rec.check(_same(got[1], exp[1]), f"api/{which}/{view}",
                      lambda: f"{which}({kt}) on {view}: {_short(got[1])} with the "
                              f"history's cache, {_short(exp[1])} with an empty one")
            keep = _deep(got[1])
            arrs = _arrays(got[1])
            pristine = [np.array(x, copy=True) for x in arrs]
            states = [_modify(x, how % 3) for x in arrs]
            if "changed" in states:
                again = _outcome(call)
                nontrivial = True
                rec.cls("ds:modified-reread")
                rec.check(again[0] == "ok" and _same(again[1], keep),
                          f"alias/api/{which}",
                          lambda: f"{which}({kt}) on {view}: result modified in "
                                  f"place, next call returns {again} instead of "
                                  f"{_short(keep)}")
                for x, pr in zip(arrs, pristine):
                    _restore(x, pr)
    if nontrivial:
        rec.nontrivial()


@st.composite
def _st_ds(draw, tier):
    n = draw(st.integers(5, 14))
    vs = st.sampled_from([0, 0, 1, 2, 2, 3, 4, 5, 5, 6, 6])

    def read(view=vs):
        return st.tuples(st.just("read"), view, st.integers(0, 7),
                         st.integers(0, 6), st.integers(0, 14),
                         st.integers(0, 14), st.integers(0, 2))
    api = st.tuples(st.just("api"), st.sampled_from([0, 1, 2, 6]),
                    st.integers(0, 4), st.integers(0, 2), st.integers(0, 12),
                    st.integers(0, 2))
    refilter = st.tuples(st.just("refilter"), st.just(0),
                         st.lists(st.booleans(), min_size=2, max_size=14))
    temp = st.tuples(st.just("temp"), st.sampled_from([0, 1, 2, 3, 3, 4]),
                     st.integers(0, 10 ** 6))
    # the temporary feature is the last entry of the view's feature list
    tread = st.tuples(st.just("read"), st.sampled_from([0, 2, 3, 3]), st.just(8),
                      st.integers(0, 6), st.integers(0, 14), st.integers(0, 14),
                      st.integers(0, 2))
    ops = []
    for _ in range(draw(st.integers(2, 9))):
        which = draw(st.sampled_from(["read", "read", "read", "api", "refilter",
                                      "temp"]))
        if which == "temp":
            # set (through any level), read through some levels, replace, read again
            ops += [draw(temp), draw(tread), draw(tread), draw(temp), draw(tread)]
        elif which == "read":
            ops.append(draw(read()))
        elif which == "api":
            ops.append(draw(api))
        else:
            # the same child feature before and after the parent filter changed
            r = draw(read(st.sampled_from([2, 4])))
            ops += [r, draw(refilter), r]
            if draw(st.booleans()):
                ops.append(draw(api))
    return {"kind": "ds", "seed": draw(st.integers(0, 10 ** 6)), "n": n,
            "chunk": draw(st.sampled_from([None, 100])),
            "fmask": draw(st.lists(st.booleans(), min_size=2, max_size=14)),
            "bmap": draw(st.lists(st.integers(0, 13), min_size=3, max_size=10)),
            "ops": [list(o) for o in ops]}


# ===========================================================================
# entry points
# ===========================================================================

def strategy(tier):
    return st.one_of(_st_memo(tier), _st_memo(tier), _st_memo(tier),
                     _st_hash(tier), _st_hash(tier), _st_contour(tier),
                     _st_ds(tier), _st_ds(tier), _st_ds(tier))


def run_case(spec, rec):
    kind = spec["kind"]
    rec.cls(f"machine:{kind}")
    if kind == "memo":
        _run_memo(spec, rec)
    elif kind == "hash":
        _run_hash(spec, rec)
    elif kind == "contour":
        _run_contour(spec, rec)
    else:
        _run_ds(spec, rec)


def sample_view(spec):
    s = dict(spec)
    ops = spec.get("ops", [])
    s["ops"] = ops[:12] + ([f"... {len(ops) - 12} more"] if len(ops) > 12 else [])
    return s
