"""C20 — reported feature minima, maxima and means match the data.

Generator: scalar feature data (NaN anywhere, all-NaN blocks, integer typed
features, single events) x production history (composition of the events into
append calls, writer re-opened between calls, replace mode, files without
stored summaries, join of 2..3 files, compress / repack / condense / export
chains) x view (file, hierarchy child across a refresh, basin-backed).
Oracle: obj.min()/max()/mean() == np.nanmin/nanmax/nanmean(obj[:]).
"""
import h5py
import numpy as np
from hypothesis import strategies as st

from .. import boot
from ..common import (meta, quiet, chunk_bytes, st_float, st_composition,
                      boundary_n, split_blocks)

import dclab
from dclab import RTDCWriter
from dclab import cli

ID = "C20"
RULE = ("Hypothesis-generated production histories of scalar features; a case is "
        "non-trivial when a feature is written with >=2 append calls and holds a "
        "NaN, or when a tool (compress/repack/condense/export/join) is applied "
        "to a file whose stored summaries were stripped; distinct = sha1 of the "
        "canonical JSON spec")
BUDGET = {"quick": 1600, "thorough": 40000}
ESSENTIAL = ["multi-append+nan", "view:child", "view:basin", "view:dictchild",
             "op:join", "stripped+tool", "append-after-strip"]
ASSUMPTIONS = [
    "version shim: dclab._version pre-seeded with 0.62.7 so that files written "
    "by the untagged build can be re-opened",
    "features returned as plain numpy arrays (ancillary features) are not "
    "dclab summary objects and are skipped (counted)"]

FLOAT_FEATS = ["deform", "area_um", "bright_avg", "userdef1", "time"]
INT_FEATS = ["fl1_max", "frame", "nevents"]
OPS = ["compress", "repack", "condense", "export", "export_filtered"]


@st.composite
def st_file(draw, idx):
    n = draw(boundary_n(10, 40))
    names = draw(st.lists(st.sampled_from(FLOAT_FEATS + INT_FEATS),
                          min_size=1, max_size=4, unique=True))
    feats = {}
    for nm in sorted(names):
        if nm in INT_FEATS:
            vals = draw(st.lists(st.integers(0, 2**31 - 1), min_size=n, max_size=n))
        else:
            kind = draw(st.sampled_from(["mixed", "mixed", "nanprefix", "allnan",
                                         "plain", "inttail"]))
            if kind == "allnan":
                vals = [float("nan")] * n
            elif kind == "plain":
                vals = draw(st.lists(st_float(0), min_size=n, max_size=n))
            else:
                vals = draw(st.lists(
                    st.one_of(st_float(0.3), st.just(float("nan"))),
                    min_size=n, max_size=n))
                if kind == "nanprefix":
                    k = draw(st.integers(1, n))
                    vals = [float("nan")] * k + vals[k:]
        feats[nm] = {"vals": vals, "comp": draw(st_composition(n))}
        if nm not in INT_FEATS and kind == "inttail" and n >= 2:
            # the last events are appended as integer-typed data (python ints
            # event by event, or one integer array) to the float feature
            k = draw(st.integers(1, min(n - 1, 6)))
            tail = draw(st.lists(st.integers(0, 1000), min_size=k, max_size=k))
            feats[nm]["vals"] = vals[:n - k] + [float(t) for t in tail]
            feats[nm]["comp"] = draw(st_composition(n - k)) + draw(
                st.sampled_from([[k], [1] * k]))
            feats[nm]["intblocks"] = True
    rounds = max(len(f["comp"]) for f in feats.values())
    return {
        "n": n, "feats": feats,
        "reopen": draw(st.lists(st.booleans(), min_size=rounds, max_size=rounds)),
        "replace": draw(st.one_of(st.none(), st.sampled_from(sorted(feats)))),
        "replace_vals": draw(st.lists(st.one_of(st_float(0.2), st.integers(0, 1000)),
                                      min_size=1, max_size=5)),
        "strip": draw(st.booleans()),
        # events appended (one more writer session) after the summaries were stripped
        "append_after_strip": draw(st.sampled_from([0, 0, 1, 3])),
    }


@st.composite
def st_spec(draw):
    nfiles = draw(st.sampled_from([1, 1, 1, 2, 3]))
    files = [draw(st_file(i)) for i in range(nfiles)]
    if nfiles > 1:
        # join needs common features: restrict all to the first file's names
        names = sorted(files[0]["feats"])
        for f in files[1:]:
            for nm in names:
                if nm not in f["feats"]:
                    src = files[0]["feats"][nm]["vals"]
                    vals = [src[i % len(src)] for i in range(f["n"])]
                    f["feats"][nm] = {"vals": vals, "comp": [f["n"]]}
    return {
        "chunk": draw(st.sampled_from([None, 100])),
        "files": files,
        "ops": draw(st.lists(st.sampled_from(OPS), max_size=3)),
        "view": draw(st.sampled_from(["file", "file", "child", "child", "dictchild",
                                      "basin", "mapped"])),
        "allsel": draw(st.sampled_from([False, False, True])),
        "mask": draw(st.lists(st.booleans(), min_size=1, max_size=40)),
        "mask2": draw(st.lists(st.booleans(), min_size=1, max_size=40)),
    }


def strategy(tier):
    return st_spec()


def _arr(name, vals):
    if name in INT_FEATS:
        return np.array(vals, dtype=np.int64)
    return np.array(vals, dtype=np.float64)


def _write_file(path, fs, idx):
    m = meta(experiment={"time": f"12:00:{idx:02d}", "run index": idx + 1})
    blocks = {nm: split_blocks(_arr(nm, f["vals"]), f["comp"])
              for nm, f in fs["feats"].items()}
    rounds = max(len(b) for b in blocks.values())
    hw = RTDCWriter(path, mode="append")
    hw.store_metadata(m)
    for r in range(rounds):
        for nm in sorted(blocks):
            if r < len(blocks[nm]):
                blk = blocks[nm][r]
                if fs["feats"][nm].get("intblocks") and r > 0 \
                        and np.all(np.abs(blk) < 2**31) and np.all(blk == np.round(blk)):
                    blk = int(blk[0]) if len(blk) == 1 else blk.astype(np.int64)
                hw.store_feature(nm, blk)
        if fs["reopen"][r] and r < rounds - 1:
            hw.__exit__(None, None, None)
            hw = RTDCWriter(path, mode="append")
    hw.__exit__(None, None, None)
    if fs["replace"]:
        nm = fs["replace"]
        rv = fs["replace_vals"]
        if nm in INT_FEATS:
            rv = [int(abs(v)) if v == v and abs(v) < 2**31 else 3 for v in rv]
        new = _arr(nm, [rv[i % len(rv)] for i in range(fs["n"])])
        with RTDCWriter(path, mode="replace") as hw:
            hw.store_feature(nm, new)
    if fs["strip"]:
        with h5py.File(path, "a") as h5:
            for nm in h5["events"]:
                for a in ("min", "max", "mean"):
                    h5["events"][nm].attrs.pop(a, None)
        k = fs.get("append_after_strip", 0)
        if k:
            with RTDCWriter(path, mode="append") as hw:
                for nm in sorted(fs["feats"]):
                    base = _arr(nm, fs["feats"][nm]["vals"])
                    extra = base[:k] if len(base) >= k else np.resize(base, k)
                    if nm not in INT_FEATS:
                        extra = np.where(np.isnan(extra), 1.5, extra) * 3 + 11
                    else:
                        extra = extra + 5
                    hw.store_feature(nm, extra)


def _mask(bits, n):
    m = np.array([bits[i % len(bits)] for i in range(n)], dtype=bool)
    if not m.any():
        m[0] = True
    return m


def _check_obj(rec, obj, tag, hist):
    if isinstance(obj, np.ndarray):
        rec.skip("plain-ndarray")
        return
    arr = np.asarray(obj[:])
    if arr.size == 0:
        rec.skip("empty")
        return
    fin = arr[~np.isnan(arr.astype(float))] if arr.dtype.kind == "f" else arr
    scale = float(np.max(np.abs(fin[np.isfinite(fin.astype(float))]),
                         initial=0.0)) if fin.size else 0.0
    for stat, ref in (("min", np.nanmin), ("max", np.nanmax), ("mean", np.nanmean)):
        if not hasattr(obj, stat):
            rec.skip(f"no-{stat}-method:{type(obj).__name__}")
            continue
        got = float(getattr(obj, stat)())
        exp = float(ref(arr)) if fin.size else float("nan")
        if np.isnan(exp) or np.isnan(got) or np.isinf(exp) or np.isinf(got):
            ok = (np.isnan(exp) and np.isnan(got)) or exp == got
        elif stat == "mean":
            ok = abs(got - exp) <= 1e-9 * max(scale, abs(exp)) + 1e-300
        else:
            ok = got == exp
        rec.check(ok, f"{stat}/{tag}/{hist}",
                  lambda: f"{stat}() reports {got!r}, data give {exp!r} "
                          f"(values {arr[:12].tolist()}...)")


def run_case(spec, rec):
    d = boot.casedir()
    try:
        with chunk_bytes(spec["chunk"]), quiet():
            _run(spec, rec, d)
    finally:
        boot.rmcase(d)


def _run(spec, rec, d):
    files = spec["files"]
    paths = []
    hist = {}
    for i, fs in enumerate(files):
        p = d / f"in{i}.rtdc"
        _write_file(p, fs, i)
        paths.append(p)
        for nm, f in fs["feats"].items():
            multi = len(f["comp"]) >= 2
            hasnan = nm not in INT_FEATS and any(v != v for v in f["vals"])
            if multi and hasnan:
                hist[nm] = "append-history-with-nan"
                rec.cls("multi-append+nan")
                if f.get("intblocks"):
                    rec.cls("multi-append+nan+integer-typed-append")
            else:
                hist.setdefault(nm, "plain")
    stripped = any(fs["strip"] for fs in files)
    if any(fs["strip"] and fs.get("append_after_strip") for fs in files):
        rec.cls("append-after-strip")
        rec.nontrivial()
    cur = paths[0]
    tool = False
    if len(paths) > 1:
        out = d / "joined.rtdc"
        cli.join(paths_in=[str(p) for p in paths], path_out=str(out))
        cur = out
        tool = True
        rec.cls("op:join")
    for k, op in enumerate(spec["ops"]):
        out = d / f"op{k}.rtdc"
        if op == "compress":
            cli.compress(path_in=str(cur), path_out=str(out))
        elif op == "repack":
            cli.repack(path_in=str(cur), path_out=str(out))
        elif op == "condense":
            cli.condense(path_in=str(cur), path_out=str(out))
        else:
            with dclab.new_dataset(cur) as ds:
                if op == "export_filtered":
                    ds.filter.manual[:] = _mask(spec["mask"], len(ds))
                    ds.apply_filter()
                ds.export.hdf5(out, features=ds.features_innate,
                               filtered=(op == "export_filtered"))
        rec.cls(f"op:{op}")
        cur = out
        tool = True
    if stripped and tool:
        rec.cls("stripped+tool")
    if any(h != "plain" for h in hist.values()) or (stripped and tool):
        rec.nontrivial()
    view = spec["view"]
    rec.cls(f"view:{view}")

    def h(nm):
        return hist.get(nm, "plain")

    with dclab.new_dataset(cur) as ds:
        n = len(ds)
        feats = [f for f in ds.features_scalar if f in ds.features_innate]
        # always check the file view
        for nm in feats:
            _check_obj(rec, ds[nm], "file", h(nm))
        if view == "dictchild":
            # in-memory parent: its feature objects are plain ndarrays
            dd = dclab.new_dataset({nm: np.array(ds[nm][:]) for nm in feats})
            m1 = np.ones(n, dtype=bool) if spec.get("allsel") else _mask(spec["mask"], n)
            dd.filter.manual[:] = m1
            dd.apply_filter()
            ch = dclab.new_dataset(dd)
            for nm in feats:
                _check_obj(rec, ch[nm], "dictchild", h(nm))
            gc_ = dclab.new_dataset(ch)
            for nm in feats:
                _check_obj(rec, gc_[nm], "dictgrandchild", h(nm))
        if view == "child":
            if spec.get("allsel"):
                ch0 = dclab.new_dataset(ds)
                for nm in feats:
                    _check_obj(rec, ch0[nm], "child-all-selected", h(nm))
            ds.filter.manual[:] = _mask(spec["mask"], n)
            ds.apply_filter()
            ch = dclab.new_dataset(ds)
            for nm in feats:
                _check_obj(rec, ch[nm], "child", h(nm))
            ds.filter.manual[:] = _mask(spec["mask2"], n)
            ch.rejuvenate()
            for nm in feats:
                _check_obj(rec, ch[nm], "child-refreshed", h(nm))
            # grandchild
            ch.filter.manual[:] = _mask(spec["mask2"][::-1], len(ch))
            ch.apply_filter()
            gc = dclab.new_dataset(ch)
            for nm in feats:
                _check_obj(rec, gc[nm], "grandchild", h(nm))
    if view in ("basin", "mapped"):
        ref = cur.with_name("referrer.rtdc")
        with dclab.new_dataset(cur) as ds:
            n = len(ds)
            rid = ds.get_measurement_identifier()
            m = {"experiment": dict(ds.config["experiment"]),
                 "imaging": dict(ds.config["imaging"]),
                 "setup": dict(ds.config["setup"])}
        if view == "mapped":
            idx = np.flatnonzero(_mask(spec["mask"], n)).astype(np.uint64)
            bmap = np.concatenate([idx, idx[:2]])
            m["experiment"]["run identifier"] = rid + "-sub"
        else:
            bmap = None
            idx = np.arange(n)
        nref = len(bmap) if bmap is not None else n
        m["experiment"]["event count"] = nref
        with RTDCWriter(ref) as hw:
            hw.store_metadata(m)
            hw.store_feature("userdef0", np.arange(nref, dtype=float))
            hw.store_basin(basin_name="b", basin_type="file",
                           basin_format="hdf5", basin_locs=[str(cur)],
                           basin_map=bmap)
        with dclab.new_dataset(ref) as ds2:
            bf = [f for f in ds2.features_basin
                  if f in ds2.features_scalar and not f.startswith("basinmap")]
            rec.check(len(bf) > 0, "harness/basin-features-offered",
                      "basin features not offered")
            for nm in bf:
                _check_obj(rec, ds2[nm], view, h(nm))
            _check_obj(rec, ds2["userdef0"], "file", "plain")
