"""C14 — basins are only followed when matching, acyclic and permitted.

Generator: directed graphs of basin references over 1..6 .rtdc files (chains,
diamonds, self loops, k-cycles, lassos, random), every file storing a
*signature feature* ``userdef<i>`` (and a random subset of the shared features
``userdef6..8``) whose values encode (file, feature, event index), so that any
array handed out by dclab names the file it was read from and the index map it
went through.  Per file a run identifier class (base / extension / extension of
the extension / unrelated / derived from time+date+setup id / none at all), per
edge a type (file, http through an in-process range server, ``s3sim`` = a
harness-defined ``RTDC_HDF5`` subclass standing in for S3/DCOR, internal), a
mapping (same / mapped with an index map), a feature restriction and a list of
1..2 locations (absolute, relative, dangling, a second candidate file).  The
entry file is opened as local file, through ``RTDC_HTTP`` and through the
``s3sim`` class.

Oracle = graph search on the spec (no dclab code involved):
  termination   number of datasets constructed <= number of (walk, location)
                candidates of the graph (finite, precomputed); the counter
                cuts a runaway deterministically, no wall clock is used
  isolation     every array obtained equals the array of a provider that is
                reachable through existing, permitted, identifier-matching
                edges (never through a file edge below a network format, never
                from an unrelated measurement); local files opened with the
                plain hdf5 class are a subset of the files the graph permits
  availability  features on a *simple* path of accepted edges are listed and
                readable with the right values; everything else raises KeyError
"""
import collections
import gc
import json
import os
import pathlib

import h5py
import numpy as np
from hypothesis import strategies as st

from .. import boot
from .. import lib_httpd
from ..common import meta

import dclab
from dclab import RTDCWriter
from dclab.rtdc_dataset import feat_basin
from dclab.rtdc_dataset.fmt_hdf5 import base as hdf5_base
from dclab.rtdc_dataset.fmt_hdf5.base import RTDC_HDF5

ID = "C14"
RULE = ("Hypothesis-generated basin reference graphs over 1..6 files (shape x run "
        "identifier class per file x edge type/mapping/feature restriction/location "
        "list per edge x entry format local/http/s3sim); a case is non-trivial when the "
        "graph reachable from the entry file contains a reference cycle of length >= 2 "
        "or a file-type basin defined in a file that is reached through a network "
        "format; distinct = sha1 of the canonical JSON spec")
BUDGET = {"quick": 1200, "thorough": 16000}
ESSENTIAL = ["id:infix-mapped", "graph:cycle>=2", "graph:selfloop", "graph:remote->file",
             "id:equal", "id:prefix-mapped", "id:prefix-unmapped", "id:unrelated",
             "id:referrer-none", "id:basin-none", "loc:relative", "loc:dangling",
             "loc:second-candidate", "loc:second-after-mismatch", "type:file", "type:http", "type:s3sim",
             "type:internal", "open:local", "open:http", "open:s3sim",
             "must:nested", "must:direct", "absent:expected"]
ASSUMPTIONS = [
    "version shim: dclab._version pre-seeded with 0.62.7 so that files written by the "
    "untagged build can be re-opened",
    "S3/DCOR transports are not run (no endpoint); their only behaviour relevant here - "
    "an RTDC_HDF5 subclass whose format name is not 'hdf5' must not follow file-type "
    "basins - is exercised with RTDC_HTTP on loopback and with a harness-defined "
    "subclass RTDC_S3SIM + remote-type basin class",
    "a referrer without any measurement identifier is documented in the code as 'no check "
    "possible': edges leaving such a file are treated as unspecified (used or not used, "
    "both accepted)",
    "features of an identifier-mismatching *remote* basin may be listed (documented by "
    "tests/test_rtdc_fmt_http_basin.py::test_create_basin_file_non_matching_identifier); "
    "only reading them must fail",
    "every basin definition gets a unique name, hence a unique key: dclab cuts cycles by "
    "key, two files holding byte-identical definitions are out of scope",
    "transitive availability is asserted along simple paths only"]
LEVEL = "exploration"

NFEAT = 10           # userdef0..userdef9; 0..5 signature, 6..8 shared, 9 internal
INTERNAL = 9
MAXWALKS = 260

RID = {"base": "vf-rid", "ext": "vf-rid-sub", "ext2": "vf-rid-sub-x",
       # substring (infix / suffix) but not prefix of "ext"/"ext2": must not match
       "infix": "rid-sub",
       "other": "zz-other", "md5": "<md5 of time_date_setupid>", "none": None}


def fname(k):
    return f"userdef{k}"


def val(fidx, fnum, j):
    return float(fidx * 10000 + fnum * 100 + j)


# ------------------------------------------------------------------ stand-in

class RTDC_S3SIM(RTDC_HDF5):
    """stand-in for RTDC_S3 / DCOR: format 's3sim' (derived from the class
    name), everything else inherited"""


class S3SimBasin(feat_basin.Basin):
    basin_format = "s3sim"
    basin_type = "remote"

    def _load_dataset(self, location, **kwargs):
        return RTDC_S3SIM(location, **kwargs)

    def is_available(self):
        return pathlib.Path(self.location).exists()


# ------------------------------------------------------------ open recorder

class _Runaway(Exception):
    pass


class _Opens:
    def __init__(self):
        self.active = False
        self.reset(0)

    def reset(self, limit):
        self.total = 0
        self.limit = limit
        self.tripped = False
        self.local = collections.Counter()   # realpath -> n (plain RTDC_HDF5 only)
        self.other = collections.Counter()   # class name -> n


_OPENS = _Opens()
_orig_init = RTDC_HDF5.__init__


def _counting_init(self, h5path, *args, **kwargs):
    if _OPENS.active:
        _OPENS.total += 1
        if _OPENS.total > _OPENS.limit:
            _OPENS.tripped = True
            raise _Runaway("more datasets opened than the graph has walks")
        if type(self) is RTDC_HDF5 and isinstance(h5path, (str, pathlib.Path)):
            _OPENS.local[os.path.realpath(str(h5path))] += 1
        else:
            _OPENS.other[type(self).__name__] += 1
    return _orig_init(self, h5path, *args, **kwargs)


_counting_init.__wrapped__ = _orig_init
if getattr(RTDC_HDF5.__init__, "__wrapped__", None) is None:
    RTDC_HDF5.__init__ = _counting_init


def setup_shard():
    _server()


def _server():
    lib_httpd.start(str(boot.tmproot()))
    return lib_httpd.server()


# ---------------------------------------------------------------- strategy

SHAPES = ["chain", "cycle", "cycle", "lasso", "diamond", "selfloop", "random",
          "random", "two-cycle"]
RIDK = (["base"] * 12 + ["ext"] * 4 + ["ext2"] * 2 + ["other"] * 2 + ["md5"] * 2
        + ["none"] * 2 + ["infix"] * 4)


def _shape_edges(shape, k, draw):
    if shape == "chain":
        return [(i, i + 1) for i in range(k - 1)]
    if shape == "cycle":
        return [(i, (i + 1) % k) for i in range(k)]
    if shape == "two-cycle":
        a = draw(st.integers(0, k - 1))
        b = (a + 1) % k
        return [(i, i + 1) for i in range(a)] + [(a, b), (b, a)]
    if shape == "lasso":
        back = draw(st.integers(0, k - 1))
        return [(i, i + 1) for i in range(k - 1)] + [(k - 1, back)]
    if shape == "diamond":
        if k < 4:
            return [(0, j) for j in range(1, k)]
        e = [(0, 1), (0, 2), (1, 3), (2, 3)]
        return e + [(3 + i, 4 + i) for i in range(k - 4)]
    if shape == "selfloop":
        s = draw(st.integers(0, k - 1))
        return [(i, i + 1) for i in range(k - 1)] + [(s, s)]
    out = []
    for i in range(k):
        for j in draw(st.lists(st.integers(0, k - 1), max_size=2, unique=True)):
            out.append((i, j))
    return out


@st.composite
def st_spec(draw):
    shape = draw(st.sampled_from(SHAPES))
    k = draw(st.integers(1 if shape in ("selfloop", "random", "cycle") else 2, 6))
    n = draw(st.integers(2, 6))
    pairs = _shape_edges(shape, k, draw)
    for _ in range(draw(st.sampled_from([0, 0, 0, 1, 1, 2]))):
        pairs.append((draw(st.integers(0, k - 1)), draw(st.integers(0, k - 1))))
    scen = draw(st.sampled_from(["allbase", "mostly", "mostly", "export", "export",
                                 "random"]))
    if scen == "allbase":
        rids = ["base"] * k
    elif scen == "export":
        # chain of exports: every export appends to the identifier of its source
        top = draw(st.integers(0, min(2, k - 1)))
        rids = [["base", "ext", "ext2"][max(0, top - i)] for i in range(k)]
    elif scen == "mostly":
        rids = [draw(st.sampled_from(["base"] * 24 + RIDK[12:])) for _ in range(k)]
    else:
        rids = [draw(st.sampled_from(RIDK[8:])) for _ in range(k)]
    # decoy scenario: the first definition of the entry file lists a file of another
    # measurement before the right one
    decoy = None
    if k >= 3 and draw(st.integers(0, 5)) == 0:
        tgt = [b for (a, b) in pairs if a == 0 and b != 0]
        if tgt and rids[0] != "none":
            j = draw(st.sampled_from([q for q in range(1, k) if q != tgt[0]]))
            rids[tgt[0]] = rids[0]
            rids[j] = "other" if rids[0] != "other" else "base"
            decoy = (tgt[0], j)
    files = []
    for i in range(k):
        files.append({
            "rid": rids[i],
            "dir": draw(st.sampled_from([0, 0, 1])),
            "shared": sorted(draw(st.lists(st.integers(6, 8), max_size=2, unique=True))),
            "internal": None,
            "edges": []})
        if draw(st.integers(0, 5)) == 0:
            rows = draw(st.integers(1, 3))
            files[i]["internal"] = {
                "rows": rows,
                "map": draw(st.lists(st.integers(0, rows - 1), min_size=n, max_size=n))}
    for (a, b) in pairs:
        if len(files[a]["edges"]) >= 3:
            continue
        typ = draw(st.sampled_from(["file"] * 5 + ["http"] * 3 + ["s3sim"] * 2))
        r, bb = RID[rids[a]], RID[rids[b]]
        mapped = draw(st.sampled_from([False, False, True]))
        if (r is not None and bb is not None and r != bb and bb in r
                and draw(st.integers(0, 2)) > 0):
            # prefix (acceptable when mapped) and infix (never acceptable) relations
            mapped = True
        style = draw(st.sampled_from(["abs", "abs", "rel"]))
        locs = [{"to": b, "style": style}]
        extra = draw(st.sampled_from(
            ["", "", "", "", "dangling-first", "dangling-only", "second", "second"]
            + (["second", "second"] if a == 0 else [])))
        if decoy is not None and a == 0 and b == decoy[0]:
            typ, extra = "file", ""
            locs.insert(0, {"to": decoy[1], "style": "abs"})
            decoy = None
        if extra == "dangling-first":
            locs.insert(0, {"to": -1, "style": draw(st.sampled_from(["abs", "rel"]))})
        elif extra == "dangling-only":
            locs = [{"to": -1, "style": style}]
        elif extra == "second":
            other = {"to": draw(st.integers(0, k - 1)),
                     "style": draw(st.sampled_from(["abs", "rel"]))}
            if draw(st.booleans()):
                # a first candidate that exists but belongs to another measurement
                bad = [j for j in range(k) if j not in (a, b)
                       and verdict(r, RID[rids[j]], mapped) in ("no", "kf")]
                if bad and draw(st.integers(0, 3)) > 0:
                    other = {"to": draw(st.sampled_from(bad)), "style": "abs"}
                locs.insert(0, other)
            else:
                locs.append(other)
        feats = None
        if draw(st.integers(0, 3)) == 0:
            feats = sorted(draw(st.lists(st.integers(0, NFEAT - 1), min_size=1,
                                         max_size=4, unique=True)))
        elif extra == "dangling-first" and typ != "file" and draw(st.booleans()):
            # an unreachable mirror listed before the reachable one, both claiming
            # the feature explicitly (the first is dropped while the list is walked)
            feats = sorted(set([b % NFEAT] + draw(st.lists(
                st.integers(0, NFEAT - 1), max_size=2))))
        disguise = None
        if typ == "file" and draw(st.integers(0, 5)) == 0:
            # a local path behind a definition whose "type" claims something else
            # (hand-written / hostile definitions): remote + hdf5, internal + hdf5
            disguise = draw(st.sampled_from(["remote", "internal"]))
        files[a]["edges"].append({
            "type": typ, "locs": locs, "feats": feats, "disguise": disguise,
            "map": (draw(st.lists(st.integers(0, n - 1), min_size=n, max_size=n))
                    if mapped else None)})
    for f in files:
        # definitions of unmapped basins in the legacy form (no "mapping" key; written
        # by dclab < 0.58 and third-party tools): documented to mean identical mapping
        f["legacy"] = draw(st.sampled_from([False, False, True]))
    opens = draw(st.sampled_from([["local"], ["local"], ["local", "http"], ["http"],
                                  ["local", "s3sim"], ["s3sim"],
                                  ["local", "http", "s3sim"]]))
    return {"n": n, "files": files, "opens": opens,
            "order": draw(st.permutations(list(range(NFEAT)))),
            "list_first": draw(st.booleans())}


def strategy(tier):
    return st_spec()


def sample_view(spec):
    return {"n": spec["n"], "opens": spec["opens"],
            "files": [{"rid": f["rid"],
                       "edges": [(e["type"], [lo["to"] for lo in e["locs"]],
                                  "mapped" if e["map"] else "same") for e in f["edges"]]}
                      for f in spec["files"]]}


# ------------------------------------------------------------------- model

class _TooBig(Exception):
    pass


def verdict(r, b, mapped):
    """is a basin with identifier b acceptable for a referrer with identifier r"""
    if r is None:
        return "maybe"
    if b is None:
        return "kf"
    if mapped:
        return "yes" if r.startswith(b) else "no"
    return "yes" if r == b else "no"


class Model:
    """Graph search.  status of a walk: 2 = every edge certainly accepted,
    1 = data may flow (some edge unspecified), 0 = features may only be listed
    (identifier-mismatching remote edge)."""

    def __init__(self, spec, mode, relax=()):
        self.spec = spec
        self.files = spec["files"]
        self.n = spec["n"]
        self.relax = set(relax)
        self.prov = collections.defaultdict(dict)    # fnum -> {tuple: certain}
        self.must_basin = set()      # certainly available through >= 1 edge
        self.must_info = {}          # fnum -> (depth, "type>type")
        self.list_may = set()
        self.list_may_basin = set()
        self.open_bound = 1
        self.local_bound = collections.Counter()
        self.walks = 0
        self.kf_mapped_file = False
        self.kf_unmapped = False
        self.cls = collections.Counter()
        if mode == "local":
            self.local_bound[0] += 1
        self.visit(0, "local" if mode == "local" else "remote", (), list(range(self.n)),
                   2, None, ())

    def innate(self, x):
        return [x] + list(self.files[x]["shared"])

    def provide(self, fnum, values, status, fset, types, revisit):
        if fset is not None and fnum not in fset:
            return
        self.list_may.add(fnum)
        if types:
            self.list_may_basin.add(fnum)
        if status >= 1:
            certain = status == 2 and not revisit
            key = tuple(values)
            self.prov[fnum][key] = self.prov[fnum].get(key, False) or certain
            if certain and types:
                self.must_basin.add(fnum)
                cur = self.must_info.get(fnum)
                if cur is None or len(types) < cur[0]:
                    self.must_info[fnum] = (len(types), ">".join(types))

    def visit(self, x, mode, onpath, cmap, status, fset, types):
        self.walks += 1
        if self.walks > MAXWALKS:
            raise _TooBig()
        f = self.files[x]
        revisit = x in onpath
        for fnum in self.innate(x):
            self.provide(fnum, [val(x, fnum, c) for c in cmap], status, fset, types,
                         revisit)
        if f["internal"] is not None:
            im = f["internal"]["map"]
            self.provide(INTERNAL, [val(x, INTERNAL, 50 + im[c]) for c in cmap],
                         status, fset, types + ("internal",), revisit)
        if revisit:
            return
        r = RID[f["rid"]]
        for e in f["edges"]:
            mapped = e["map"] is not None
            nfset = fset
            if e["feats"] is not None and "feats" not in self.relax:
                nfset = set(e["feats"]) if fset is None else (set(e["feats"]) & fset)
            ncmap = [e["map"][c] for c in cmap] if mapped else cmap
            ntypes = types + (e["type"],)
            if e["type"] == "file":
                if mode != "local":
                    if "perm" not in self.relax:
                        continue
                prefix_certain = True
                rejected = False
                for lo in e["locs"]:
                    t = lo["to"]
                    if t < 0:
                        continue
                    self.open_bound += 2
                    if mode == "local":
                        self.local_bound[t] += 2
                    v = self._verdict(r, RID[self.files[t]["rid"]], mapped, True,
                                      mode == "local")
                    if e.get("disguise") and v == "yes":
                        # local open of a mistyped definition: following it is
                        # neither required nor forbidden by the property
                        v = "maybe"
                    if v == "no":
                        rejected = True
                        continue
                    st_ = status if (v == "yes" and prefix_certain) else min(status, 1)
                    if (rejected and st_ == 2 and not self.relax
                            and t != x and t not in onpath):
                        self.cls["loc:second-after-mismatch"] += 1
                    self._claim(e, fset, st_)
                    self.visit(t, mode, onpath + (x,), ncmap, st_, nfset, ntypes)
                    if v == "yes":
                        break
                    prefix_certain = False
            else:
                for lo in e["locs"]:
                    t = lo["to"]
                    if t < 0:
                        continue
                    self.open_bound += 1
                    v = self._verdict(r, RID[self.files[t]["rid"]], mapped, False, False)
                    st_ = {"yes": status, "maybe": min(status, 1), "no": 0}[v]
                    self._claim(e, fset, st_)
                    self.visit(t, "remote", onpath + (x,), ncmap, st_, nfset, ntypes)

    def _claim(self, e, fset, status):
        # an explicit feature list is listed as it is, whatever the basin holds
        if e["feats"] is not None:
            for fnum in e["feats"]:
                if fset is None or fnum in fset:
                    self.list_may.add(fnum)
                    self.list_may_basin.add(fnum)

    def _verdict(self, r, b, mapped, is_file, local):
        v = verdict(r, b, mapped)
        if v == "kf":
            if mapped:
                if is_file and local:
                    self.kf_mapped_file = True
                v = "no"
            else:
                self.kf_unmapped = True
                v = "maybe" if "kf" in self.relax else "no"
        if v == "no" and "id" in self.relax:
            v = "maybe"
        return v


def graph_classes(spec):
    """classes of the part of the graph that is reachable from the entry file
    when every existing location is followed"""
    files = spec["files"]
    adj = collections.defaultdict(set)
    for i, f in enumerate(files):
        for e in f["edges"]:
            for lo in e["locs"]:
                if lo["to"] >= 0:
                    adj[i].add(lo["to"])
    seen, todo = {0}, [0]
    while todo:
        x = todo.pop()
        for y in adj[x]:
            if y not in seen:
                seen.add(y)
                todo.append(y)
    out = set()
    for x in seen:
        if x in adj[x]:
            out.add("graph:selfloop")
        # x on a cycle of length >= 2: x reachable from a successor y != x
        s2, td = set(), [y for y in adj[x] if y != x]
        while td:
            y = td.pop()
            if y in s2 or y == x:
                continue
            s2.add(y)
            td += list(adj[y])
        if any(x in adj[y] for y in s2):
            out.add("graph:cycle>=2")
    # remote -> file: a file-type edge in a file that is reachable through a remote edge
    rem, todo = set(), []
    for x in seen:
        for e in files[x]["edges"]:
            if e["type"] in ("http", "s3sim"):
                for lo in e["locs"]:
                    if lo["to"] >= 0 and lo["to"] not in rem:
                        rem.add(lo["to"])
                        todo.append(lo["to"])
    while todo:
        x = todo.pop()
        for y in adj[x]:
            if y not in rem:
                rem.add(y)
                todo.append(y)
    remote_entry = any(m != "local" for m in spec["opens"])
    for x in (seen if remote_entry else rem):
        if any(e["type"] == "file" and any(lo["to"] >= 0 for lo in e["locs"])
               for e in files[x]["edges"]):
            out.add("graph:remote->file")
    if not out & {"graph:selfloop", "graph:cycle>=2"}:
        out.add("graph:acyclic")
    return out


# --------------------------------------------------------------- interpreter

def _paths(d, spec):
    out = []
    for i, f in enumerate(spec["files"]):
        p = (d / "sub" / f"f{i}.rtdc") if f["dir"] else (d / f"f{i}.rtdc")
        out.append(p)
    return out


def _loc(d, paths, src, lo, typ, k, srv):
    t = lo["to"]
    if typ == "http":
        if t < 0:
            return srv.url(os.path.relpath(d / f"missing_{src}_{k}.rtdc", boot.tmproot()))
        return srv.url(os.path.relpath(paths[t], boot.tmproot()))
    if t < 0:
        tgt = d / "nowhere" / f"missing_{src}_{k}.rtdc"
    else:
        tgt = paths[t]
    if typ == "file" and lo["style"] == "rel":
        return os.path.relpath(tgt, paths[src].parent)
    return str(tgt)


def _write(d, spec, srv):
    n = spec["n"]
    paths = _paths(d, spec)
    (d / "sub").mkdir(exist_ok=True)
    for i, f in enumerate(spec["files"]):
        m = meta()
        m["experiment"]["event count"] = n
        rid = f["rid"]
        if rid in ("md5", "none"):
            m["experiment"].pop("run identifier")
            if rid == "none":
                m["setup"].pop("identifier")
        else:
            m["experiment"]["run identifier"] = RID[rid]
        with RTDCWriter(paths[i], mode="reset") as hw:
            hw.store_metadata(m)
            for fnum in [i] + list(f["shared"]):
                hw.store_feature(fname(fnum),
                                 np.array([val(i, fnum, j) for j in range(n)]))
            if f["internal"] is not None:
                rows = f["internal"]["rows"]
                hw.store_basin(
                    basin_name=f"int{i}", basin_type="internal",
                    basin_format="h5dataset", basin_locs=["basin_events"],
                    basin_feats=[fname(INTERNAL)],
                    basin_map=np.array(f["internal"]["map"], dtype=np.uint64),
                    internal_data={fname(INTERNAL): np.array(
                        [val(i, INTERNAL, 50 + j) for j in range(rows)])})
            for k, e in enumerate(f["edges"]):
                locs = [_loc(d, paths, i, lo, e["type"], f"{k}{q}", srv)
                        for q, lo in enumerate(e["locs"])]
                hw.store_basin(
                    basin_name=f"e{i}_{k}",
                    basin_type="file" if e["type"] == "file" else "remote",
                    basin_format={"file": "hdf5", "http": "http",
                                  "s3sim": "s3sim"}[e["type"]],
                    basin_locs=locs,
                    basin_feats=(None if e["feats"] is None
                                 else [fname(q) for q in e["feats"]]),
                    basin_map=(None if e["map"] is None
                               else np.array(e["map"], dtype=np.uint64)),
                    verify=False)
        if f.get("legacy"):
            _strip_mapping_key(paths[i])
        for k, e in enumerate(f["edges"]):
            if e.get("disguise"):
                _disguise(paths[i], f"e{i}_{k}", e["disguise"])
    return paths


def _disguise(path, name, as_type):
    """rewrite the file-basin definition `name`: same local paths, another type"""
    with h5py.File(path, "a") as h5:
        grp = h5["basins"]
        for bk in sorted(grp.keys()):
            lines = [ln.decode("utf-8") if isinstance(ln, bytes) else str(ln)
                     for ln in grp[bk][:]]
            bd = json.loads(" ".join(lines))
            if bd.get("name") != name:
                continue
            bd["type"] = as_type
            if as_type == "remote":
                bd["urls"] = bd.pop("paths")
            text = json.dumps(bd, indent=2).split("\n")
            del grp[bk]
            grp.create_dataset(bk, data=np.array([t.encode("utf-8") for t in text]))


def _strip_mapping_key(path):
    """rewrite the definitions of unmapped basins without their "mapping" key"""
    with h5py.File(path, "a") as h5:
        grp = h5.get("basins")
        for bk in sorted(grp.keys() if grp is not None else []):
            lines = [ln.decode("utf-8") if isinstance(ln, bytes) else str(ln)
                     for ln in grp[bk][:]]
            bd = json.loads(" ".join(lines))
            if bd.get("mapping", "same") != "same" or "mapping" not in bd:
                continue
            bd.pop("mapping")
            text = json.dumps(bd, indent=2).split("\n")
            del grp[bk]
            grp.create_dataset(bk, data=np.array([t.encode("utf-8") for t in text]))


def _count_classes(spec, rec):
    files = spec["files"]
    for c in graph_classes(spec):
        rec.cls(c)
    for m in spec["opens"]:
        rec.cls(f"open:{m}")
    seen = set()
    for f in files:
        if f["internal"] is not None:
            seen.add("type:internal")
        unm = [e for e in f["edges"] if e["map"] is None]
        if f.get("legacy") and unm:
            seen.add("def:legacy-no-mapping-key")
            if f["internal"] is not None or len(unm) < len(f["edges"]):
                seen.add("def:legacy-beside-mapped")
        r = RID[f["rid"]]
        for e in f["edges"]:
            seen.add(f"type:{e['type']}")
            if e.get("disguise"):
                seen.add(f"def:local-path-typed-{e['disguise']}")
            mapped = e["map"] is not None
            if len([lo for lo in e["locs"] if lo["to"] >= 0]) > 1:
                seen.add("loc:second-candidate")
            for lo in e["locs"]:
                if lo["to"] < 0:
                    seen.add("loc:dangling")
                    continue
                if e["type"] == "file" and lo["style"] == "rel":
                    seen.add("loc:relative")
                b = RID[files[lo["to"]]["rid"]]
                if r is None:
                    seen.add("id:referrer-none")
                elif b is None:
                    seen.add("id:basin-none")
                elif r == b:
                    seen.add("id:equal")
                elif r.startswith(b):
                    seen.add("id:prefix-mapped" if mapped else "id:prefix-unmapped")
                elif b in r:
                    seen.add("id:infix-mapped" if mapped else "id:infix-unmapped")
                else:
                    seen.add("id:unrelated")
    for c in sorted(seen):
        rec.cls(c)


def run_case(spec, rec):
    srv = _server()
    d = boot.casedir()
    _OPENS.active = False
    # the range server lives in this process: a cyclic GC run inside one of its
    # threads that finalises an h5py object would block on h5py's global lock while
    # the reader (holding it) waits for that thread -> client timeouts.  No GC runs
    # while a case reads over HTTP (harness-side, does not touch dclab).
    gc.collect()
    gc.disable()
    try:
        try:
            models = {m: Model(spec, m) for m in spec["opens"]}
        except _TooBig:
            rec.skip("graph-with-too-many-walks")
            return
        _count_classes(spec, rec)
        if any(m.cls["loc:second-after-mismatch"] for m in models.values()):
            rec.cls("loc:second-after-mismatch")
        gcls = graph_classes(spec)
        if gcls & {"graph:cycle>=2", "graph:remote->file"}:
            rec.nontrivial()
        paths = _write(d, spec, srv)
        real = {os.path.realpath(str(p)): i for i, p in enumerate(paths)}
        for mode in spec["opens"]:
            _run_mode(spec, rec, mode, models[mode], paths, real, srv, gcls)
    finally:
        _OPENS.active = False
        gc.enable()
        boot.rmcase(d)


def _gname(gcls):
    if "graph:cycle>=2" in gcls:
        return "cycle"
    if "graph:selfloop" in gcls:
        return "selfloop"
    return "acyclic"


def _open(mode, paths, srv):
    if mode == "local":
        return dclab.new_dataset(paths[0])
    if mode == "http":
        return dclab.new_dataset(srv.url(os.path.relpath(paths[0], boot.tmproot())))
    return RTDC_S3SIM(paths[0])


def _classify(spec, mode, fnum, arr, extra=()):
    """why is `arr` not an admissible array for feature fnum"""
    for relax, name in ((("kf",), "identifier/basin-has-none/unmapped"),
                        (("id", "kf"), "identifier/mismatch-accepted"),
                        (("perm",), "isolation/file-basin-below-network-format"),
                        (("perm", "id", "kf"), "isolation/unpermitted-and-mismatching")):
        try:
            m = Model(spec, mode, relax + tuple(extra))
        except _TooBig:
            continue
        if arr is None:
            if fnum in m.list_may:
                return name
        elif arr in m.prov.get(fnum, {}):
            return name
    return "listing/unknown-feature" if arr is None else "data/wrong-values"


def _sig(why, obs, mode):
    if why == "identifier/basin-has-none/unmapped":
        return why            # one root cause (repaired in /repo d031589), however observed
    return f"{why}/{obs}/{mode}"


def _run_mode(spec, rec, mode, M, paths, real, srv, gcls):
    gname = _gname(gcls)
    _OPENS.reset(M.open_bound)
    _OPENS.active = True
    kf_hit = [False]

    def guarded(fn, what):
        """-> (ok, value); handles runaway / recursion / the TypeError of a mapped
        basin without identifier (repaired in /repo d031589; narrow signature)"""
        try:
            return True, fn()
        except _Runaway:
            return False, None
        except RecursionError:
            rec.fail(f"termination/recursion/{gname}",
                     f"RecursionError during {what} (entry opened as {mode})")
            return False, None
        except TypeError as e:
            if M.kf_mapped_file and "startswith" in str(e):
                kf_hit[0] = True
                rec.fail("identifier/basin-has-none/mapped",
                         f"TypeError escapes from {what}: {e}")
                return False, None
            raise

    ds = None
    try:
        ok, ds = guarded(lambda: _open(mode, paths, srv), "open")
        if not ok:
            return
        listing = None
        if spec["list_first"]:
            ok, listing = guarded(lambda: list(ds.features_basin), "features_basin")
        got = {}
        for fnum in spec["order"]:
            name = fname(fnum)
            ok1, cont = guarded(lambda: name in ds, "feat in ds")

            def read():
                try:
                    return tuple(float(v) for v in np.asarray(ds[name][:]).ravel())
                except KeyError:
                    return None
            ok2, arr = guarded(read, "ds[feat]")
            # the same feature once more: a basin that was refused (or whose check
            # raised) at the first access must not be used at the second
            ok3, arr2 = guarded(read, "ds[feat] (second read)") if ok2 else (False, None)
            got[fnum] = (ok1, cont, ok2, arr, ok3, arr2)
        if not spec["list_first"]:
            ok, listing = guarded(lambda: list(ds.features_basin), "features_basin")
        # second listing must agree with the first one
        ok_b, listing2 = guarded(lambda: list(ds.features_basin), "features_basin")
        # features_local walks through the file-type basins as well
        ok_l, flocal = guarded(lambda: list(ds.features_local), "features_local")
    finally:
        _OPENS.active = False
        if ds is not None:
            try:
                ds.close()
            except _Runaway:
                pass

    # ---- termination
    rec.check(not _OPENS.tripped, f"termination/open-count/{gname}",
              lambda: f"more than {M.open_bound} datasets were constructed while reading "
                      f"a graph of {len(spec['files'])} files (entry opened as {mode})")
    # ---- isolation by opened local files
    for rp, cnt in sorted(_OPENS.local.items()):
        idx = real.get(rp)
        if idx is None:
            rec.fail(f"isolation/local-open/unknown-path/{mode}", f"opened {rp}")
            continue
        allowed = M.local_bound.get(idx, 0)
        if allowed == 0 and M.kf_unmapped and Model(
                spec, mode, ("kf",)).local_bound.get(idx, 0):
            rec.fail("identifier/basin-has-none/unmapped",
                     f"file f{idx} opened below a basin without identifier")
        elif allowed == 0:
            rec.fail(f"isolation/local-open/{'entry' if mode != 'local' else 'nested'}-"
                     f"{mode}",
                     f"file f{idx} was opened {cnt}x from the local file system although "
                     f"no permitted path of file-type basins leads to it (entry opened "
                     f"as {mode})")
        else:
            rec.check(cnt <= allowed,
                      f"termination/local-open-count/{gname}",
                      lambda: f"file f{idx} opened {cnt}x, graph admits {allowed}")
    if mode != "local":
        rec.check(not _OPENS.local, f"isolation/local-open/any/{mode}",
                  lambda: f"local files opened below a network format: "
                          f"{sorted(_OPENS.local)}")
    if _OPENS.tripped:
        return
    # ---- data / availability
    for fnum in sorted(got):
        ok1, cont, ok2, arr, ok3, arr2 = got[fnum]
        may = M.prov.get(fnum, {})
        if ok3 and arr2 is not None and arr2 not in may:
            why = _classify(spec, mode, fnum, arr2)
            rec.fail(_sig(why, "data-second-read", mode),
                     f"second read of {fname(fnum)} = {list(arr2)} (first read: "
                     f"{'KeyError' if arr is None else list(arr)}; entry opened as "
                     f"{mode}); admissible: {[list(a) for a in sorted(may)][:4]}")
        must = any(may.values())
        depth, via = M.must_info.get(fnum, (0, "innate"))
        pathcls = ("innate" if fnum in M.innate(0) else
                   ("direct" if depth == 1 else "nested") + ":" + via.split(">")[-1])
        if ok2:
            if arr is not None:
                if arr in may:
                    rec.checks += 1
                else:
                    why = _classify(spec, mode, fnum, arr)
                    rec.fail(_sig(why, "data", mode),
                             f"{fname(fnum)} = {list(arr)} (entry opened as {mode}); "
                             f"admissible: {[list(a) for a in sorted(may)][:4]}")
            else:
                if must:
                    rec.fail(f"availability/missing/{pathcls}/{mode}",
                             f"{fname(fnum)} is provided by an accepted basin "
                             f"(shortest path: {via}) but reading raises KeyError")
                elif not must:
                    rec.cls("absent:expected")
        elif not kf_hit[0]:
            rec.skip("read-aborted")
        if ok1:
            if must:
                rec.check(bool(cont), f"availability/not-contained/{pathcls}/{mode}",
                          lambda: f"{fname(fnum)} in ds is False although it is provided "
                                  f"through {via}")
            if cont and fnum not in M.list_may:
                why = _classify(spec, mode, fnum, None)
                rec.fail(_sig(why, "contains", mode),
                         f"{fname(fnum)} in ds is True although no permitted basin "
                         f"offers it")
        if must and fnum not in M.innate(0):
            rec.cls("must:direct" if depth == 1 else "must:nested")
    if ok_l and flocal is not None:
        # features_local does not honour the feature restriction of a basin
        # definition (not part of this property): model without restrictions
        Mf = Model(spec, mode, ("feats",))
        for fnum in sorted({int(f[7:]) for f in flocal
                            if f.startswith("userdef") and f[7:].isdigit()} - Mf.list_may):
            why = _classify(spec, mode, fnum, None, ("feats",))
            rec.fail(_sig(why, "features_local", mode),
                     f"{fname(fnum)} is listed in features_local although no permitted "
                     f"basin offers it")
        rec.checks += 1
    if listing is not None:
        ls = {int(f[7:]) for f in listing
              if f.startswith("userdef") and f[7:].isdigit()}
        for fnum in sorted(ls - M.list_may_basin):
            why = _classify(spec, mode, fnum, None)
            rec.fail(_sig(why, "features_basin", mode),
                     f"{fname(fnum)} is listed in features_basin although no permitted "
                     f"basin offers it")
        for fnum in sorted(M.must_basin - ls):
            depth, via = M.must_info[fnum]
            rec.fail(f"availability/not-listed/"
                     f"{'direct' if depth == 1 else 'nested'}:{via.split('>')[-1]}/{mode}",
                     f"{fname(fnum)} missing in features_basin {sorted(listing)}; "
                     f"provided through {via}")
        rec.checks += 1
        if ok_b and listing2 is not None:
            rec.check(sorted(listing) == sorted(listing2), f"listing/unstable/{mode}",
                      lambda: f"features_basin changed between two calls: {listing} / "
                              f"{listing2}")
