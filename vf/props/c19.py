"""C19 — remote range-cached access returns the bytes and data of the resource.

Two kinds of cases (one Hypothesis strategy, `spec["kind"]`):

``bytes``   A random blob of L = k*cs + d bytes (sizes around multiples of the
            chunk size, incl. L = 0) is served by an in-process RFC 7233 range
            server (vf/lib_httpd.py).  ``HTTPFile(url, chunk_size=cs,
            keep_chunks=keep)`` is driven by a generated *history* of
            seek(SET/CUR/END) / tell / read(n) operations whose arguments are
            resolved relative to the chunk grid, the current position and the
            end of the resource (reads ending exactly on a chunk boundary,
            spanning many chunks, ending exactly at EOF, crossing EOF, n = 0).
            Reference model: a position and ``blob[pos:pos+n]`` (file semantics).
            After every operation: returned bytes, tell(), number of cached
            chunks <= keep_chunks, every cached chunk is the right slice of the
            blob and not larger than chunk_size, chunk 0 stays cached.

``ds``      A generated .rtdc file (RTDCWriter, small HDF5 chunks, several
            compressions) is served by the same server; the dataset opened with
            ``RTDC_HTTP(url)`` / ``dclab.new_dataset(url)`` (HTTPFile with small
            chunk size / capacity so that h5py's reads cross and evict chunks)
            is compared with ``RTDC_HDF5(path)``: length, feature lists, every
            innate feature by kind under a generated access program, metadata,
            logs, tables.
"""
import contextlib
import gc

import numpy as np
from hypothesis import strategies as st

from .. import boot
from .. import lib_httpd
from ..common import meta, chunk_bytes, eqnan, rng_array, st_float, boundary_n

import dclab
from dclab import RTDCWriter
from dclab import http_utils
from dclab.rtdc_dataset import fmt_http
from dclab import definitions as dfn

ID = "C19"
RULE = ("Hypothesis-generated (resource size, chunk size, keep_chunks, history of "
        "seek/tell/read) machines against a blob model, plus generated .rtdc files "
        "opened over HTTP vs. locally; a byte-level case is non-trivial when a chunk "
        "was evicted and a later read needs it again, or an in-range read ends exactly "
        "on a chunk boundary; a dataset case is non-trivial when the HTTP file object "
        "evicted at least one chunk while the dataset was read; distinct = sha1 of the "
        "canonical JSON spec")
BUDGET = {"quick": 1200, "thorough": 12000}
ESSENTIAL = ["kind:bytes", "kind:ds", "read:within-chunk", "read:multi-chunk",
             "read:ends-on-boundary", "read:ends-at-eof", "read:crossing-eof",
             "read:zero", "seek:set", "seek:cur", "seek:end", "evict",
             "reread-evicted", "size:multiple-of-chunk", "size:multiple+1",
             "size:multiple-1", "spans>keep", "ds:evict", "ds:image",
             "ds:contour", "ds:trace", "ds:log", "ds:table"]
ASSUMPTIONS = [
    "version shim so that files written by the untagged build re-open",
    "the test server follows RFC 7233: satisfiable single ranges -> 206, first byte "
    ">= length -> 416, syntactically invalid range (last < first) -> header ignored, "
    "200 + full body",
    "file semantics for the model (io.RawIOBase): read(n>0) returns blob[pos:pos+n] "
    "(short at EOF, empty beyond) and advances the position by the number of bytes "
    "returned, read(0) returns b'' and leaves the position alone, seeking beyond the end "
    "is allowed; negative positions are not generated; read()/read(-1) is outside the "
    "property ('positions and lengths') and not generated",
    "chunk 0 stays cached once fetched (code comment 'keep the first chunk', anchor "
    "'chunk 0 pinned') is asserted for keep_chunks >= 2 only - with keep_chunks = 1 the "
    "bound has priority",
    "S3File shares the chunk logic but its boto3 transport is not exercised (no endpoint)",
    "request counts are reported but never judged (retries after 0.5 s client timeouts "
    "on a busy machine make them non-deterministic)"]

CS_POOL = [1, 2, 3, 7, 10, 16, 50, 64, 100, 256, 1000, 1024, 4096]
MAX_OPS = {"quick": 40, "thorough": 60}

# ------------------------------------------------------------------ strategies

_SMALL = st.sampled_from([-2, -1, 0, 0, 1, 2])
_B = st.one_of(_SMALL, st.integers(3, 4099))


@st.composite
def st_op(draw):
    kind = draw(st.sampled_from(["read"] * 6 + ["seek"] * 4 + ["tell"]))
    if kind == "tell":
        return ["tell"]
    if kind == "seek":
        whence = draw(st.sampled_from([0, 0, 0, 1, 1, 2, 2]))
        if whence == 1:
            a = draw(st.integers(-4, 4))
        else:
            a = draw(st.integers(0, 9))
        # last item: 1 = the target may lie beyond the end of the resource
        return ["seek", whence, a, draw(_B),
                draw(st.sampled_from([0, 0, 0, 0, 0, 0, 0, 1]))]
    mode = draw(st.sampled_from(["n"] * 6 + ["bnd"] * 4 + ["eof"] * 2
                                + ["cross", "zero", "rest"]))
    if mode == "rest":
        # "everything up to the end": read(), read(-1), read(None), read(-7)
        return ["read", "rest", draw(st.integers(0, 3)), 0]
    if mode == "zero":
        return ["read", "zero", 0, 0]
    if mode == "eof":
        return ["read", "eof", 0, 0]
    if mode == "cross":
        return ["read", "cross", 0, draw(st.sampled_from([1, 1, 2, 3, 200, 5000]))]
    a = draw(st.sampled_from([0, 0, 0, 1, 1, 2, 3, 5, 9]))
    if mode == "bnd":
        return ["read", "bnd", a, draw(_B)]
    return ["read", "n", a, draw(_B)]


@st.composite
def st_bytes(draw, tier):
    cs = draw(st.one_of(st.sampled_from(CS_POOL), st.integers(1, 4096)))
    keep = draw(st.sampled_from([1, 2, 2, 2, 3, 3, 4, 5, 8]))
    k = draw(st.integers(0, 7))
    d = draw(st.one_of(st.sampled_from([0, 0, 1, -1]), st.integers(-4096, 4096)))
    return {"kind": "bytes", "cs": cs, "keep": keep, "k": k, "d": d,
            "seed": draw(st.integers(0, 2**16)),
            "etag": draw(st.sampled_from([True, True, True, False])),
            "first_fail": draw(st.sampled_from([False, False, False, True])),
            "replaced": draw(st.sampled_from([0, 0, 0, 300, -7, 1, 5000])),
            "ops": draw(st.sampled_from([1, 4, 8, 16, 24]).flatmap(
                lambda lo: st.lists(st_op(), min_size=lo, max_size=MAX_OPS[tier])))}


SCALAR_F = ["deform", "area_um", "bright_avg", "time"]
SCALAR_I = ["fl1_max", "frame"]
NONSC = ["image", "mask", "contour", "trace"]
IMG = (6, 9)
NSAMP = 11
TRACES = ["fl1_raw", "fl2_median"]
COMPRESSIONS = ["zstd", "zstd", "gzip", "none"]
LINE = st.text(alphabet=st.characters(blacklist_categories=("Cs", "Cc")),
               min_size=0, max_size=30)


@st.composite
def st_ds(draw, tier):
    # scalar subset + the non-scalar kinds minus a drop mask whose simplest value
    # is "drop nothing": Hypothesis clumps on simple values, and an essential
    # class must not depend on luck
    feats = draw(st.lists(st.sampled_from(SCALAR_F + SCALAR_I),
                          min_size=1, max_size=4, unique=True))
    drop = draw(st.sampled_from([0, 0, 0, 1, 2, 4, 8, 5, 10, 3, 12, 14, 13, 11, 7]))
    feats = feats + [NONSC[i] for i in range(4) if not (drop >> i) & 1]
    n = draw(boundary_n(10, 40))
    logs = draw(st.integers(0, 2).flatmap(lambda k: st.lists(
        st.lists(LINE, min_size=1, max_size=5), min_size=k, max_size=k)))
    logs = [[ln if ln else "x" for ln in lg] for lg in logs]
    acc = draw(st.lists(st.tuples(
        st.sampled_from(["feat", "feat", "feat", "event", "event", "log",
                         "table", "config"]),
        st.integers(0, 50), st.integers(0, 50)), max_size=12))
    comp = draw(st.sampled_from(COMPRESSIONS))
    # uncompressed + default chunking would allocate a full 1 MiB HDF5 chunk per
    # feature (30 000 range requests per case at chunk_size 256): small chunks then
    chunk = 100 if comp == "none" else draw(st.sampled_from([100, 100, None]))
    return {"kind": "ds",
            "cs": draw(st.sampled_from([256, 512, 1000, 1024, 4096])),
            "keep": draw(st.sampled_from([1, 2, 2, 3, 3, 5, 8])),
            "via": draw(st.sampled_from(["class", "new_dataset"])),
            "etag": draw(st.sampled_from([True, True, False])),
            "n": n, "feats": sorted(feats),
            "vals": draw(st.lists(st_float(0.3), min_size=1, max_size=6)),
            "seed": draw(st.integers(0, 2**16)),
            "chunk": chunk, "comp": comp,
            "logs": logs,
            "table": draw(st.sampled_from([None, 1, 2, 5, None, 6])),
            "sample": draw(st.sampled_from(["s1", "Probe ü", "x y"])),
            "acc": [list(a) for a in acc]}


def strategy(tier):
    # ~ 1 dataset case per 7 byte-level machines
    return st.integers(0, 7).flatmap(
        lambda i: st_ds(tier) if i == 0 else st_bytes(tier))


def sample_view(spec):
    s = dict(spec)
    if "ops" in s and len(s["ops"]) > 14:
        s["ops"] = s["ops"][:14] + [f"... {len(spec['ops'])} ops"]
    return s


# ------------------------------------------------------------------ infrastructure

def setup_shard():
    lib_httpd.start()


def _server():
    return lib_httpd.server()


def _blob(seed, length):
    return np.random.default_rng(int(seed)).bytes(int(length)) if length else b""


# ------------------------------------------------------------------ byte level

def _off(b, cs):
    """offset inside the chunk grid: tiny values literally, others modulo cs"""
    return b if -2 <= b <= 2 else b % cs


def _resolve_seek(op, pos, L, cs):
    """-> (offset argument, whence, resulting absolute position)"""
    _, whence, a, b, past = op
    nch = -(-L // cs)
    lim = L + 2 * cs + 3 if past else L     # keep positions near the resource
    if whence == 0:
        tgt = (a % (nch + 1 + past)) * cs + _off(b, cs)
        tgt = min(max(tgt, 0), lim)
        return tgt, 0, tgt
    if whence == 1:
        off = a * cs + (_off(b, cs) if a >= 0 else -_off(b, cs))
        off = max(off, -pos)
        off = min(off, lim - pos) if pos <= lim else off
        return off, 1, pos + off
    # SEEK_END: backwards from the end, with `past` a little beyond it
    if past:
        off = 1 + a % 3
    else:
        off = -((a % (nch + 1)) * cs + abs(_off(b, cs)))
    off = max(off, -L)
    return off, 2, L + off


def _resolve_read(op, pos, L, cs):
    """number of bytes to read (pos < L is guaranteed for modes n / bnd / eof
    when L > 0: the interpreter rewinds before)"""
    _, mode, a, b = op
    if mode == "zero":
        return 0
    left = L - pos
    if mode == "rest":
        return max(left, 0)
    if mode == "cross":
        return max(left, 0) + b
    if mode == "eof":
        return left if left > 0 else 1
    if mode == "bnd":
        n = (cs - pos % cs) + a * cs
    else:
        n = max(1, a * cs + _off(b, cs))
    if left > 0 and n > left:
        n = left if b % 4 == 1 else max(1, left - (b % 7) - 1)
    return n


def _rewind_target(op, L, cs):
    _, mode, a, b = op
    return ((a * 3 + 1) * cs + b * 7) % L


def _read_class(pos, n, L, cs):
    if n == 0:
        return "zero"
    if pos >= L:
        return "beyond-eof"
    if pos + n > L:
        return "crossing-eof"
    if pos + n == L:
        return "ends-at-eof"
    if (pos + n) % cs == 0:
        return "ends-on-boundary"
    if pos // cs == (pos + n - 1) // cs:
        return "within-chunk"
    return "multi-chunk"


def _needed(pos, n, L, cs):
    """chunk indices that hold the requested in-range bytes"""
    stop = min(pos + n, L)
    if n <= 0 or pos >= stop:
        return set()
    return set(range(pos // cs, (stop - 1) // cs + 1))


def _check_cache(rec, f, blob, cs, keep, ctx, pinned0):
    """cache invariants after an operation; ctx = class of the last read"""
    L = len(blob)
    cache = f.cache
    rec.check(len(cache) <= keep, f"cache/bound/{_keepcls(keep)}",
              lambda: f"{len(cache)} chunks cached {sorted(cache)}, keep_chunks={keep}")
    if pinned0 and keep >= 2:
        rec.check(0 in cache, "cache/chunk0-pinned",
                  lambda: f"chunk 0 was evicted: {sorted(cache)}")
    for idx in sorted(cache):
        chunk = cache[idx]
        if idx * cs < L:
            exp = blob[idx * cs:(idx + 1) * cs]
            where = "last" if (idx + 1) * cs >= L else "inner"
            rec.check(bytes(chunk) == exp, f"cache/content/{where}-chunk",
                      lambda: f"chunk {idx}: {len(chunk)} bytes cached, expected "
                              f"{len(exp)} (L={L}, cs={cs}); equal prefix "
                              f"{_eqprefix(chunk, exp)}")
        else:
            # phantom chunk behind the end of the resource: nothing to hold
            rec.check(len(chunk) == 0,
                      f"cache/phantom-chunk/{ctx}",
                      lambda: f"chunk {idx} starts at {idx * cs} >= L={L} but holds "
                              f"{len(chunk)} bytes (cs={cs})")


def _eqprefix(a, b):
    n = 0
    for x, y in zip(bytes(a), bytes(b)):
        if x != y:
            break
        n += 1
    return n


def _keepcls(keep):
    return "keep1" if keep == 1 else "keep>=2"


def _length(spec):
    """L = k*cs + d with |d| < cs (d in {-1, 0, 1} literally)"""
    cs, d = int(spec["cs"]), int(spec["d"])
    if abs(d) > 1:
        d = (abs(d) % cs) * (1 if d > 0 else -1)
    return abs(int(spec["k"]) * cs + d)


def _run_bytes(spec, rec):
    cs, keep = int(spec["cs"]), int(spec["keep"])
    L = _length(spec)
    blob = _blob(spec["seed"], L)
    srv = _server()
    name = f"blob_{boot._case_counter}_{spec['seed']}.bin"
    url = srv.put(name, blob, etag=spec.get("etag", True))
    rec.cls("kind:bytes")
    rec.cls(f"keep:{keep}")
    if keep == 1:
        rec.cls("keep1")
    if L and L % cs == 0:
        rec.cls("size:multiple-of-chunk")
    elif L % cs == 1:
        rec.cls("size:multiple+1")
    elif L % cs == cs - 1:
        rec.cls("size:multiple-1")
    if L == 0:
        rec.cls("size:0")
    f = http_utils.HTTPFile(url, chunk_size=cs, keep_chunks=keep)
    try:
        if spec.get("first_fail"):
            # transient server error on the very first (header) request: dclab raises
            # ValueError; the same object is used again once the server answers
            srv.fail_once(name, 503)
            try:
                f.length
            except ValueError:
                rec.cls("header:retry-after-503")
            else:
                rec.skip("header:503-not-raised")
        rec.check(f.length == L, "header/length", lambda: f"{f.length} != {L}")
        if spec.get("etag", True):
            rec.check(isinstance(f.etag, str) and len(f.etag) >= 5, "header/etag",
                      lambda: f"etag {f.etag!r}")
        else:
            rec.check(f.etag is None, "header/etag-absent", lambda: f"{f.etag!r}")
        rec.check(f.seekable() is True, "fileobj/seekable", "")
        rec.check(f.max_cache_size == cs * keep, "cache/max-cache-size",
                  lambda: f"{f.max_cache_size}")
        pos = 0                 # model position
        evicted = set()
        nontrivial = False
        ctx = "in-range-reads-only"
        for op in spec["ops"]:
            before = set(f.cache)
            if op[0] == "tell":
                got = f.tell()
                rec.check(got == pos, "tell/explicit", lambda: f"{got} != {pos}")
            elif op[0] == "seek":
                off, whence, newpos = _resolve_seek(op, pos, L, cs)
                f.seek(off, whence)
                pos = newpos
                rec.cls(("seek:set", "seek:cur", "seek:end")[whence])
                got = f.tell()
                if not rec.check(got == pos,
                                 "pos/after-seek/" + ("set", "cur", "end")[whence],
                                 lambda: f"seek({off},{whence}) -> tell {got}, "
                                         f"expected {pos} (L={L})"):
                    f.seek(pos)
                    rec.skip("resync-after-position-failure")
            else:
                if op[1] in ("n", "bnd", "eof") and pos >= L > 0:
                    # in-range read requested while at/behind the end: rewind
                    pos = _rewind_target(op, L, cs)
                    f.seek(pos)
                    rec.cls("seek:auto-rewind")
                    got = f.tell()
                    rec.check(got == pos, "pos/after-seek/set",
                              lambda: f"seek({pos}) -> tell {got}")
                n = _resolve_read(op, pos, L, cs)
                rcls = _read_class(pos, n, L, cs)
                rec.cls("read:" + rcls)
                need = _needed(pos, n, L, cs)
                if len(need) > keep:
                    rec.cls("spans>keep")
                if need & evicted:
                    rec.cls("reread-evicted")
                    nontrivial = True
                    evicted -= need
                if rcls == "ends-on-boundary" or (
                        rcls == "ends-at-eof" and L % cs == 0):
                    nontrivial = True
                exp = blob[pos:pos + n]
                if rcls in ("crossing-eof", "beyond-eof"):
                    ctx = "after-read-beyond-eof"       # sticky
                try:
                    if op[1] == "rest":
                        rec.cls("read:rest-form-" + ["default", "-1", "None", "-7"][op[2] % 4])
                        data = [lambda: f.read(), lambda: f.read(-1),
                                lambda: f.read(None), lambda: f.read(-7)][op[2] % 4]()
                    else:
                        data = f.read(n)
                except KeyError as e:
                    if keep != 1:
                        raise
                    rec.fail("cache/keyerror/keep-chunks-1",
                             f"read({n}) at {pos} raised KeyError({e}) with "
                             f"keep_chunks=1, cache {sorted(f.cache)} (cs={cs}, L={L})")
                    data = None
                if data is not None:
                    rec.check(isinstance(data, bytes), "read/type",
                              lambda: f"{type(data)}")
                    if rcls == "zero":
                        sig = "read/zero-length/data"
                    elif rcls == "crossing-eof":
                        sig = "read/past-eof/crossing-eof"
                    elif rcls == "beyond-eof":
                        sig = "read/past-eof/start-at-or-beyond-eof"
                    else:
                        sig = f"read/in-range/{rcls}/{_keepcls(keep)}"
                    rec.check(bytes(data) == exp, sig,
                              lambda: f"read({n}) at {pos} (cs={cs}, L={L}, keep={keep}): "
                                      f"{len(data)} bytes, expected {len(exp)}; equal "
                                      f"prefix {_eqprefix(data, exp)}; cache "
                                      f"{sorted(f.cache)}")
                    got = f.tell()
                    if rcls == "zero":
                        ok = rec.check(got == pos, "pos/after-zero-length-read",
                                       lambda: f"read(0) at {pos} moved the position "
                                               f"to {got} (L={L})")
                    elif rcls in ("crossing-eof", "beyond-eof"):
                        pos = max(pos, L)       # file semantics: pos += len(data)
                        ok = rec.check(got == pos, "pos/after-read-beyond-eof",
                                       lambda: f"tell {got} after read({n}) that "
                                               f"returned {len(data)} bytes, expected "
                                               f"{pos} (L={L})")
                    else:
                        pos += n
                        ok = rec.check(got == pos, f"pos/after-read/{rcls}",
                                       lambda: f"tell {got}, expected {pos}")
                    if not ok:
                        f.seek(pos)
            after = set(f.cache)
            gone = before - after
            if gone:
                rec.cls("evict", len(gone))
                evicted |= gone
            _check_cache(rec, f, blob, cs, keep, ctx, 0 in before)
        if nontrivial:
            rec.nontrivial()
        if spec.get("replaced"):
            # the resource behind the same URL is replaced (other size, other bytes);
            # a new file object must describe and return the new resource
            L2 = max(0, L + int(spec["replaced"]))
            blob2 = _blob(spec["seed"] + 1, L2)
            srv.put(name, blob2, etag=spec.get("etag", True))
            f2 = http_utils.HTTPFile(url, chunk_size=cs, keep_chunks=keep)
            try:
                rec.cls("url-reused-for-new-resource")
                rec.check(f2.length == L2, "reopen/length",
                          lambda: f"new object on a replaced resource reports length "
                                  f"{f2.length}, the resource has {L2} bytes")
                f2.seek(0)
                got2 = f2.read()
                rec.check(got2 == blob2, "reopen/content",
                          lambda: f"new object on a replaced resource returns "
                                  f"{len(got2)} bytes that differ from the resource "
                                  f"({L2} bytes)")
            finally:
                f2.close()
    finally:
        f.close()
        srv.remove(name)


# ------------------------------------------------------------------ dataset level

class _CfgHTTPFile(http_utils.HTTPFile):
    """HTTPFile with a configurable default chunk size / capacity"""
    cfg = (2**18, 200)
    made = []

    def __init__(self, url, *args, **kwargs):
        if not args:
            kwargs.setdefault("chunk_size", self.cfg[0])
        if len(args) < 2:
            kwargs.setdefault("keep_chunks", self.cfg[1])
        super().__init__(url, *args, **kwargs)
        self.vf_evictions = 0
        self.vf_maxlen = 0
        _CfgHTTPFile.made.append(self)

    def get_cache_chunk(self, index):
        before = set(self.cache)
        try:
            return super().get_cache_chunk(index)
        finally:
            self.vf_evictions += len(before - set(self.cache))
            self.vf_maxlen = max(self.vf_maxlen, len(self.cache))


@contextlib.contextmanager
def _small_chunks(cs, keep):
    old = fmt_http.HTTPFile
    _CfgHTTPFile.cfg = (cs, keep)
    _CfgHTTPFile.made = []
    fmt_http.HTTPFile = _CfgHTTPFile
    try:
        yield
    finally:
        fmt_http.HTTPFile = old


def _compression(name):
    import hdf5plugin
    if name == "zstd":
        return hdf5plugin.Zstd(clevel=1)
    if name == "gzip":
        return {"compression": "gzip", "compression_opts": 4}
    return {"compression": None}


def _build(path, spec):
    n, seed = spec["n"], spec["seed"]
    vals = spec["vals"]
    m = meta(experiment={"sample": spec["sample"]})
    with chunk_bytes(spec["chunk"]):
        with RTDCWriter(path, mode="reset",
                        compression_kwargs=_compression(spec["comp"])) as hw:
            hw.store_metadata(m)
            for j, ft in enumerate(spec["feats"]):
                if ft in SCALAR_F:
                    base = rng_array(seed + j, (n,), "f8")
                    arr = np.array([vals[i % len(vals)] if i % 3 == 0 else base[i]
                                    for i in range(n)], dtype=float)
                    hw.store_feature(ft, arr)
                elif ft in SCALAR_I:
                    r = np.random.default_rng(seed + j)
                    hw.store_feature(ft, r.integers(0, 2**31, size=n))
                elif ft == "image":
                    hw.store_feature(ft, rng_array(seed + j, (n,) + IMG, "u8"))
                elif ft == "mask":
                    hw.store_feature(ft, rng_array(seed + j, (n,) + IMG, "bool"))
                elif ft == "contour":
                    r = np.random.default_rng(seed + j)
                    hw.store_feature(ft, [
                        r.integers(0, 80, size=(int(r.integers(1, 20)), 2))
                        for _ in range(n)])
                elif ft == "trace":
                    for t, nm in enumerate(TRACES):
                        hw.store_feature("trace", {
                            nm: rng_array(seed + j + 7 * t, (n, NSAMP), "i16")})
            for i, lines in enumerate(spec["logs"]):
                hw.store_log(f"log{i}", lines)
            if spec["table"]:
                r = np.random.default_rng(seed + 99)
                rows = spec["table"]
                hw.store_table("tab", {"a": r.normal(size=rows),
                                       "bb": r.normal(size=rows)})


def _kind(ft):
    if dfn.scalar_feature_exists(ft):
        return "scalar"
    return ft if ft in ("contour", "trace") else "image"


def _snapshot_feature(ds, ft):
    """complete content of one feature as plain numpy objects"""
    kind = _kind(ft)
    if kind == "scalar":
        return np.array(ds[ft][:])
    if kind == "contour":
        obj = ds["contour"]
        return [np.array(obj[i]) for i in range(len(obj))]
    if kind == "trace":
        obj = ds["trace"]
        return {t: np.array(obj[t][:]) for t in sorted(obj.keys())}
    obj = ds[ft]
    return np.array([np.array(obj[i]) for i in range(len(obj))])


def _same(a, b):
    if isinstance(a, dict):
        return isinstance(b, dict) and sorted(a) == sorted(b) and all(
            _same(a[k], b[k]) for k in a)
    if isinstance(a, list):
        return isinstance(b, list) and len(a) == len(b) and all(
            _same(x, y) for x, y in zip(a, b))
    a, b = np.asarray(a), np.asarray(b)
    return a.dtype == b.dtype and eqnan(a, b)


def _cfg_dict(ds):
    out = {}
    for sec in sorted(ds.config.keys()):
        out[sec] = {k: ds.config[sec][k] for k in sorted(ds.config[sec].keys())}
    return out


def _cfg_same(a, b):
    if sorted(a) != sorted(b):
        return False
    for sec in a:
        if sorted(a[sec]) != sorted(b[sec]):
            return False
        for k in a[sec]:
            x, y = a[sec][k], b[sec][k]
            if type(x) is not type(y):
                return False
            if isinstance(x, np.ndarray) or isinstance(x, (list, tuple)):
                if not _same(np.asarray(x), np.asarray(y)):
                    return False
            elif not (x == y or (x != x and y != y)):
                return False
    return True


def _tables(ds):
    out = {}
    for k in sorted(ds.tables.keys()):
        tab = ds.tables[k]
        arr = np.array(tab[:])
        out[k] = ({c: np.array(arr[c]) for c in arr.dtype.names},
                  {a: (v.tolist() if isinstance(v, np.ndarray) else v)
                   for a, v in sorted(dict(tab.attrs).items())})
    return out


def _run_ds(spec, rec):
    rec.cls("kind:ds")
    cs, keep = int(spec["cs"]), int(spec["keep"])
    kc = _keepcls(keep)
    d = boot.casedir()
    srv = _server()
    name = f"ds_{boot._case_counter}_{spec['seed']}.rtdc"
    try:
        path = d / "local.rtdc"
        _build(path, spec)
        blob = path.read_bytes()
        url = srv.put(name, path, etag=spec.get("etag", True))
        # ---- reference: the same file opened locally
        with dclab.new_dataset(path) as ref:
            r_len = len(ref)
            r_innate = sorted(ref.features_innate)
            r_feats = sorted(ref.features)
            r_loaded = sorted(ref.features_loaded)
            r_scalar = sorted(ref.features_scalar)
            r_data = {ft: _snapshot_feature(ref, ft) for ft in r_innate}
            r_cfg = _cfg_dict(ref)
            r_logs = {k: list(ref.logs[k]) for k in sorted(ref.logs.keys())}
            r_tabs = _tables(ref)
            r_title = ref.title
        for ft in r_innate:
            k_ = _kind(ft)
            rec.cls("ds:" + (ft if k_ == "image" else k_))
        if r_logs:
            rec.cls("ds:log")
        if r_tabs:
            rec.cls("ds:table")
        if keep == 1:
            rec.cls("ds:keep1")
        # ---- the same bytes over HTTP
        with _small_chunks(cs, keep):
            try:
                if spec["via"] == "class":
                    ds = fmt_http.RTDC_HTTP(url)
                else:
                    ds = dclab.new_dataset(url)
            except KeyError as e:
                if keep != 1:
                    raise
                rec.fail("cache/keyerror/keep-chunks-1",
                         f"opening the dataset with keep_chunks=1 raised KeyError({e})")
                return
            try:
                rec.check(isinstance(ds, fmt_http.RTDC_HTTP), "ds/class",
                          lambda: type(ds).__name__)
                rec.check(ds.format == "http", "ds/format", lambda: ds.format)
                rec.check(ds.path == url, "ds/path", lambda: f"{ds.path!r}")
                fobj = ds._fhttp
                rec.check(isinstance(fobj, _CfgHTTPFile)
                          and fobj._chunk_size == cs and fobj._keep_chunks == keep,
                          "harness/http-file-configured", "")
                if spec.get("etag", True):
                    rec.check(ds.identifier == fobj.etag and fobj.etag,
                              "ds/identifier-is-etag",
                              lambda: f"{ds.identifier!r} vs {fobj.etag!r}")
                rec.check(len(ds) == r_len, f"ds/len/{kc}",
                          lambda: f"{len(ds)} != {r_len}")
                rec.check(sorted(ds.features_innate) == r_innate,
                          f"ds/features-innate/{kc}",
                          lambda: f"{sorted(ds.features_innate)} vs {r_innate}")
                rec.check(sorted(ds.features) == r_feats, f"ds/features/{kc}",
                          lambda: f"{sorted(set(ds.features) ^ set(r_feats))}")
                rec.check(sorted(ds.features_loaded) == r_loaded,
                          f"ds/features-loaded/{kc}",
                          lambda: f"{sorted(set(ds.features_loaded) ^ set(r_loaded))}")
                rec.check(sorted(ds.features_scalar) == r_scalar,
                          f"ds/features-scalar/{kc}", "")
                rec.check(ds.title == r_title, f"ds/title/{kc}", "")

                def feat_whole(ft):
                    got = _snapshot_feature(ds, ft)
                    rec.check(_same(got, r_data[ft]),
                              f"ds/values/{_kind(ft)}/whole/{kc}",
                              lambda: f"{ft}: data over HTTP differ from the local file")

                def feat_event(ft, i):
                    kind = _kind(ft)
                    i = i % r_len
                    if kind == "trace":
                        names = sorted(r_data[ft])
                        t = names[i % len(names)]
                        got, exp = np.array(ds["trace"][t][i]), r_data[ft][t][i]
                    else:
                        got, exp = np.array(ds[ft][i]), r_data[ft][i]
                    rec.check(_same(got, exp), f"ds/values/{kind}/event/{kc}",
                              lambda: f"{ft}[{i}] differs")

                def cache_ok():
                    bound = keep
                    rec.check(len(fobj.cache) <= bound and fobj.vf_maxlen <= bound,
                              f"ds/cache/bound/{kc}",
                              lambda: f"{len(fobj.cache)} chunks (max seen "
                                      f"{fobj.vf_maxlen}), keep_chunks={keep}")

                cache_ok()
                # generated access program (order, granularity) ...
                for what, x, y in spec["acc"]:
                    if what == "feat":
                        feat_whole(r_innate[x % len(r_innate)])
                    elif what == "event":
                        feat_event(r_innate[x % len(r_innate)], y)
                    elif what == "log" and r_logs:
                        k_ = sorted(r_logs)[x % len(r_logs)]
                        rec.check(list(ds.logs[k_]) == r_logs[k_], f"ds/log/{kc}",
                                  lambda: f"{k_}")
                    elif what == "table" and r_tabs:
                        rec.check(_same_tabs(_tables(ds), r_tabs), f"ds/table/{kc}", "")
                    elif what == "config":
                        rec.check(_cfg_same(_cfg_dict(ds), r_cfg), f"ds/config/{kc}", "")
                    cache_ok()
                # ... followed by everything
                for ft in r_innate:
                    rec.check(ft in ds, f"ds/contains/{kc}", ft)
                    feat_whole(ft)
                    cache_ok()
                cfg = _cfg_dict(ds)
                rec.check(_cfg_same(cfg, r_cfg), f"ds/config/{kc}",
                          lambda: f"{_cfg_diff(cfg, r_cfg)}")
                logs = {k: list(ds.logs[k]) for k in sorted(ds.logs.keys())}
                rec.check(logs == r_logs, f"ds/log/{kc}",
                          lambda: f"{sorted(logs)} vs {sorted(r_logs)}")
                tabs = _tables(ds)
                rec.check(_same_tabs(tabs, r_tabs), f"ds/table/{kc}",
                          lambda: f"{sorted(tabs)} vs {sorted(r_tabs)}")
                cache_ok()
                # cached chunks are slices of the served file
                L = len(blob)
                for idx in sorted(fobj.cache):
                    if idx * cs < L:
                        rec.check(bytes(fobj.cache[idx]) == blob[idx * cs:(idx + 1) * cs],
                                  "ds/cache/content", lambda: f"chunk {idx}")
                    else:
                        rec.check(len(fobj.cache[idx]) == 0,
                                  "ds/cache/phantom-chunk",
                                  lambda: f"chunk {idx} behind EOF holds "
                                          f"{len(fobj.cache[idx])} bytes (L={L}, cs={cs})")
                if L % cs == 0:
                    rec.cls("ds:size-multiple-of-chunk")
                if fobj.vf_evictions:
                    rec.cls("ds:evict")
                    rec.nontrivial()
            except KeyError as e:
                if keep != 1 or "get_cache_chunk" not in _tbnames(e):
                    raise
                rec.fail("cache/keyerror/keep-chunks-1",
                         f"reading the dataset with keep_chunks=1 raised KeyError({e})")
            finally:
                ds.close()
    finally:
        srv.remove(name)
        boot.rmcase(d)


def _tbnames(exc):
    import traceback
    return [fr.name for fr in traceback.extract_tb(exc.__traceback__)]


def _same_tabs(a, b):
    if sorted(a) != sorted(b):
        return False
    for k in a:
        if not _same(a[k][0], b[k][0]) or a[k][1] != b[k][1]:
            return False
    return True


def _cfg_diff(a, b):
    out = []
    for sec in sorted(set(a) | set(b)):
        for k in sorted(set(a.get(sec, {})) | set(b.get(sec, {}))):
            x, y = a.get(sec, {}).get(k), b.get(sec, {}).get(k)
            if repr(x) != repr(y):
                out.append(f"[{sec}] {k}: {x!r} vs {y!r}")
    return out[:6]


def run_case(spec, rec):
    import requests
    try:
        _run_case(spec, rec)
    except requests.exceptions.RequestException as e:
        # 100 consecutive client timeouts (0.5 s each) on an overloaded machine:
        # the case is inconclusive, never a verdict
        rec.skip(f"transport-failure-inconclusive:{type(e).__name__}")


def enumerate_cases(tier):
    """the S3 file object (own range download, fixed chunk size of 2**18 bytes)
    against the loopback server as unsigned path-style endpoint"""
    cs = 2 ** 18
    return [{"kind": "s3bytes", "L": L, "seed": 7 + i}
            for i, L in enumerate([2 * cs + 77, 2 * cs, cs + 1, 3 * cs - 1, 1000])]


def _run_s3bytes(spec, rec):
    try:
        from dclab.rtdc_dataset.fmt_s3 import S3File, BOTO3_AVAILABLE
    except ImportError:
        BOTO3_AVAILABLE = False
    if not BOTO3_AVAILABLE:
        rec.skip("s3:boto3-not-available")
        return
    srv = _server()
    cs, L = 2 ** 18, int(spec["L"])
    blob = _blob(spec["seed"], L)
    name = f"vf-bucket/s3-{boot._case_counter}-{spec['seed']}.bin"
    srv.put(name, blob)
    rec.cls("kind:s3bytes")
    rec.nontrivial()
    f = S3File(name, endpoint_url=srv.base_url.rstrip("/"), use_ssl=False)
    try:
        rec.check(f.length == L, "s3/length", lambda: f"{f.length} != {L}")
        reads = [(0, 10), (L - 5, 100), (max(L - 1, 0), 1)]
        for b in range(cs, L + 1, cs):
            reads += [(b - 10, 50), (b - 50, 50), (b, 10), (b - 1, 1), (b - 1, 2)]
        reads += [(3, L), (0, None)]
        for pos, n in reads:
            pos = max(0, pos)
            f.seek(pos)
            data = f.read() if n is None else f.read(n)
            exp = blob[pos:] if n is None else blob[pos:pos + n]
            kind = ("whole" if n is None or n >= L - 3 else
                    "crossing" if pos // cs != (pos + max(n, 1) - 1) // cs else
                    "ends-on-boundary" if (pos + n) % cs == 0 else "inner")
            rec.cls("s3:read-" + kind)
            rec.check(bytes(data) == exp, f"s3/read/{kind}",
                      lambda: f"S3File: seek({pos}); read({n}) returned {len(data)} "
                              f"bytes, expected {len(exp)} (L={L}); equal prefix "
                              f"{_eqprefix(data, exp)}")
            rec.check(f.tell() == pos + len(exp), f"s3/pos/{kind}",
                      lambda: f"position {f.tell()} after seek({pos}); read({n}), "
                              f"expected {pos + len(exp)}")
    finally:
        f.close()
        srv.remove(name)


def _run_case(spec, rec):
    _server()   # replay path: no setup_shard
    if spec["kind"] == "bytes":
        _run_bytes(spec, rec)
        return
    if spec["kind"] == "s3bytes":
        _run_s3bytes(spec, rec)
        return
    # The server lives in this process.  While h5py reads through the HTTP file
    # object it holds its global lock; a cyclic garbage collection that happens
    # to run in a *server* thread and finalises an h5py object would wait for
    # that lock while the reader waits for the server (0.5 s client timeouts,
    # retries).  Collect before and keep the collector off while h5py reads.
    gc.collect()
    gc.disable()
    try:
        _run_ds(spec, rec)
    finally:
        gc.enable()
