"""C02 — HDF5 / TSV export contains exactly the selected events and features.

Generator: a dataset specification `DS` (n <= 64 events; float / integer scalar
features with NaN, inf, -0.0, subnormals; image, image_bg, mask, contour, trace,
qpi_pha, a non-scalar temporary feature and a non-scalar plugin feature; logs,
tables, metadata incl. a `user` section) is materialised as one of the source
kinds

  dict      RTDC_Dict of arrays
  lazy      RTDC_Dict whose image-like features are *non-sliceable* objects with
            exactly the interface of the tdms image column (integer indexing
            only, `shape`, `dtype`, `len`) -> event-wise chunk assembly
  hdf5      file written with RTDCWriter (own chunk configuration), re-opened
  short     hdf5 file whose image-like features hold fewer events than the
            scalars (truncated recording) -> documented limiting to the
            shortest feature
  basin     small file with few features + file basin (same / mapped, map also in
            decreasing order) to the full file
  tdms      one of the fixtures of tests/data (unzipped to scratch)

optionally wrapped in 1-2 levels of hierarchy children, filtered with a manual
mask (empty, full, single, |sel| around the export chunk size) and/or a box
filter, exported with `export.hdf5` (feature subsets with duplicates, logs,
tables, basins, skip_checks, meta_prefix, compression, override) and
`export.tsv`.

Oracle: the expected content is computed from the *generated arrays* (not read
back through dclab) indexed with the composition of the masks; the exported
file is compared through dclab and through raw h5py.  For tdms fixtures the
reference is event-wise integer access of the source.
"""
import json
import re
import zipfile
import pathlib

import h5py
import numpy as np
from hypothesis import strategies as st

from .. import boot
from ..common import chunk_bytes, eqnan, meta as base_meta, SPECIAL_FLOATS

import dclab
from dclab import RTDCWriter
from dclab.rtdc_dataset import feat_temp, export as dexport
from dclab.rtdc_dataset.feat_anc_plugin import PlugInFeature
from dclab.rtdc_dataset import writer as dwriter

ID = "C02"
RULE = ("Hypothesis-generated (source kind x hierarchy depth x masks per level x box "
        "filter x feature list with duplicates x export flags x chunk configuration); "
        "non-trivial = filtered export whose selection is neither empty nor full, "
        "holds more events than one export chunk of a requested non-scalar feature "
        "and is not a multiple of that chunk size; distinct = sha1 of the spec")
BUDGET = {"quick": 1920, "thorough": 16000}
ESSENTIAL = ["src:dict", "src:lazy", "src:hdf5", "src:short", "src:basin", "src:tdms",
             "depth:1", "depth:2", "sel:empty", "sel:full", "sel:single",
             "sel:c-1", "sel:c", "sel:c+1", "sel:>2c", "unfiltered",
             "kind:image", "kind:mask", "kind:contour", "kind:trace",
             "kind:usershaped", "kind:plugin", "kind:qpi", "duplicates",
             "logs", "tables", "tsv", "fastpath-full-hdf5", "slowpath-remainder",
             "limited-by-shortest", "features-default", "box-filter",
             "box-filter-parent"]
ASSUMPTIONS = [
    "version shim so that files written by the untagged build re-open",
    "source kind 'lazy' = RTDC_Dict holding objects with exactly the interface of the "
    "tdms image column (integer indexing only); used at depth 0 and filtered=True only, "
    "because slicing such columns is a documented rejection (NotImplementedError)",
    "the selection of every level (parents and the exported dataset) is the snapshot of "
    "its ds.filter.all; the values come from the generated arrays, never from dclab readers",
    "tdms sources: the 7 fixtures only, reference = event-wise integer access of a second "
    "instance of the source read in increasing order, at least one scalar feature "
    "requested (non-scalar columns of the fixtures are shorter than the dataset)",
    "basins=True only for sources with a measurement identifier and without upstream "
    "basins (C14 / C07 domains); the stored basin definitions are not asserted here",
    "features=[] and skip_checks=True with features of unequal length are not generated",
    "tdms features that the writer stores unsigned (fl?_max ...) and that hold negative "
    "values in a fixture are not requested (counted)",
    "box filters of the harness model: lo <= x <= hi, NaN excluded; on disagreement with "
    "ds.filter.all the latter defines the selection (counted; filter semantics are C03)",
    "log lines exclude NUL / control characters"]

IMG = (6, 9)        # 54 bytes / event
VEC = 7
PLUG = 3
NSAMP = 11
FLOAT_SC = ["deform", "area_um", "bright_avg", "time", "userdef0", "pos_x"]
INT_SC = ["frame", "fl1_max", "nevents", "index_online"]
IMGLIKE = ["image", "image_bg", "mask", "qpi_pha", "vf_vec"]
NONSC = IMGLIKE + ["contour", "trace", "vf_plug"]
ALLF = FLOAT_SC + INT_SC + NONSC
FIDX = {f: i for i, f in enumerate(ALLF)}
TRACES = ["fl1_raw", "fl2_median", "fl3_raw"]
KIND = {"image": "image", "image_bg": "image", "mask": "mask", "qpi_pha": "qpi",
        "vf_vec": "usershaped", "vf_plug": "plugin", "contour": "contour",
        "trace": "trace"}
UINT32 = ["fl1_max", "nevents"]

TDMS = ["fmt-tdms_minimal_2016", "fmt-tdms_fl-image_2016",
        "fmt-tdms_fl-image-bright_2017", "fmt-tdms_2fl-no-image_2017",
        "fmt-tdms_fl-image-large-fov_2017", "fmt-tdms_fl_2015",
        "fmt-tdms_shapein-2.0.1-no-image_2017"]
TDMS_NONSC = ["image", "mask", "contour", "trace"]

LINE = st.text(alphabet=st.characters(blacklist_categories=("Cs", "Cc")),
               max_size=30)
LONGLINE = st.builds(lambda c, k: c * k, st.sampled_from(["x", "ü", "€", "a b"]),
                     st.integers(90, 140))
USERVALS = [1, 0, -3, 2.5, -0.125, "anna", "Größe µ", True, False]


def kind(f):
    return KIND.get(f, "scalar")


# ------------------------------------------------------------------ strategy

@st.composite
def st_mask(draw, c, role="final"):
    if role == "parent":
        modes = ["drop", "drop", "bits", "k", "all"]
        ks = [2 * c + 3, 3 * c + 1, 3 * c + 4, 4 * c + 2, 2 * c + 1]
    elif role == "tdms":
        modes = ["drop", "drop", "all", "bits", "none", "one"]
        ks = [c]
    else:
        modes = ["k"] * 6 + ["bits", "bits", "all", "none", "one", "drop"]
        ks = [c - 1, c, c + 1, 2 * c - 1, 2 * c, 2 * c + 1, c + 3, 2 * c + 3,
              3 * c + 1, 2, 5]
    mode = draw(st.sampled_from(modes))
    m = {"mode": mode, "seed": draw(st.integers(0, 2**16))}
    if mode == "k":
        m["k"] = draw(st.sampled_from(ks))
    elif mode == "bits":
        m["bits"] = draw(st.lists(st.booleans(), min_size=1, max_size=12))
    elif mode == "drop":
        m["k"] = draw(st.integers(1, 4))
    return m


@st.composite
def st_spec(draw):
    chunk = draw(st.sampled_from([100, 100, 100, 100, 100, 1000, 1000, None]))
    c = {100: 10, 1000: 18, None: 10}[chunk]
    src = draw(st.sampled_from(["dict", "dict", "lazy", "lazy", "hdf5", "hdf5",
                                "hdf5", "short", "basin", "basin", "tdms", "tdms"]))
    spec = {"chunk": chunk, "src": src, "seed": draw(st.integers(0, 2**20))}
    spec["filtered"] = draw(st.sampled_from([True, True, True, False]))
    spec["enable"] = draw(st.sampled_from([True] * 9 + [False]))
    spec["flags"] = {
        "logs": draw(st.booleans()), "tables": draw(st.booleans()),
        "basins": draw(st.sampled_from([False, False, False, True])),
        "skip_checks": draw(st.sampled_from([False, False, True])),
        "prefix": draw(st.sampled_from(["src_", "src_", "x-"])),
        "compression": draw(st.sampled_from(["default", "default", "none", "gzip"])),
        "path": draw(st.sampled_from(["path", "str", "nosuffix", "override",
                                      "nosuffix_override"])),
    }
    spec["tsv"] = draw(st.sampled_from([True, False]))
    spec["tsv_filtered"] = draw(st.sampled_from([True, True, False]))
    if src == "tdms":
        spec["fixture"] = draw(st.sampled_from([0, 0, 0, 1, 1, 2, 3, 4, 5, 6]))
        spec["depth"] = 0
        spec["masks"] = [draw(st_mask(10, "tdms"))]
        spec["export"] = draw(st.lists(st.integers(0, 30), min_size=1, max_size=4))
        spec["nonsc"] = draw(st.lists(st.sampled_from(TDMS_NONSC), max_size=4))
        spec["flags"]["basins"] = False
        return spec
    if src == "lazy":
        depth = 0
        spec["filtered"] = True
    elif src == "short":
        depth = 0      # a child cannot know that its parent's images end early
    else:
        depth = draw(st.sampled_from([0, 0, 0, 1, 1, 2]))
    spec["depth"] = depth
    big = [c + 1, 2 * c - 1, 2 * c, 2 * c + 1, 2 * c + 3, 3 * c + 1, 3 * c + 4, 64]
    small = [1, 2, 3, c - 1, c]
    if depth == 0:
        n = draw(st.sampled_from(big + big + big + small))
    else:
        n = draw(st.sampled_from([3 * c + 4, 4 * c + 3, 50, 64, 64, 2 * c + 1, c]))
    spec["n"] = n
    nf = draw(st.integers(1, 3))
    feats = draw(st.lists(st.sampled_from(FLOAT_SC), min_size=nf, max_size=nf,
                          unique=True))
    feats += draw(st.lists(st.sampled_from(INT_SC), max_size=2, unique=True))
    feats += draw(st.lists(st.sampled_from(NONSC), min_size=1, max_size=4,
                           unique=True))
    if src in ("lazy", "short") and not set(feats) & set(IMGLIKE):
        feats.append(draw(st.sampled_from(IMGLIKE)))
    if "vf_plug" in feats:
        for f in ("deform", "area_um"):
            if f not in feats:
                feats.append(f)
    spec["feats"] = sorted(set(feats), key=ALLF.index)
    spec["specials"] = draw(st.lists(
        st.tuples(st.integers(0, 5), st.integers(0, 63),
                  st.integers(0, len(SPECIAL_FLOATS) - 1)).map(list), max_size=5))
    spec["traces"] = draw(st.lists(st.sampled_from(TRACES), min_size=1, max_size=3,
                                   unique=True))
    spec["masks"] = [draw(st_mask(c, "parent")) for _ in range(depth)] \
        + [draw(st_mask(c))]
    BOX = st.tuples(st.integers(0, 5), st.integers(-8, 8), st.integers(-8, 8)).map(list)
    spec["box"] = draw(st.one_of(st.none(), st.none(), st.none(), st.none(), BOX))
    spec["pbox"] = [draw(st.one_of(st.none(), st.none(), BOX)) for _ in range(depth)]
    # export list: indices into the available features (+ "index"), with duplicates
    spec["export"] = draw(st.lists(st.integers(0, 30), min_size=1, max_size=7))
    spec["export_all"] = draw(st.sampled_from([False, False, False, True, True,
                                               "default"]))
    spec["temp_in_file"] = draw(st.booleans())
    spec["split"] = draw(st.integers(0, 64))
    spec["nlogs"] = draw(st.integers(0, 2))
    spec["loglines"] = draw(st.lists(st.one_of(LINE, LINE, LONGLINE), min_size=1,
                                     max_size=4))
    spec["ntables"] = draw(st.integers(0, 2))
    spec["user"] = draw(st.lists(st.integers(0, len(USERVALS) - 1), max_size=3))
    spec["runid"] = draw(st.sampled_from(["rid"] * 5 + ["none", "none", "noid"]))
    spec["basin_mapped"] = draw(st.booleans())
    spec["basin_stored"] = draw(st.integers(1, 3))
    return spec


def strategy(tier):
    return st_spec()


RICH = ["deform", "area_um", "time", "frame", "fl1_max", "image", "mask", "qpi_pha",
        "vf_vec", "contour", "trace", "vf_plug"]


def _fixed(src, mask, depth=0, n=34, filtered=True, **over):
    """hand-made spec (deterministic part: every essential class is present in
    every run, independent of the seed)"""
    spec = {
        "chunk": 100, "src": src, "seed": 4242 + 7 * depth + (mask.get("k") or 0),
        "filtered": filtered, "enable": True,
        "flags": {"logs": True, "tables": True, "basins": False,
                  "skip_checks": False, "prefix": "src_", "compression": "default",
                  "path": "path"},
        "tsv": True, "tsv_filtered": True, "depth": depth, "n": n,
        "feats": list(RICH), "specials": [[0, 3, 0], [1, 5, 1], [2, 0, 3]],
        "traces": ["fl1_raw", "fl3_raw"],
        "masks": [{"mode": "drop", "k": 2, "seed": 5 + i} for i in range(depth)]
        + [mask],
        "box": None, "export": [0, 5, 5, 30], "export_all": True,
        "temp_in_file": True, "split": 13, "nlogs": 2,
        "loglines": ["first line", "", "zweite Zeile äöü €", "x" * 120],
        "ntables": 2, "user": [0, 5, 7], "runid": "rid", "basin_mapped": False,
        "basin_stored": 2}
    if src == "tdms":
        spec.update(fixture=over.pop("fixture", 0), export=[0, 3, 3],
                    nonsc=["mask", "contour", "image", "trace"])
    spec.update(over)
    return spec


def enumerate_cases(tier):
    K = [{"mode": "k", "k": k, "seed": 11 + k} for k in (9, 10, 11, 21, 23)]
    M = K + [{"mode": "all", "seed": 1}, {"mode": "none", "seed": 1},
             {"mode": "one", "seed": 3}]
    for src in ("dict", "lazy", "hdf5", "basin"):
        for m in M:
            yield _fixed(src, m)
    for m in K[2:]:
        yield _fixed("basin", m, basin_mapped=True, split=9)
        yield _fixed("short", m, split=26)
        yield _fixed("short", m, split=11, filtered=False)
    for src in ("dict", "hdf5", "basin"):
        for depth in (1, 2):
            for m in K[2:]:
                yield _fixed(src, m, depth=depth, n=64, temp_in_file=(depth == 1),
                             pbox=[[1, -8, 7], None][:depth])
    yield _fixed("basin", M[5], basin_mapped=True, split=9)
    yield _fixed("basin", M[5], basin_mapped=True, split=9, filtered=False)
    for src in ("dict", "hdf5"):
        yield _fixed(src, M[5], filtered=False)
        yield _fixed(src, K[3], chunk=1000, n=64)
        yield _fixed(src, K[3], chunk=None)
    for src, depth in (("dict", 0), ("hdf5", 0), ("hdf5", 1), ("lazy", 0)):
        yield _fixed(src, K[4], depth=depth, n=40, export_all="default")
        yield _fixed(src, K[3], depth=depth, n=40, box=[0, -8, 8])
    for fx in (0, 1, 2, 3):
        for m in ({"mode": "all", "seed": 1}, {"mode": "drop", "k": 2, "seed": 9},
                  {"mode": "bits", "bits": [True, True, False], "seed": 1}):
            yield _fixed("tdms", m, fixture=fx)


def sample_view(spec):
    s = dict(spec)
    s.pop("loglines", None)
    return s


# ------------------------------------------------------------ data generation

def gen_feature(f, n, seed, spec):
    r = np.random.default_rng([int(seed), FIDX[f]])
    if f in FLOAT_SC:
        a = r.normal(size=n) * 10.0 ** r.integers(-3, 4, size=n)
        return a.astype(np.float64)
    if f == "frame":
        a = np.cumsum(r.integers(1, 6, size=n)).astype(np.uint64)
        if seed % 3 == 0:
            a = a + np.uint64(2**40)
        return a
    if f == "fl1_max":
        a = r.integers(0, 70000, size=n).astype(np.int64)
        if seed % 2:
            a[r.integers(0, n)] = 2**32 - 1
        return a
    if f in ("nevents", "index_online"):
        return r.integers(0, 5000, size=n).astype(np.int64)
    if f in ("image", "image_bg"):
        return r.integers(0, 256, size=(n,) + IMG, dtype=np.uint8)
    if f == "mask":
        return r.integers(0, 2, size=(n,) + IMG).astype(bool)
    if f == "qpi_pha":
        return r.normal(size=(n,) + IMG).astype(np.float32)
    if f == "vf_vec":
        a = r.normal(size=(n, VEC))
        a[r.integers(0, n), r.integers(0, VEC)] = np.nan
        return a
    if f == "contour":
        return [r.integers(0, 250, size=(int(r.integers(1, 15)), 2))
                for _ in range(n)]
    if f == "trace":
        return {t: r.integers(-2000, 2000, size=(n, NSAMP)).astype(np.int16)
                for t in sorted(spec["traces"])}
    raise ValueError(f)


def plug_model(deform, area):
    return np.stack([deform, area * 2.0, deform + area], axis=1)


def plug_method(ds):
    d = np.asarray(ds["deform"], dtype=float)
    a = np.asarray(ds["area_um"], dtype=float)
    return {"vf_plug": np.stack([d, a * 2.0, d + a], axis=1)}


def build_data(spec):
    n, seed = spec["n"], spec["seed"]
    data = {}
    for f in spec["feats"]:
        if f != "vf_plug":
            data[f] = gen_feature(f, n, seed, spec)
    fl = [f for f in spec["feats"] if f in FLOAT_SC]
    for fi, pos, si in spec["specials"]:
        data[fl[fi % len(fl)]][pos % n] = SPECIAL_FLOATS[si]
    if "vf_plug" in spec["feats"]:
        data["vf_plug"] = plug_model(data["deform"], data["area_um"])
    return data


def expand_mask(m, size):
    """pure function (mask spec, level size) -> bool array"""
    out = np.zeros(size, dtype=bool)
    if size == 0:
        return out
    r = np.random.default_rng(int(m["seed"]))
    mode = m["mode"]
    if mode == "all":
        out[:] = True
    elif mode == "none":
        pass
    elif mode == "one":
        out[int(r.integers(0, size))] = True
    elif mode == "k":
        k = max(0, min(size, m["k"]))
        out[r.permutation(size)[:k]] = True
    elif mode == "drop":
        out[:] = True
        out[r.permutation(size)[:min(size, m["k"])]] = False
    else:
        bits = m["bits"]
        out[:] = [bits[i % len(bits)] for i in range(size)]
    return out


class Lazy:
    """non-sliceable column with the interface of the tdms `ImageColumn`"""

    def __init__(self, arr):
        self._a = arr
        self.shape = arr.shape
        self.dtype = arr.dtype
        self.identifier = "vf-lazy"

    def __getitem__(self, idx):
        import numbers
        if not isinstance(idx, numbers.Integral):
            raise NotImplementedError("lazy column: scalar integers only")
        return self._a[int(idx)]

    def __len__(self):
        return len(self._a)


def make_meta(spec):
    m = base_meta()
    if spec["runid"] == "none":
        m["experiment"].pop("run identifier")
    elif spec["runid"] == "noid":
        m["experiment"].pop("run identifier")
        m["setup"].pop("identifier")
    m["experiment"]["sample"] = "Probe ü %d" % (spec["seed"] % 7)
    m["imaging"]["roi size x"] = 250
    m["imaging"]["roi size y"] = 80
    m["imaging"]["roi position x"] = 16
    m["online_contour"] = {"no absdiff": True, "bin area min": 10}
    if "trace" in spec["feats"] or "fl1_max" in spec["feats"]:
        m["fluorescence"] = {"laser count": 1, "sample rate": 312500,
                             "samples per event": 99, "bit depth": 16,
                             "channels installed": 3, "laser 1 lambda": 488.0,
                             "laser 1 power": 5.0}
    if spec["user"]:
        m["user"] = {"key %d" % i: USERVALS[v] for i, v in enumerate(spec["user"])}
    return m


def make_logs(spec):
    names = ["l0", "ü-log"][: spec["nlogs"]]
    ll = spec["loglines"]
    return {nm: [ll[(i + j) % len(ll)] for j in range(1 + (len(ll) + i) % 4)]
            for i, nm in enumerate(names)}


def make_tables(spec):
    out = {}
    for i in range(spec["ntables"]):
        r = np.random.default_rng([spec["seed"], 1000 + i])
        cols = ["time", "temp_c", "flow"][: 1 + (spec["seed"] + i) % 3]
        rows = 1 + (spec["seed"] + 3 * i) % 5
        dt = np.dtype({"names": cols, "formats": [np.float64] * len(cols)})
        arr = np.zeros(rows, dtype=dt)
        for c in cols:
            arr[c] = r.normal(size=rows)
        out["t%d" % i] = arr
    return out


# ------------------------------------------------------------------ sources

def _write_file(path, data, feats, meta, logs, tables, spec, short=None):
    n = spec["n"]
    s = spec["split"] % (n + 1)
    parts = [(0, s), (s, n)] if 0 < s < n else [(0, n)]
    with RTDCWriter(path, mode="reset") as hw:
        hw.store_metadata(meta)
        for a, b in parts:
            for f in feats:
                hi = b
                if short is not None and f in short[1]:
                    hi = min(b, short[0])
                if hi <= a:
                    continue
                if f == "contour":
                    hw.store_feature(f, data[f][a:hi])
                elif f == "trace":
                    hw.store_feature(f, {t: v[a:hi] for t, v in data[f].items()})
                elif f == "vf_vec":
                    hw.store_feature(f, data[f][a:hi], shape=(VEC,))
                else:
                    hw.store_feature(f, data[f][a:hi])
        for nm, lines in logs.items():
            hw.store_log(nm, lines)
        for nm, arr in tables.items():
            hw.store_table(nm, arr.view(np.recarray))
    if tables:
        with h5py.File(path, "a") as h5:
            for nm in tables:
                h5["tables"][nm].attrs["COLOR_a"] = "#ff0000"
                h5["tables"][nm].attrs["num"] = 3


class Source:
    """the root dataset + everything the oracle needs to know about it"""

    def __init__(self):
        self.ds = None
        self.closers = []
        self.n = 0
        self.avail = []         # features that may be requested
        self.ref = None         # callable (feat, root_indices) -> expected data
        self.meta = None
        self.logs = {}
        self.tables = {}
        self.table_attrs = False
        self.limit = None       # (l_min, set of short features)
        self.innate = None      # features_innate by construction (None: not used)
        self.rootmap = None


def build_source(spec, d, rec):
    S = Source()
    src = spec["src"]
    if src == "tdms":
        return build_tdms(spec, d, rec, S)
    data = build_data(spec)
    n = spec["n"]
    meta = make_meta(spec)
    logs = make_logs(spec)
    tables = make_tables(spec)
    feats = list(spec["feats"])
    file_feats = [f for f in feats if f != "vf_plug"]
    if "vf_vec" in feats:
        feat_temp.register_temporary_feature("vf_vec", is_scalar=False)
    if "vf_plug" in feats:
        PlugInFeature("vf_plug", {
            "method": plug_method, "feature names": ["vf_plug"],
            "feature shapes": [(PLUG,)], "scalar feature": [False],
            "features required": ["deform", "area_um"]})
    S.n = n
    S.meta, S.logs, S.tables = meta, logs, tables
    rootmap = np.arange(n)
    if src in ("dict", "lazy"):
        dd = {}
        for f in file_feats:
            v = data[f]
            if f == "contour":
                v = list(v)
            elif f == "trace":
                v = dict(v)
            elif src == "lazy" and f in IMGLIKE:
                v = Lazy(v)
            dd[f] = v
        ds = dclab.new_dataset(dd)
        S.innate = list(dd)
        for sec, kv in meta.items():
            for k, v in kv.items():
                ds.config[sec][k] = v
        for nm, lines in logs.items():
            ds.logs[nm] = list(lines)
        for nm, arr in tables.items():
            ds.tables[nm] = arr.view(np.recarray)
        S.meta = dict(meta)
    elif src in ("hdf5", "short"):
        path = d / "src.rtdc"
        short = None
        tmp_later = "vf_vec" in feats and not spec["temp_in_file"]
        ff = [f for f in file_feats if not (tmp_later and f == "vf_vec")]
        if src == "short":
            cand = [f for f in ff if f in IMGLIKE + ["trace"]]
            if cand and n >= 2:
                lmin = 1 + spec["split"] % (n - 1)
                short = (lmin, set(cand))
                S.limit = short
        _write_file(path, data, ff, meta, logs, tables, spec, short)
        if short is not None:
            # the recording was truncated, the metadata still name all events
            # (the writer derives the count from the alphabetically first feature)
            with h5py.File(path, "a") as h5:
                h5.attrs["experiment:event count"] = n
        ds = dclab.new_dataset(path)
        if tmp_later:
            feat_temp.set_temporary_feature(ds, "vf_vec", data["vf_vec"])
        S.table_attrs = True
        S.innate = list(ff)
    elif src == "basin":
        pa = d / "origin.rtdc"
        pb = d / "src.rtdc"
        ff = [f for f in file_feats if f != "vf_vec" or spec["temp_in_file"]]
        if "vf_vec" in feats and "vf_vec" not in ff:
            feats.remove("vf_vec")
        _write_file(pa, data, ff, meta, {}, {}, spec)
        sc = [f for f in ff if kind(f) == "scalar"]
        stored = sc[: spec["basin_stored"]]
        if spec["basin_mapped"]:
            r = np.random.default_rng([spec["seed"], 77])
            m = max(1, (spec["split"] * 7) % (n + 1))
            rootmap = np.sort(r.permutation(n)[:m])
            if spec["seed"] % 4 == 0:
                rootmap = rootmap[::-1].copy()
        mb = json.loads(json.dumps(meta))
        if spec["basin_mapped"] and "run identifier" in mb["experiment"]:
            mb["experiment"]["run identifier"] += "-sub"
        with RTDCWriter(pb, mode="reset") as hw:
            hw.store_metadata(mb)
            for f in stored:
                hw.store_feature(f, data[f][rootmap])
            for nm, lines in logs.items():
                hw.store_log(nm, lines)
            for nm, arr in tables.items():
                hw.store_table(nm, arr.view(np.recarray))
            hw.store_basin(basin_name="vf", basin_type="file", basin_format="hdf5",
                           basin_locs=[str(pa)],
                           basin_map=(rootmap.astype(np.uint64)
                                      if spec["basin_mapped"] else None),
                           verify=False)
        S.meta = mb
        S.n = len(rootmap)
        ds = dclab.new_dataset(pb)
    else:
        raise ValueError(src)
    S.ds = ds
    S.closers.append(ds)
    S.rootmap = rootmap
    S.avail = feats

    def ref(f, ridx):
        ridx = rootmap[np.asarray(ridx, dtype=int)]
        v = data[f]
        if f == "contour":
            return [v[i] for i in ridx]
        if f == "trace":
            return {t: a[ridx] for t, a in v.items()}
        return v[ridx]
    S.ref = ref
    return S


_TDMS_DIR = {}


def tdms_dir(name):
    if name not in _TDMS_DIR:
        dst = boot.tmproot() / "tdms" / name
        dst.mkdir(parents=True, exist_ok=True)
        with zipfile.ZipFile(pathlib.Path(boot.REPO) / "tests" / "data"
                             / (name + ".zip")) as z:
            z.extractall(dst)
        _TDMS_DIR[name] = dst
    return _TDMS_DIR[name]


def build_tdms(spec, d, rec, S):
    name = TDMS[spec["fixture"] % len(TDMS)]
    base = tdms_dir(name)
    path = sorted(p for p in base.glob("*.tdms") if not p.name.endswith("_traces.tdms"))[0]
    ds = dclab.new_dataset(path)
    S.ds = ds
    S.closers.append(ds)
    S.n = len(ds)
    S.rootmap = np.arange(S.n)
    innate = ds.features_innate
    sc = []
    for f in innate:
        if f in ds.features_scalar:
            if f in dwriter.FEATURES_UINT32 + dwriter.FEATURES_UINT64 and np.any(
                    np.asarray(ds[f]) < 0):
                # negative values in a feature that the writer documents as
                # unsigned: outside the domain (DESIGN §4)
                rec.skip("tdms:negative-values-in-unsigned-feature")
                continue
            sc.append(f)
    S.avail = sc + [f for f in TDMS_NONSC if f in innate]
    S.tdms = True
    lens = {}
    for f in TDMS_NONSC:
        if f in innate:
            lens[f] = (min(len(ds["trace"][t]) for t in ds["trace"].keys())
                       if f == "trace" else len(ds[f]))
    S.tdms_lens = lens

    # Reference = event-wise integer access of a *second* instance, read once,
    # in increasing order, before the export (the video reader of this
    # environment returns wrong frames after a backward seek, so the reference
    # must not share the reader with the export or jump backwards).
    rds = dclab.new_dataset(path)
    S.closers.append(rds)
    cache = {}
    for f in TDMS_NONSC:
        if f in lens and f != "trace":
            cache[f] = [np.array(rds[f][i]) for i in range(lens[f])]
    if "trace" in lens:
        cache["trace"] = {t: np.array([np.asarray(rds["trace"][t][i])
                                       for i in range(lens["trace"])])
                          for t in rds["trace"].keys()}
    for f in sc:
        cache[f] = np.array(rds[f])

    def ref(f, ridx):
        ridx = np.asarray(ridx, dtype=int)
        if f == "contour":
            return [cache[f][i] for i in ridx]
        if f == "trace":
            return {t: v[ridx] for t, v in cache[f].items()}
        if f in ("image", "mask"):
            return np.array([cache[f][i] for i in ridx])
        return cache[f][ridx]
    S.ref = ref
    S.meta = None
    return S


# ------------------------------------------------------------------ the case

def _val_equal(a, b):
    try:
        if isinstance(a, np.ndarray) or isinstance(b, np.ndarray):
            return bool(np.array_equal(np.asarray(a), np.asarray(b)))
        return bool(a == b) or (a != a and b != b)
    except Exception:
        return False


def _cfg_equal(a, b):
    return set(a) == set(b) and all(_val_equal(a[k_], b[k_]) for k_ in a)


def run_case(spec, rec):
    d = boot.casedir()
    S = None
    try:
        with chunk_bytes(spec["chunk"]):
            S = build_source(spec, d, rec)
            _run(spec, rec, d, S)
    finally:
        if S is not None:
            for ds in S.closers[::-1]:
                try:
                    ds.close()
                except Exception:
                    pass
        boot.rmcase(d)


def chunk_events(f, spec):
    """events per export chunk of feature f (writer rule, transcribed)"""
    cb = spec["chunk"] or 1024**2
    if spec["src"] == "tdms":
        return None
    size = {"image": 54, "image_bg": 54, "mask": 54, "qpi_pha": 54 * 4,
            "trace": NSAMP * 2, "vf_vec": VEC * 8, "vf_plug": PLUG * 8}.get(f)
    if size is None:
        return None
    return max(10, int(cb // size))


def _run(spec, rec, d, S):
    src = spec["src"]
    rec.cls("src:" + src)
    depth = spec["depth"]
    rec.cls("depth:%d" % depth)
    tdms = src == "tdms"
    # ---- hierarchy levels and the filter of the exported dataset
    ds = S.ds
    ridx = np.arange(S.n)          # indices into the root for the current level
    boxes = list(spec.get("pbox") or [])[:depth] + [None] * depth
    boxes = boxes[:depth] + [spec.get("box")]
    sel = None
    for lv in range(depth + 1):
        nlev = len(ridx)
        if len(ds) != nlev:
            rec.skip("level-length-mismatch")
            return
        last = lv == depth
        m = expand_mask(spec["masks"][lv], nlev)
        if not last and not m.any():
            m[nlev // 2] = True    # a child without events cannot be exported
        ds.filter.manual[:] = m
        model = m.copy()
        box = boxes[lv]
        if box and not tdms:
            fl = [f for f in S.avail if f in FLOAT_SC]
            lo, hi = sorted((box[1] * 0.5, box[2] * 0.5))
            if fl and lo != hi:
                f = fl[box[0] % len(fl)]
                ds.config["filtering"][f + " min"] = lo
                ds.config["filtering"][f + " max"] = hi
                rec.cls("box-filter" if last else "box-filter-parent")
                x = np.asarray(S.ref(f, ridx), dtype=float)
                with np.errstate(invalid="ignore"):
                    model &= (x >= lo) & (x <= hi) & ~np.isnan(x)
        if last and not spec["enable"]:
            ds.config["filtering"]["enable filters"] = False
            model[:] = True
        ds.apply_filter()
        fa = np.array(ds.filter.all, dtype=bool, copy=True)
        if not eqnan(fa, model):
            # the combined filter itself is the subject of C03; the selection
            # that defines "the selected events" here is ds.filter.all
            rec.skip("filter-differs-from-harness-model")
        if last:
            sel = fa
            break
        if not fa.any():
            rec.skip("parent-selection-empty")
            return
        ch = dclab.new_dataset(ds)
        S.closers.append(ch)
        ridx = ridx[fa]
        rec.check(len(ch) == len(ridx), "hierarchy/child-length",
                  lambda: f"len(child)={len(ch)} expected {len(ridx)}")
        ds = ch
    nlev = len(ridx)
    filtered = spec["filtered"]
    if not filtered:
        rec.cls("unfiltered")
    # ---- requested features
    avail = list(S.avail) + ([] if tdms else ["index"])
    if tdms:
        sc = [f for f in avail if f not in TDMS_NONSC]
        req = [sc[i % len(sc)] for i in spec["export"]]
        req += [f for f in spec["nonsc"] if f in avail]
    elif spec["export_all"] == "default" and S.innate is not None:
        req = None                  # documented default: ds.features_innate
        rec.cls("features-default")
    elif spec["export_all"]:
        req = list(S.avail)
    else:
        req = [avail[i % len(avail)] for i in spec["export"]]
        # at least one non-scalar feature in most cases
        ns = [f for f in S.avail if kind(f) != "scalar"]
        if src in ("lazy", "short"):
            ns = [f for f in ns if f in IMGLIKE] or ns
        if ns and spec["export"][0] % 4:
            req.append(ns[spec["export"][0] % len(ns)])
    if req is not None and len(set(req)) < len(req):
        rec.cls("duplicates")
    want = sorted(set(req if req is not None else S.innate))
    flags = spec["flags"]
    skip_checks = flags["skip_checks"]
    # ---- expected selection
    sel_idx = np.flatnonzero(sel) if filtered else np.arange(nlev)
    limited = None
    if S.limit is not None or tdms:
        if tdms:
            lens = [S.tdms_lens.get(f, S.n) for f in want]
        else:
            lens = [S.limit[0] if f in S.limit[1] else S.n for f in want]
        if min(lens) != max(lens):
            if skip_checks:
                skip_checks = False      # undefined combination: not generated
            limited = min(lens)
            sel_idx = sel_idx[sel_idx < limited]
            rec.cls("limited-by-shortest")
        elif min(lens) < nlev:
            # every requested feature is shorter than the dataset: events beyond
            # the end are not defined in the source -> outside the domain
            if np.any(sel_idx >= min(lens)):
                rec.skip("selection-beyond-short-features")
                return
    k = len(sel_idx)
    eff_filtered = filtered or limited is not None
    # ---- classes
    if filtered:
        if k == 0:
            rec.cls("sel:empty")
        elif k == nlev:
            rec.cls("sel:full")
        elif k == 1:
            rec.cls("sel:single")
    nontriv = False
    for f in want:
        kd = kind(f)
        if kd != "scalar":
            rec.cls("kind:" + kd)
        c = chunk_events(f, spec) if not tdms else (
            {100: 10}.get(spec["chunk"]) if f in ("image", "mask") else None)
        if c and eff_filtered and kd not in ("contour",):
            if filtered:
                for nm, val in (("c-1", c - 1), ("c", c), ("c+1", c + 1)):
                    if k == val:
                        rec.cls("sel:" + nm)
                if k > 2 * c:
                    rec.cls("sel:>2c")
            if 0 < k < nlev and k > c and k % c:
                nontriv = True
                if src in ("lazy", "tdms") and f in IMGLIKE:
                    rec.cls("slowpath-remainder")
    if filtered and k == nlev and ds.format == "hdf5" and limited is None:
        rec.cls("fastpath-full-hdf5")
    if nontriv:
        rec.nontrivial()
    # ---- documented rejection: slicing a non-sliceable column (fast path)
    expect_reject = False
    if src in ("lazy", "tdms") and not eff_filtered and any(
            f in IMGLIKE for f in want):
        expect_reject = True
    # ---- export
    name = {"path": "out.rtdc", "str": "out.rtdc", "nosuffix": "out",
            "override": "out.rtdc", "nosuffix_override": "out"}[flags["path"]]
    target = d / name
    out = d / "out.rtdc"
    kw = {}
    if flags["path"] == "str":
        target = str(target)
    if flags["path"] == "override":
        out.write_bytes(b"junk")
        kw["override"] = True
    if flags["path"] == "nosuffix_override":
        # an earlier, valid export sits at the path the suffix completion leads to
        with dclab.RTDCWriter(out, mode="reset") as hw0:
            hw0.store_metadata(base_meta())
            hw0.store_feature("deform", np.linspace(0.01, 0.02, 5))
            hw0.store_feature("area_um", np.linspace(50, 60, 5))
        kw["override"] = True
        rec.cls("path:nosuffix+override-existing")
    if flags["compression"] == "none":
        kw["compression_kwargs"] = {"compression": None}
    elif flags["compression"] == "gzip":
        kw["compression_kwargs"] = {"compression": "gzip", "compression_opts": 4}
    if flags["prefix"] != "src_":
        kw["meta_prefix"] = flags["prefix"]
    src_runid = ds.get_measurement_identifier()
    # basins=True without a measurement identifier is the domain of C14
    # (DESIGN §7 candidates 20/21); upstream basins of a basin-backed source C07
    basins = (flags["basins"] and src != "basin" and src_runid is not None
              and not (filtered and k == 0))
    src_cfg = {sec: dict(ds.config[sec]) for sec in ds.config.keys()
               if (sec in dclab.dfn.CFG_METADATA or sec == "user")
               and sec != "fmt_tdms"}     # documented: tdms section is dropped
    try:
        if spec["seed"] % 4 == 1:
            # the documented parameter order, given positionally
            rec.cls("call:positional")
            try:
                ds.export.hdf5(target, None if req is None else list(req), filtered,
                               logs=flags["logs"], tables=flags["tables"],
                               basins=basins, skip_checks=skip_checks, **kw)
            except TypeError as e:
                if "argument" not in str(e):
                    raise
                rec.fail("api/positional-call-rejected",
                         f"hdf5(path, features, filtered, logs=..., ...) in the "
                         f"documented parameter order raises {e!r}")
                return
        else:
            ds.export.hdf5(target, features=None if req is None else list(req),
                           filtered=filtered,
                           logs=flags["logs"], tables=flags["tables"], basins=basins,
                           skip_checks=skip_checks, **kw)
    except NotImplementedError:
        if expect_reject:
            rec.skip("documented-rejection:slicing-non-sliceable-column")
            return
        raise
    rec.check(eqnan(np.array(ds.filter.all), sel), "source/filter-changed-by-export",
              "ds.filter.all differs after export")
    # the export must not alter the metadata of the source dataset (a later export
    # from the same instance would otherwise carry over e.g. a suffixed identifier)
    after_cfg = {sec: dict(ds.config[sec]) for sec in src_cfg}
    rec.check(all(_cfg_equal(src_cfg[sec], after_cfg[sec]) for sec in src_cfg),
              "source/config-changed-by-export",
              lambda: "source configuration differs after export: " + "; ".join(
                  f"[{sec}] {k_}: {src_cfg[sec].get(k_)!r} -> {after_cfg[sec].get(k_)!r}"
                  for sec in src_cfg for k_ in sorted(set(src_cfg[sec]) | set(after_cfg[sec]))
                  if not _val_equal(src_cfg[sec].get(k_), after_cfg[sec].get(k_)))[:600])
    rec.check(out.exists(), "file/missing", f"{out} not written")
    if not out.exists():
        return
    fast = (not eff_filtered) or (bool(sel.all()) and ds.format == "hdf5"
                                  and limited is None)
    tag = src + ("-mapped" if src == "basin" and spec["basin_mapped"] else "") \
        + ("-child" if depth else "") + ("/fastpath" if fast else "/sel")
    exp = {}
    for f in want:
        if f == "index":
            exp[f] = np.arange(1, k + 1)
        else:
            exp[f] = S.ref(f, ridx[sel_idx])
    verify_hdf5(spec, rec, out, S, ds, want, exp, k, tag, eff_filtered, filtered,
                src_cfg, src_runid, flags, basins)
    # ---- direct use of the chunk assembler (documented helper)
    verify_stacks(spec, rec, S, ridx, sel_idx)
    # ---- tsv
    if spec["tsv"]:
        verify_tsv(spec, rec, d, S, ds, ridx, sel, want, tag)


# ------------------------------------------------------------------ oracles

def _first_diff(a, b):
    a, b = np.asarray(a), np.asarray(b)
    if a.shape != b.shape:
        return f"shape {a.shape} vs {b.shape}"
    for i in range(len(a)):
        if not eqnan(a[i], b[i]):
            return f"first differing event {i} of {len(a)}"
    return "dtype/none"


def verify_hdf5(spec, rec, out, S, src_ds, want, exp, k, tag, eff_filtered,
                filtered, src_cfg, src_runid, flags, basins):
    tdms = spec["src"] == "tdms"
    badcount = set()

    def count(f, kd, got_n):
        """event count of one feature; values are compared only if it is right"""
        if got_n != k:
            if f not in badcount:
                rec.fail(f"count/{kd}/{tag}", f"{f}: {got_n} events in the export, "
                                             f"expected {k}")
            badcount.add(f)
            return False
        rec.checks += 1
        return f not in badcount

    # ---------- raw h5py (independent reader)
    with h5py.File(out, "r") as h5:
        ev = h5["events"] if "events" in h5 else {}
        names = sorted(x for x in ev.keys() if not x.startswith("basinmap"))
        if k == 0:
            rec.check(names == [], "empty-selection/features-written",
                      f"features {names} written for an empty selection")
        else:
            rec.check(names == want, f"features/set/{tag}",
                      f"exported {names}, requested {want}")
        for f in want:
            if f not in ev or k == 0:
                continue
            kd = kind(f)
            e = exp[f]
            if kd == "scalar":
                got = ev[f][:]
                if count(f, kd, got.shape[0]):
                    rec.check(eqnan(got, e), f"raw/values/{kd}/{tag}",
                              lambda: f"{f}: {_first_diff(got, e)}")
                if f in UINT32 or f == "index":
                    rec.check(ev[f].dtype == np.uint32, f"raw/dtype/{kd}", f)
                if f == "frame":
                    rec.check(ev[f].dtype == np.uint64, f"raw/dtype/{kd}", f)
            elif kd == "contour":
                if count(f, kd, len(ev[f])):
                    ok = all(str(i) in ev[f] and eqnan(ev[f][str(i)][:], e[i])
                             for i in range(k))
                    rec.check(ok, f"raw/values/{kd}/{tag}", "contour mismatch")
            elif kd == "trace":
                rec.check(sorted(ev[f].keys()) == sorted(e), f"trace-names/{tag}",
                          f"{sorted(ev[f].keys())} vs {sorted(e)}")
                for t in e:
                    if t in ev[f]:
                        got = ev[f][t][:]
                        if count(f, kd, got.shape[0]):
                            rec.check(eqnan(got, e[t]), f"raw/values/{kd}/{tag}",
                                      lambda: f"{t}: {_first_diff(got, e[t])}")
            else:
                got = ev[f][:]
                if kd == "mask":
                    rec.check(ev[f].dtype == np.uint8, "raw/dtype/mask", "")
                    got = got != 0
                if count(f, kd, got.shape[0]):
                    rec.check(eqnan(got, np.asarray(e)), f"raw/values/{kd}/{tag}",
                              lambda: f"{f}: {_first_diff(got, e)}")
        if k == 0:
            rec.check(h5.attrs.get("experiment:event count") in (None, 0),
                      "event-count/empty-selection",
                      f"no event was exported, but 'experiment:event count' is "
                      f"{h5.attrs.get('experiment:event count')}")
        if k and not badcount:
            rec.check(h5.attrs.get("experiment:event count") == k, f"event-count/{tag}",
                      f"attribute {h5.attrs.get('experiment:event count')}, expected {k}")
        elif badcount:
            rec.skip("event-count-not-judged-after-feature-count-failure")
        # logs and tables
        lg = h5["logs"] if "logs" in h5 else {}
        pre = flags["prefix"]
        explog = [x for x in lg.keys() if x.startswith("dclab-export_")]
        rec.check(len(explog) == 1, "log/export-log", f"{list(lg.keys())}")
        if explog:
            lines = [x.decode("utf-8", errors="replace") if isinstance(x, bytes) else x
                     for x in lg[explog[0]][:]]
            try:
                kwl = json.loads("\n".join(lines))["kwargs"]
            except Exception as e:     # noqa
                kwl = None
                rec.fail("log/export-log-content", f"not JSON: {lines} ({e})")
            if kwl is not None:
                rec.check(kwl.get("features") == want
                          and kwl.get("filtered") == filtered,
                          "log/export-log-content", f"{kwl}")
        if not tdms:
            others = sorted(x for x in lg.keys() if not x.startswith("dclab-export_"))
            if flags["logs"]:
                if S.logs:
                    rec.cls("logs")
                rec.check(others == sorted(pre + nm for nm in S.logs),
                          f"log/names/{tag}", f"{others} vs source {sorted(S.logs)}")
                for nm, ll in sorted(S.logs.items()):
                    if pre + nm in lg:
                        got = [x.decode("utf-8", errors="replace")
                               for x in lg[pre + nm][:]]
                        rec.check(got == list(ll), f"log/lines/{tag}",
                                  lambda: f"{nm}: {got} vs {ll}")
            else:
                rec.check(others == [], "log/not-requested", f"{others}")
            tb = h5["tables"] if "tables" in h5 else {}
            tnames = sorted(tb.keys())
            if flags["tables"]:
                if S.tables:
                    rec.cls("tables")
                rec.check(tnames == sorted(pre + nm for nm in S.tables),
                          f"table/names/{tag}", f"{tnames} vs {sorted(S.tables)}")
                for nm, arr in sorted(S.tables.items()):
                    if pre + nm not in tb:
                        continue
                    got = tb[pre + nm][:]
                    rec.check(list(got.dtype.names or ()) == list(arr.dtype.names),
                              f"table/columns/{tag}", f"{got.dtype.names}")
                    for cn in arr.dtype.names:
                        if cn in (got.dtype.names or ()):
                            rec.check(eqnan(np.ravel(got[cn]), arr[cn]),
                                      f"table/cells/{tag}", f"{nm}:{cn}")
                    if S.table_attrs:
                        at = tb[pre + nm].attrs
                        rec.check(at.get("COLOR_a") == "#ff0000" and at.get("num") == 3,
                                  f"table/attrs/{tag}", f"{dict(at)}")
            else:
                rec.check(tnames == [], "table/not-requested", f"{tnames}")
    if k == 0:
        return
    # ---------- through dclab
    with dclab.new_dataset(out) as ds2:
        if not badcount:
            rec.check(len(ds2) == k, f"len/{tag}",
                      f"len(export)={len(ds2)} expected {k}")
            rec.check(ds2.config["experiment"]["event count"] == k,
                      f"event-count/{tag}", f"config event count "
                      f"{ds2.config['experiment'].get('event count')}")
        inn = [f for f in ds2.features_innate if not f.startswith("basinmap")]
        rec.check(sorted(inn) == want, f"features/set/{tag}",
                  f"innate {sorted(inn)}, requested {want}")
        for f in want:
            if f not in inn:
                continue
            kd = kind(f)
            e = exp[f]
            if kd == "scalar":
                got = np.asarray(ds2[f][:])
                if count(f, kd, len(got)):
                    rec.check(eqnan(got, e), f"values/{kd}/{tag}",
                              lambda: f"{f}: {_first_diff(got, e)}")
            elif kd == "contour":
                obj = ds2[f]
                if count(f, kd, len(obj)):
                    rec.check(all(eqnan(obj[i], e[i]) for i in range(k)),
                              f"values/{kd}/{tag}", "contour mismatch")
            elif kd == "trace":
                obj = ds2[f]
                rec.check(sorted(obj.keys()) == sorted(e), f"trace-names/{tag}",
                          f"{sorted(obj.keys())} vs {sorted(e)}")
                for t in e:
                    if t in obj:
                        got = np.asarray(obj[t][:])
                        if count(f, kd, len(got)):
                            rec.check(eqnan(got, e[t]), f"values/{kd}/{tag}",
                                      lambda: f"{t}: {_first_diff(got, e[t])}")
            else:
                obj = ds2[f]
                if count(f, kd, len(obj)):
                    got = np.asarray(obj[:])
                    rec.check(eqnan(got, np.asarray(e)), f"values/{kd}/{tag}",
                              lambda: f"{f}: {_first_diff(got, e)}")
                    rec.check(eqnan(obj[k - 1], np.asarray(e)[k - 1]),
                              f"values/{kd}/{tag}", f"{f}: last event")
                    if kd == "mask":
                        rec.check(np.asarray(obj[0]).dtype == bool, "dtype/mask", "")
        verify_meta(spec, rec, ds2, src_cfg, src_runid, want, filtered, tag)


VERSION_KEY = ("setup", "software version")
#: "%.10e" is correctly rounded to 11 significant digits: relative error
#: <= 5e-11 (half a unit of the last digit at mantissa 1.0) + 1.1e-16 for
#: parsing the decimal back; 5.001e-11 keeps that bound with a margin that a
#: format with one digit less (5e-10) exceeds by a factor of 10.
TSV_RTOL = 5.001e-11


def verify_meta(spec, rec, ds2, src_cfg, src_runid, want, filtered, tag):
    tdms = spec["src"] == "tdms"
    auto = {("experiment", "event count"), VERSION_KEY}
    if "image" in want or "mask" in want:
        auto |= {("imaging", "roi size x"), ("imaging", "roi size y")}
    if "trace" in want:
        auto |= {("fluorescence", "samples per event")}
    if filtered:
        auto |= {("experiment", "run identifier")}
    maybe_added = {("fluorescence", "channel count")}
    out_cfg = {sec: dict(ds2.config[sec]) for sec in ds2.config.keys()
               if sec in dclab.dfn.CFG_METADATA or sec == "user"}
    for sec, kv in sorted(src_cfg.items()):
        for key, val in sorted(kv.items()):
            if (sec, key) in auto:
                continue
            got = out_cfg.get(sec, {}).get(key, "<missing>")
            if isinstance(val, np.ndarray) or isinstance(got, np.ndarray):
                same = eqnan(np.asarray(got), np.asarray(val))
            else:
                same = bool(got == val) and (isinstance(got, str) == isinstance(val, str))
            sig = f"meta/user/{tag}" if sec == "user" else f"meta/carried-over/{tag}"
            rec.check(same, sig, lambda: f"[{sec}] {key}: source {val!r}, export {got!r}")
    for sec, kv in sorted(out_cfg.items()):
        for key in sorted(kv):
            if (sec, key) in auto or (sec, key) in maybe_added:
                continue
            rec.check(key in src_cfg.get(sec, {}), f"meta/invented/{tag}",
                      lambda: f"[{sec}] {key} = {kv[key]!r} not in the source")
    # documented changes
    if not tdms:
        if "image" in want or "mask" in want:
            rec.check(out_cfg["imaging"].get("roi size x") == IMG[1]
                      and out_cfg["imaging"].get("roi size y") == IMG[0],
                      "meta/roi-size", f"{out_cfg['imaging']}")
        if "trace" in want:
            rec.check(out_cfg.get("fluorescence", {}).get("samples per event") == NSAMP,
                      "meta/samples-per-event", "")
    rid = out_cfg.get("experiment", {}).get("run identifier")
    if filtered:
        if src_runid is None:
            rec.skip("run-identifier-of-source-undefined")
        else:
            rec.check(isinstance(rid, str) and re.fullmatch(
                re.escape(src_runid) + "-[0-9a-f]{4}", rid) is not None,
                "meta/run-identifier/filtered",
                f"{rid!r} for source identifier {src_runid!r}")
    else:
        rec.check(rid == src_cfg.get("experiment", {}).get("run identifier"),
                  "meta/run-identifier/unfiltered",
                  f"{rid!r} vs {src_cfg.get('experiment', {}).get('run identifier')!r}")
    sv = [v.strip() for v in str(src_cfg.get("setup", {}).get(
        "software version", "")).split("|") if v.strip()]
    ov = [v.strip() for v in str(out_cfg.get("setup", {}).get(
        "software version", "")).split("|") if v.strip()]
    cur = f"dclab {dclab.__version__}"
    rec.check(bool(ov) and ov[-1] == cur and ov[:len(sv)] == sv
              and len(ov) - len(sv) in (0, 1), "meta/version-chain",
              f"source {sv}, export {ov}")


def verify_stacks(spec, rec, S, ridx, sel_idx):
    """`yield_filtered_array_stacks` on sliceable and non-sliceable input"""
    if spec["src"] == "tdms" or len(sel_idx) == 0:
        return
    for f in ("image", "mask", "vf_vec", "qpi_pha"):
        if f in S.avail and f != "vf_plug":
            break
    else:
        return
    full = np.asarray(S.ref(f, np.arange(len(S.rootmap))))
    idx = ridx[sel_idx]
    c = dwriter.RTDCWriter.get_best_nd_chunks(full.shape[1:], full.dtype)[0]
    for variant, data, ind in (("sliceable", full, idx),
                               ("non-sliceable", Lazy(full), idx),
                               ("non-sliceable-list", Lazy(full), idx.tolist())):
        chunks = [np.array(ch, copy=True)
                  for ch in dexport.yield_filtered_array_stacks(data, ind)]
        sizes = [len(ch) for ch in chunks]
        got = np.concatenate(chunks) if chunks else full[:0]
        rec.check(eqnan(got, full[idx]), f"stacks/values/{variant}",
                  lambda: f"{f}: {_first_diff(got, full[idx])}; chunk sizes {sizes}, "
                          f"{len(idx)} indices, chunk size {c}")
        rec.check(all(s == c for s in sizes[:-1]) and (not sizes or 0 < sizes[-1] <= c),
                  f"stacks/chunk-sizes/{variant}", f"{sizes} for chunk size {c}")


def verify_tsv(spec, rec, d, S, ds, ridx, sel, want, tag):
    sc = [f for f in want if kind(f) == "scalar" and f != "index"]
    if not sc:
        rec.skip("tsv:no-scalar-feature-requested")
        return
    rec.cls("tsv")
    filtered = spec["tsv_filtered"]
    req = sc + sc[:1]
    if spec["seed"] % 3 == 0:
        req = [f.upper() if i == 0 else f for i, f in enumerate(req)]
    path = d / "out.tsv"
    name = path if spec["seed"] % 2 else d / "out"
    override = bool(spec["seed"] % 5 == 0)
    if override:
        # an earlier export at the same place has to be replaced, not extended
        path.write_text("# stale\n# a\tb\n1.0\t2.0\n3.0\t4.0\n", encoding="utf-8")
        rec.cls("tsv:override-existing")
    if spec["seed"] % 4 == 2:
        ds.export.tsv(name, req, None, filtered, override)     # positional form
    else:
        ds.export.tsv(name, req, filtered=filtered, override=override)
    rec.check(path.exists(), "tsv/file-missing", "")
    if not path.exists():
        return
    idx = np.flatnonzero(sel) if filtered else np.arange(len(sel))
    cols = sorted(set(sc))
    text = path.read_bytes().decode("utf-8-sig")
    lines = text.split("\n")
    if lines and lines[-1] == "":
        lines = lines[:-1]
    comments = [ln for ln in lines if ln.startswith("#")]
    rows = [ln for ln in lines if not ln.startswith("#")]
    rec.check(len(comments) >= 2 and comments[-2] == "# " + "\t".join(cols),
              f"tsv/header/{tag}", lambda: f"{comments[-2:]} vs {cols}")
    rec.check(len(rows) == len(idx), f"tsv/rows/{tag}",
              f"{len(rows)} rows, expected {len(idx)}")
    if len(rows) != len(idx):
        return
    expv = {f: np.asarray(S.ref(f, ridx[idx]), dtype=np.float64) for f in cols}
    bad = None
    for r, ln in enumerate(rows):
        cells = ln.split("\t")
        if len(cells) != len(cols):
            bad = f"row {r}: {len(cells)} cells"
            break
        for j, f in enumerate(cols):
            try:
                g = float(cells[j])
            except ValueError:
                bad = f"row {r} {f}: {cells[j]!r}"
                break
            e = float(expv[f][r])
            if e != e or g != g:
                ok = (e != e) and (g != g)
            elif e in (float("inf"), float("-inf")) or g in (float("inf"), float("-inf")):
                ok = e == g
            else:
                ok = abs(g - e) <= TSV_RTOL * abs(e)
            if not ok:
                bad = f"row {r} {f}: written {cells[j]!r}, source {e!r}"
                break
        if bad:
            break
    rec.check(bad is None, f"tsv/values/{tag}", bad or "")
