"""C11 — metadata values are type-normalised and survive storage unchanged.

Three interpreters (``spec["kind"]``):

``assign``  a history of assignments / deletions on one ``Configuration`` through
            every in-memory route (item, ``update`` with dict and with keywords,
            ``Configuration.update``, construction, copy), keys in arbitrary case,
            values in every representation; oracle = own key table + own
            normalisation (``vf/lib_meta.py``), full-section comparison after
            every step (rejections must leave the section unchanged and warn).
``text``    configuration files: hand-written text (section/key case, spacing,
            quotes, comments, duplicates, unknown keys) loaded with
            ``load_from_file`` and ``Configuration(files=...)``; and
            ``save`` -> load round trips.
``h5``      ``RTDCWriter.store_metadata`` / dict-dataset export / attributes
            written with raw h5py (str, fixed-length bytes, numpy scalars),
            HDF5 attribute types, re-open, then export (plain, filtered, with
            modified config), compress, repack, condense, split, join.
"""
import math
import warnings

import h5py
import numpy as np
from hypothesis import strategies as st

from .. import boot
from ..common import meta as base_meta, quiet
from .. import lib_meta as lm
from ..lib_meta import TABLE, PFEATS, kind_of, build, norm, type_ok, eq, keyvar

import dclab
from dclab import RTDCWriter, cli
from dclab.rtdc_dataset import config as dcfg
from dclab.rtdc_dataset.fmt_hdf5.base import RTDC_HDF5

ID = "C11"
RULE = ("Hypothesis-generated (a) assignment histories over the documented key table "
        "(108 keys + online_filter pattern keys + user keys) x value representations "
        "x in-memory routes, (b) configuration-file texts and save/load round trips, "
        "(c) .rtdc files written by RTDCWriter / export / raw h5py and carried through "
        "export, compress, repack, condense, split, join; plus a deterministic sweep "
        "of every table key x canonical representations.  Non-trivial = at least one "
        "accepted value whose representation type differs from the documented type, "
        "or a storage round trip (file or text); distinct = sha1 of the spec")
BUDGET = {"quick": 2400, "thorough": 48000}
TIMEOUT = {"quick": 3000, "thorough": 8 * 3600}  # safety net only (shared box)
ESSENTIAL = ["route:item", "route:update", "route:kwupdate", "route:cfgupdate",
             "route:ctor", "status:ok-crosstype", "status:lenient", "status:reject",
             "kind:str", "kind:lcstr", "kind:float", "kind:int", "kind:bool",
             "kind:boolfloat", "kind:pair", "kind:intlist", "kind:floatarray",
             "kind:raw", "kind:user", "text:hand", "text:save", "h5:writer", "h5:dict",
             "h5:raw", "tool:export", "tool:compress", "tool:repack", "tool:condense",
             "tool:split", "tool:join", "user-key:colon"]
ASSUMPTIONS = [
    "version shim: dclab._version pre-seeded with 0.62.7",
    "the key table in vf/lib_meta.py is an own transcription of the documented "
    "table; a key-set difference to dclab.definitions is reported as a failure",
    "Python float()/int()/str() and numpy array construction are the trusted base of "
    "the own normalisation",
    "representations that are not valid for a key's kind (e.g. a list for a float key) "
    "are only required to either raise and leave the section unchanged or to store a "
    "value of the documented type",
    "integers are kept within +-2**53 (the int converter goes through float)",
    "configuration-file texts are ASCII without '#', quotes, leading/trailing blanks "
    "(file syntax)"]

KINDS = "SLFIBXPNARU"
ROUTES = ["item", "update", "kwupdate", "cfgupdate", "ctor"]
NAN, INF = float("nan"), float("inf")
VERSION = "0.62.7"

# ------------------------------------------------------------------ strategies

ALPHA = "abcdxyzABCXYZ 0189_-.,;:/()[]%+#'=µÜé中"
SAFE = "abcdxyzABCXYZ 0189_-.,;:/()%+="
WORDS = ["CellCarrier", "0.49% MC-PBS", "channel", "Reservoir", "LED", "True", "false",
         "None", "3", "2.5", " x ", "a # b", "'q'", "ShapeIn 2.0.6", "nan", "1e3",
         "deform", "[1, 2]", "b'abc'", "ZMDD-AcC-8ecba5-cd57e2", "y", "N", "pH=7.4",
         "thresh:t=-6:cle=1"]
INTS = st.one_of(st.integers(-6, 6), st.integers(-6, 6),
                 st.sampled_from([0, 1, 255, 65536, 2**31 - 1, 2**31, 2**53, -2**53,
                                  10**6, 96, 250, 2**53 + 2]))
FLOATS = st.one_of(
    st.integers(-40, 40).map(lambda i: i / 8),
    st.sampled_from([0.0, -0.0, 0.5, 2.5, 1e-5, 1e300, -1e300, 5e-324, 0.1, 1 / 3,
                     0.34, 1e-13, 123456.789012345678, NAN, INF, -INF, 0.9999999]),
    st.floats(-1e6, 1e6, allow_nan=False, width=64))
NPI = ["int8", "int16", "int32", "int64", "uint8", "uint16", "uint32", "uint64"]
NPF = ["float32", "float64"]
TF = ["true", "false", "True", "False", "TRUE", "FALSE", "tRuE", "fAlse"]


def _clip(v, dt):
    info = np.iinfo(dt)
    return int(min(max(v, info.min), min(info.max, 2**53)))


@st.composite
def st_word(draw, safe=False):
    if safe:
        s = draw(st.one_of(st.text(alphabet=SAFE, min_size=1, max_size=12),
                           st.sampled_from([w for w in WORDS if all(c in SAFE for c in w)])))
        s = s.strip()
        return s or "x"
    return draw(st.one_of(st.text(alphabet=ALPHA, min_size=1, max_size=12),
                          st.sampled_from(WORDS)))


@st.composite
def st_numrep(draw):
    """a numeric value in any representation"""
    how = draw(st.sampled_from(["int", "float", "bool", "np", "np", "arr0", "str",
                                "str", "bytes", "tf"]))
    if how == "int":
        return {"t": "int", "v": draw(INTS)}
    if how == "float":
        return {"t": "float", "v": draw(FLOATS)}
    if how == "bool":
        return {"t": "bool", "v": draw(st.booleans())}
    if how in ("np", "arr0"):
        dt = draw(st.sampled_from(NPI + NPF + NPF + ["bool"]))
        if dt == "bool":
            v = draw(st.booleans())
        elif dt in NPI:
            v = _clip(draw(INTS), dt)
        else:
            v = draw(FLOATS)
            if dt == "float32" and v == v and abs(v) > 3e38:
                v = math.copysign(INF, v)
        return {"t": how, "dt": dt, "v": v}
    if how == "tf":
        return {"t": draw(st.sampled_from(["str", "str", "npstr"])),
                "v": draw(st.sampled_from(TF))}
    x = draw(st.one_of(INTS, FLOATS))
    fmt = draw(st.sampled_from(["repr", "repr", "pad", "e", "plus"]))
    if fmt == "repr" or x != x or x in (INF, -INF):
        s = repr(x)
    elif fmt == "pad":
        s = f" {x!r}  "
    elif fmt == "e":
        s = "%.17e" % x
    else:
        s = ("+" if x >= 0 else "") + repr(x)
    return {"t": how, "v": s}


@st.composite
def st_elem(draw):
    """element of a list representation (JSON primitive)"""
    return draw(st.one_of(INTS, INTS, FLOATS, st.booleans(),
                          st.one_of(INTS, FLOATS).map(repr),
                          st.sampled_from(["", " 2", "true", "False", "x"])))


@st.composite
def st_seqrep(draw, n=None):
    size = draw(st.sampled_from([0, 1, 2, 2, 2, 3, 5])) if n is None else n
    how = draw(st.sampled_from(["list", "list", "tuple", "arr", "arr"]))
    if how == "arr":
        dt = draw(st.sampled_from(["float64", "float32", "int64", "int32", "uint8", "bool"]))
        if dt == "bool":
            v = draw(st.lists(st.booleans(), min_size=size, max_size=size))
        elif dt.startswith("float"):
            v = draw(st.lists(FLOATS, min_size=size, max_size=size))
            if dt == "float32":
                v = [x if (x != x or abs(x) < 3e38) else math.copysign(INF, x) for x in v]
        else:
            v = [_clip(x, dt) for x in draw(st.lists(INTS, min_size=size, max_size=size))]
        return {"t": "arr", "dt": dt, "v": v}
    return {"t": how, "v": draw(st.lists(st_elem(), min_size=size, max_size=size))}


@st.composite
def st_2d(draw):
    r = draw(st.integers(0, 4))
    c = draw(st.sampled_from([2, 2, 2, 1, 3]))
    rows = [[draw(st.one_of(INTS, FLOATS)) for _ in range(c)] for _ in range(r)]
    how = draw(st.sampled_from(["list", "arr", "arr32", "ragged", "strs"]))
    if how == "arr":
        return {"t": "arr", "dt": "float64", "v": [[float(x) for x in row] for row in rows]}
    if how == "arr32":
        return {"t": "arr", "dt": "int32", "v": [[_clip(int(x) if x == x and abs(x) < 1e9 else 0, "int32") for x in row] for row in rows]}
    if how == "ragged" and r >= 2:
        rows[0] = rows[0] + [1]
    if how == "strs":
        rows = [[repr(x) for x in row] for row in rows]
    return {"t": "list", "v": rows}


@st.composite
def st_strrep(draw, safe=False):
    t = draw(st.sampled_from(["str"] * 5 + ["npstr", "bytes"]))
    if safe and t == "bytes":
        t = "str"
    return {"t": t, "v": draw(st_word(safe))}


REJECT = st.sampled_from([{"t": "str", "v": ""}, {"t": "none"}, {"t": "npstr", "v": ""}])


@st.composite
def st_rep(draw, kind, safe=False):
    """representation for a key of `kind`: mostly plausible, sometimes anything"""
    mode = draw(st.sampled_from(["fit"] * 7 + ["any", "any", "reject"]))
    if mode == "reject":
        return draw(REJECT)
    anyrep = st.one_of(st_numrep(), st_strrep(safe), st_seqrep(), st_2d())
    if mode == "any":
        return draw(anyrep)
    if kind in "SL":
        return draw(st.one_of(st_strrep(safe), st_strrep(safe), st_strrep(safe), st_numrep()))
    if kind in "FIB":
        return draw(st_numrep())
    if kind == "X":
        return draw(st.one_of(
            st_numrep(), st.booleans().map(lambda b: {"t": "bool", "v": b}),
            FLOATS.map(lambda f: {"t": "float", "v": f}),
            st.booleans().map(lambda b: {"t": "np", "dt": "bool", "v": b})))
    if kind == "P":
        return draw(st.one_of(st_seqrep(2), st_seqrep(2), st_seqrep()))
    if kind == "N":
        return draw(st.one_of(
            st_seqrep(), st_seqrep(),
            st.lists(INTS, max_size=4).map(lambda li: {"t": "list", "v": li}),
            st.lists(st.integers(0, 3), min_size=1, max_size=4).map(lambda li: {"t": "list", "v": li}),
            st.lists(INTS, max_size=4).map(
                lambda li: {"t": "str", "v": ", ".join(map(str, li))}),
            st.lists(INTS, max_size=4).map(lambda li: {"t": "str", "v": str(li)})))
    if kind == "A":
        return draw(st.one_of(st_2d(), st_2d(), st_seqrep(), st_numrep()))
    return draw(anyrep)  # R, U


USERKEYS = ["Foo Bar", "a:b", "x::y:", "RBC", "n_channels", "Ünit µ", "k/slash", " lead",
            "trail ", "a=b", "#h", "[sec]", "exp", "中", "user:inner", "ALLCAPS", "1"]
BADKEYS = ["invalid_key", "channel  width", "pixelsize", "event count ", "nofeat min",
           "area_um,nofeat polygon points", "x"]


@st.composite
def st_target(draw, kinds=KINDS, sections=None):
    """(sec, key) of a drawn kind; key in canonical lower case"""
    for _ in range(6):
        k = draw(st.sampled_from(kinds))
        cands = []
        if k == "U":
            if sections is None or "user" in sections:
                key = draw(st.one_of(st.sampled_from(USERKEYS), st.sampled_from(USERKEYS),
                                     st.text(alphabet=ALPHA, min_size=1, max_size=8)))
                if key.strip():
                    return ["user", key]
            continue
        if k == "A":
            f1, f2 = draw(st.sampled_from(PFEATS)), draw(st.sampled_from(PFEATS))
            cands = [["online_filter", f"{f1},{f2} polygon points"]]
        elif k == "R":
            f = draw(st.sampled_from(PFEATS))
            cands = [[s, f"{f} {mm}"] for s in ("online_filter", "filtering")
                     for mm in ("min", "max")]
        else:
            cands = [[s, key] for s in sorted(TABLE) for key, kk in TABLE[s].items()
                     if kk == k]
            if k == "B":
                f1, f2 = draw(st.sampled_from(PFEATS)), draw(st.sampled_from(PFEATS))
                cands += [["online_filter", f"{f1} soft limit"],
                          ["online_filter", f"{f1},{f2} soft limit"]] * 3
        if sections is not None:
            cands = [c for c in cands if c[0] in sections]
        if cands:
            return draw(st.sampled_from(cands))
    return ["setup", "medium"] if sections is None or "setup" in sections \
        else [sorted(sections)[0], sorted(TABLE[sorted(sections)[0]])[0]]


@st.composite
def st_setop(draw):
    what = draw(st.sampled_from(["known"] * 12 + ["badkey", "badsec", "baduser"]))
    route = draw(st.sampled_from(ROUTES))
    kv = draw(st.integers(0, 4 * 4096 - 1))
    kv2 = draw(st.integers(0, 4 * 4096 - 1))
    idem = draw(st.booleans())
    if what == "known":
        sec, key = draw(st_target())
        kind = kind_of(sec, key.lower()) or "U"
        return {"o": "set", "route": route, "sec": sec, "key": key, "kv": kv, "kv2": kv2,
                "rep": draw(st_rep(kind)), "idem": idem}
    if what == "badkey":
        sec = draw(st.sampled_from(sorted(TABLE)))
        return {"o": "set", "route": route, "sec": sec,
                "key": draw(st.sampled_from(BADKEYS)), "kv": kv, "kv2": kv2,
                "rep": draw(st.one_of(st_numrep(), st_strrep())), "idem": False}
    if what == "badsec":
        return {"o": "set", "route": "cfgupdate",
                "sec": draw(st.sampled_from(["plotting", "analysis", "nosuch", "Setup "])),
                "key": draw(st.sampled_from(["channel width", "contour color", "x"])),
                "kv": 0, "kv2": 0, "rep": draw(st_numrep()), "idem": False}
    nk = draw(st.sampled_from([{"s": ""}, {"s": " "}, {"s": "\t"}, {"s": "\n "}, {"i": 12},
                               {"f": 23.5}, {"b": True}, {"tup": [5, "a"]}]))
    return {"o": "set", "route": draw(st.sampled_from(["item", "update", "cfgupdate"])),
            "sec": "user", "nk": nk, "kv": 0, "kv2": 0,
            "rep": draw(st.one_of(st_numrep(), st_strrep())), "idem": False}


@st.composite
def st_assign(draw):
    ops = []
    for _ in range(draw(st.integers(3, 24))):
        if draw(st.integers(0, 9)) == 0:
            ops.append({"o": "del", "si": draw(st.integers(0, 30)),
                        "ki": draw(st.integers(0, 30)),
                        "kv": draw(st.integers(0, 4 * 4096 - 1)),
                        "how": draw(st.sampled_from(["del", "pop"]))})
        else:
            ops.append(draw(st_setop()))
    return {"kind": "assign", "ops": ops}


TEXTKINDS = "SLFIBXNSLFIBU"


@st.composite
def st_text(draw):
    mode = draw(st.sampled_from(["hand", "hand", "save"]))
    entries = []
    for _ in range(draw(st.integers(1, 10))):
        kinds = TEXTKINDS if mode == "hand" else TEXTKINDS + "PAXR"
        sec, key = draw(st_target(kinds))
        if sec == "user":
            key = draw(st.one_of(st.sampled_from(["Foo Bar", "RBC", "n_channels", "exp", "a:b"]),
                                 st.text(alphabet="abcXYZ 09_:", min_size=1, max_size=8)))
            if not key.strip():
                key = "k"
            key = key.strip()
        kind = kind_of(sec, key.lower()) or "U"
        e = {"sec": sec, "key": key, "kv": draw(st.integers(0, 4 * 4096 - 1)),
             "rep": draw(st_rep(kind, safe=True)),
             "sp": draw(st.sampled_from(["=", " = ", "  =", "=   ", " =\t"])),
             "q": draw(st.sampled_from(["", "", "", "'", '"'])),
             "cm": draw(st.sampled_from(["", "", "", " # note", "#x=1"]))}
        entries.append(e)
    return {"kind": "text", "mode": mode, "entries": entries,
            "seccase": draw(st.integers(0, 4 * 4096 - 1)),
            "junk": draw(st.lists(st.sampled_from(
                ["", "# comment", "no equal sign here", "[plotting]",
                 "contour color = white", "unknown key = 3", "empty =", "  "]),
                max_size=4)),
            "junkpos": draw(st.integers(0, 10))}


H5KEYS_EXCLUDED = {("experiment", "date"), ("experiment", "time"),
                   ("experiment", "event count")}
TOOLS = ["export", "export_f", "export_mod", "compress", "repack", "condense", "split",
         "join", "join_meta", "export_again"]


@st.composite
def st_h5(draw):
    src = draw(st.sampled_from(["writer", "writer", "dict", "raw"]))
    entries = []
    for _ in range(draw(st.integers(1, 10))):
        for _ in range(4):
            sec, key = draw(st_target("SLFIBXPARSLFIB", sections=lm.FILE_SECTIONS))
            if (sec, key) not in H5KEYS_EXCLUDED:
                break
        else:
            sec, key = "setup", "medium"
        kind = kind_of(sec, key)
        rep = draw(st_rep(kind))
        if src == "raw" and rep["t"] == "bytes":
            rep = dict(rep, t="npbytes")
        entries.append([sec, key, rep])
    user = []
    for _ in range(draw(st.integers(0, 5))):
        key = draw(st.one_of(st.sampled_from(USERKEYS),
                             st.text(alphabet=ALPHA, min_size=1, max_size=8)))
        if not key.strip():
            key = "a:b"
        rep = draw(st.one_of(st_numrep(), st_strrep(), st_seqrep(), st_2d()))
        user.append([key, rep])
    return {"kind": "h5", "src": src, "entries": entries, "user": user,
            "n": draw(st.sampled_from([1, 2, 3, 5, 8])),
            "second": draw(st.booleans()),
            "extra": draw(st.sampled_from([None, None, "fmt_tdms", "calculation",
                                           "filtering", "badkey", "badsec"])),
            "tools": draw(st.lists(st.sampled_from(TOOLS), max_size=2)),
            "mask": draw(st.lists(st.booleans(), min_size=1, max_size=8)),
            "jrep": draw(st_numrep())}


def strategy(tier):
    return st.one_of(st_assign(), st_assign(), st_assign(), st_assign(), st_assign(),
                     st_text(), st_text(), st_h5(), st_h5(), st_h5())


# ------------------------------------------------------------------ helpers

WARN_EMPTY = dcfg.EmptyConfigurationKeyWarning
WARN_NONE = dcfg.BadUserConfigurationValueWarning
WARN_UNKNOWN = dcfg.UnknownConfigurationKeyWarning
WARN_USERKEY = dcfg.BadUserConfigurationKeyWarning


def _short(v):
    s = f"{type(v).__name__}:{v!r}"
    return s if len(s) < 160 else s[:160] + "..."


def _snap(section):
    """plain dict of a configuration section (public API)"""
    return {k: section[k] for k in list(section.keys())}


def _same_state(a, b):
    return set(a) == set(b) and all(eq(a[k], b[k]) and type(a[k]) is type(b[k])
                                    for k in a)


def _nonstr_key(nk):
    if "s" in nk:
        return nk["s"]
    if "i" in nk:
        return nk["i"]
    if "f" in nk:
        return nk["f"]
    if "b" in nk:
        return nk["b"]
    return tuple(nk["tup"])


def _apply(cfg, route, sec, key, obj):
    """set one value through `route`; returns the configuration that holds it"""
    if route == "item":
        cfg[sec][key] = obj
    elif route == "update":
        cfg[sec].update({key: obj})
    elif route == "kwupdate":
        cfg[sec].update(**{key: obj})
    elif route == "cfgupdate":
        cfg.update({sec: {key: obj}})
    else:
        raise ValueError(route)
    return cfg


def _judge(kind, status, exp, obj, before, after, lowkey, exc, wcats):
    """list of (subcheck, message) problems of one set operation"""
    out = []
    if status == "ok":
        if exc is not None:
            return [("raises", f"valid representation {_short(obj)} raised "
                               f"{type(exc).__name__}: {exc}")]
        if lowkey not in after:
            return [("not-stored", f"valid representation {_short(obj)} was not stored")]
        got = after[lowkey]
        if not type_ok(kind, got):
            out.append(("type", f"{_short(obj)} stored as {_short(got)}, documented "
                                f"kind {lm.KINDNAME[kind]}"))
        if kind in "RU":
            if not (eq(got, exp) and type(got) is type(exp)):
                out.append(("value", f"{_short(obj)} stored as {_short(got)} (must be "
                                     "kept as is)"))
        elif not eq(got, exp):
            out.append(("value", f"{_short(obj)} stored as {_short(got)}, own "
                                 f"normalisation gives {_short(exp)}"))
        rest_b = {k: v for k, v in before.items() if k != lowkey}
        rest_a = {k: v for k, v in after.items() if k != lowkey}
        if not _same_state(rest_b, rest_a):
            out.append(("others-changed", f"other keys changed: {rest_b} -> {rest_a}"))
        return out
    if status.startswith("reject"):
        want = {"reject-empty": WARN_EMPTY, "reject-none": WARN_NONE,
                "reject-unknown": WARN_UNKNOWN, "reject-userkey": WARN_USERKEY}[status]
        if exc is not None:
            out.append(("reject-raises", f"{type(exc).__name__}: {exc}"))
        elif not any(issubclass(c, want) for c in wcats):
            out.append(("warning", f"no {want.__name__} for {_short(obj)}; got "
                                   f"{[c.__name__ for c in wcats]}"))
        if not _same_state(before, after):
            out.append(("unchanged", f"rejected input changed the section: {before} "
                                     f"-> {after}"))
        return out
    # lenient
    if exc is not None:
        if not _same_state(before, after):
            out.append(("unchanged", f"{type(exc).__name__} raised but section changed: "
                                     f"{before} -> {after}"))
        return out
    if lowkey in after and not (lowkey in before and eq(before[lowkey], after[lowkey])
                                and type(before[lowkey]) is type(after[lowkey])):
        if not type_ok(kind, after[lowkey]):
            out.append(("type", f"{_short(obj)} stored as {_short(after[lowkey])}, "
                                f"documented kind {lm.KINDNAME[kind]}"))
    rest_b = {k: v for k, v in before.items() if k != lowkey}
    rest_a = {k: v for k, v in after.items() if k != lowkey}
    if not _same_state(rest_b, rest_a):
        out.append(("others-changed", f"other keys changed: {rest_b} -> {rest_a}"))
    return out


def _do_set(cfg, route, sec, key, obj):
    """returns (exception or None, warning categories)"""
    exc = None
    with warnings.catch_warnings(record=True) as w:
        warnings.simplefilter("always")
        try:
            _apply(cfg, route, sec, key, obj)
        except Exception as e:  # noqa - judged by the oracle
            exc = e
    return exc, [x.category for x in w]


def _classify(sec, key, obj):
    """(kind, status, expected, disc) of a set operation from the own table"""
    low = key.lower() if isinstance(key, str) else key
    if sec == "user":
        if not isinstance(key, str) or not key.strip():
            return None, "reject-userkey", None, None
        kind = "U"
    else:
        kind = kind_of(sec, low)
        if kind is None:
            return None, "reject-unknown", None, None
    status, exp, disc = norm(kind, obj)
    return kind, status, exp, disc


def _sig(sub, kind, rep, disc, route_specific, route):
    if disc:
        s = f"{'raises' if sub == 'raises' else 'value'}/{disc}"
    else:
        s = f"{sub}/{lm.KINDNAME.get(kind, 'unknown-key')}/{lm.reptype(rep)}"
    if route_specific:
        s += f"/route-{route}"
    return s


# ------------------------------------------------------------------ assign

def _run_assign(spec, rec):
    cfg = dcfg.Configuration()
    model = {"filtering": dict(lm.FILTER_DEFAULTS)}
    rec.check(_same_state(_snap(cfg["filtering"]), model["filtering"]),
              "defaults/filtering", lambda: f"{_snap(cfg['filtering'])}")
    rec.check({s: set(v) for s, v in TABLE.items()}
              == {s: set(v) for s, v in dclab.dfn.config_keys.items()},
              "table/keyset", "documented key table differs from dclab.definitions")
    try:
        cfg["no such section"]
        rec.fail("unknown-section/no-keyerror", "cfg['no such section'] did not raise")
    except KeyError:
        pass
    crosstype = False
    for op in spec["ops"]:
        if op["o"] == "del":
            secs = sorted(s for s in model if model[s])
            if not secs:
                continue
            sec = secs[op["si"] % len(secs)]
            keys = sorted(model[sec])
            key = keys[op["ki"] % len(keys)]
            var = keyvar(key, op["kv"])
            if op["how"] == "del":
                del cfg[sec][var]
            else:
                got = cfg[sec].pop(var)
                rec.check(eq(got, model[sec][key]), "pop/value",
                          lambda: f"pop returned {_short(got)}")
            del model[sec][key]
            rec.check(_same_state(_snap(cfg[sec]), model[sec]), "del/state",
                      lambda: f"after deleting {key!r}: {_snap(cfg[sec])} != {model[sec]}")
            rec.cls("op:del")
            continue
        sec, route, rep = op["sec"], op["route"], op["rep"]
        key = _nonstr_key(op["nk"]) if "nk" in op else keyvar(op["key"], op["kv"])
        if not isinstance(key, str) and route == "kwupdate":
            route = "item"
        obj = build(rep)
        kind, status, exp, disc = _classify(sec, key, obj)
        low = key.lower() if isinstance(key, str) else key
        rec.cls(f"route:{route}")
        if kind:
            rec.cls(f"kind:{lm.KINDNAME[kind]}")
        rec.cls("status:" + ("reject" if status.startswith("reject") else status))
        if sec == "user" and isinstance(key, str) and ":" in key and status == "ok":
            rec.cls("user-key:colon")
        known_sec = sec in TABLE or sec == "user"
        if route == "ctor":
            fresh = None
            exc = None
            with warnings.catch_warnings(record=True) as w:
                warnings.simplefilter("always")
                try:
                    fresh = dcfg.Configuration(cfg={sec: {key: obj}})
                except Exception as e:  # noqa
                    exc = e
            wc = [x.category for x in w]
            b0 = dict(lm.FILTER_DEFAULTS) if sec == "filtering" else {}
            if fresh is not None and (known_sec or sec in fresh):
                a0 = _snap(fresh[sec])
            else:
                a0 = dict(b0)
            probs = _judge(kind, status, exp, obj, b0, a0, low, exc, wc)
            probs = [(s, m) for s, m in probs]
            self_probs = probs
            # keep the history going through the item route
            route2 = "item" if known_sec else "cfgupdate"
        else:
            self_probs = None
            route2 = route
        before = dict(model.get(sec, {}))
        if not known_sec and route2 != "cfgupdate":
            route2 = "cfgupdate"
        exc, wc = _do_set(cfg, route2, sec, key, obj)
        after = _snap(cfg[sec]) if (known_sec or sec in cfg) else {}
        probs = _judge(kind, status, exp, obj, before, after, low, exc, wc)
        model[sec] = dict(after)  # continue from the actual state
        for which, plist in (("main", probs), ("ctor", self_probs)):
            if not plist:
                continue
            rt = route2 if which == "main" else "ctor"
            for sub, msg in plist:
                rs = False
                if rt != "item" and known_sec:
                    # route specific?  judge the item route on a fresh object
                    c2 = dcfg.Configuration()
                    b2 = _snap(c2[sec])
                    e2, w2 = _do_set(c2, "item", sec, key, obj)
                    p2 = _judge(kind, status, exp, obj, b2, _snap(c2[sec]), low, e2, w2)
                    rs = sub not in [s for s, _ in p2]
                rec.fail(_sig(sub, kind, rep, disc, rs, rt),
                         f"[{sec}][{key!r}] via {rt}: {msg}")
        rec.checks += 1
        if status == "ok" and exc is None and low in after:
            stored = after[low]
            if kind not in "RU" and not type_ok(kind, obj):
                crosstype = True
                rec.cls("status:ok-crosstype")
            # case-insensitive lookups
            var = keyvar(low, op["kv2"])
            ok = True
            try:
                ok = (eq(cfg[sec][var], stored) and var in cfg[sec]
                      and eq(cfg[sec].get(var, "<absent>"), stored))
            except KeyError:
                ok = False
            rec.check(ok, "lookup/case-variant",
                      lambda: f"[{sec}] stored under {low!r}, lookup with {var!r} failed")
            if op.get("idem"):
                e3, _ = _do_set(cfg, "item", sec, var, stored)
                again = _snap(cfg[sec]).get(low, "<absent>")
                good = e3 is None and eq(again, stored) and type(again) is type(stored)
                if not good:
                    d2 = disc
                    if kind == "N" and isinstance(stored, list) and 0 in stored:
                        d2 = "intlist/falsy-element"
                    rec.fail(_sig("idempotence", kind, rep, d2, False, "item"),
                             f"[{sec}][{low!r}]: re-assigning the stored value "
                             f"{_short(stored)} gives {_short(again)} ({e3!r})")
                    model[sec] = _snap(cfg[sec])
                rec.checks += 1
    if crosstype:
        rec.nontrivial()
    # construction from / copy of the final state
    final = {s: _snap(cfg[s]) for s in cfg.keys()}
    for how in ("ctor-from-config", "copy"):
        with warnings.catch_warnings():
            warnings.simplefilter("ignore")
            c2 = dcfg.Configuration(cfg=cfg) if how == "ctor-from-config" else cfg.copy()
        for s in final:
            got = _snap(c2[s]) if s in c2 else {}
            if s == "filtering":  # a new Configuration always carries the defaults
                got = {k: v for k, v in got.items()
                       if k in final[s] or not (k in lm.FILTER_DEFAULTS
                                                and eq(v, lm.FILTER_DEFAULTS[k]))}
            if not _same_state(got, final[s]):
                bad = [k for k in final[s] if k not in got or not eq(got[k], final[s][k])
                       or type(got[k]) is not type(final[s][k])]
                kk = {kind_of(s, k) for k in bad}
                if kk == {"N"} and all(isinstance(final[s][k], list) and 0 in final[s][k]
                                        for k in bad):
                    sig = "value/intlist/falsy-element"
                else:
                    sig = f"{how}/" + "+".join(sorted(lm.KINDNAME.get(k, "?") for k in kk))
                rec.fail(sig, f"{how}: section {s}: {got} != {final[s]}")
            rec.checks += 1


# ------------------------------------------------------------------ text

def _text_safe(s):
    return (isinstance(s, str) and s == s.strip() and s != "" and s.isascii()
            and not any(c in s for c in "#'\"\n\r") and s == s.strip("' \""))


def _textform(rep):
    """text a person would write for this representation, or None"""
    t = rep["t"]
    if t in ("str", "npstr"):
        return rep["v"].strip() if isinstance(rep["v"], str) else None
    if t in ("int", "float", "bool"):
        return repr(build(rep))
    if t == "np":
        return repr(build(rep).item())
    if t in ("list", "tuple") and all(isinstance(x, (int, float)) and not isinstance(x, bool)
                                      for x in rep["v"]):
        return "[" + ", ".join(repr(x) for x in rep["v"]) + "]"
    return None


def _float_close(a, b):
    if a != a or b != b:
        return a != a and b != b
    if a in (INF, -INF) or b in (INF, -INF):
        return a == b
    # "{:.12f}": absolute rounding error <= 0.5e-12 (exact bound of the format)
    return abs(a - b) <= 1e-12 + 1e-15 * abs(a)


def _text_equal(kind, got, want):
    if kind == "F" or (kind == "X" and isinstance(want, float)
                       and not isinstance(want, bool)):
        return isinstance(got, float) and _float_close(float(got), float(want))
    return eq(got, want) and type_ok(kind, got)


def _load_both(rec, path, tag):
    """load_from_file and Configuration(files=[...]); returns (plain, cfg, exc)"""
    with warnings.catch_warnings(record=True) as w:
        warnings.simplefilter("always")
        try:
            plain = dcfg.load_from_file(path)
            cfg = dcfg.Configuration(files=[path])
        except Exception as e:  # noqa
            return None, None, e, []
    return plain, cfg, None, [x.category for x in w]


def _run_text(spec, rec, d):
    mode = spec["mode"]
    rec.cls(f"text:{mode}")
    rec.nontrivial()
    path = d / "cfg.txt"
    if mode == "save":
        cfg = dcfg.Configuration()
        for e in spec["entries"]:
            obj = build(e["rep"])
            kind, status, exp, disc = _classify(e["sec"], e["key"], obj)
            if status != "ok" or disc:
                rec.skip("text:not-a-valid-representation")
                continue
            if kind == "R" and lm._scalar(obj) is None:
                rec.skip("text:range-value-not-a-number")
                continue
            if kind == "U" and isinstance(obj, (list, tuple, np.ndarray)):
                # recommended user types are str/bool/float/int; a multi-line array
                # text would be file syntax of its own
                rec.skip("text:user-container")
                continue
            if isinstance(obj, (str, bytes)) and not (isinstance(obj, str) and _text_safe(obj)):
                rec.skip("text:string-not-expressible-in-file-syntax")
                continue
            exc, _ = _do_set(cfg, "item", e["sec"], keyvar(e["key"], e["kv"]), obj)
            if exc is not None:
                rec.skip("text:assignment-raised(assign-oracle-covers)")
        state = {s: _snap(cfg[s]) for s in cfg.keys()}
        hard = []  # kinds without a loadable text form
        for s in state:
            for k, v in state[s].items():
                kd = kind_of(s, k)
                if kd in ("P", "A"):
                    hard.append((s, k, lm.KINDNAME[kd]))
                elif kd == "X" and isinstance(v, float) and not isinstance(v, bool):
                    hard.append((s, k, "boolfloat-float"))
        cfg.save(path)
        if hard:
            plain, c2, exc, _ = _load_both(rec, path, "full")
            names = sorted({h[2] for h in hard})
            ok = exc is None and all(
                _text_equal(kind_of(s, k), c2[s].get(k, "<absent>"), state[s][k])
                for s, k, _ in hard)
            if not ok:
                for nm in names:
                    rec.fail(f"text/save-load/{nm}",
                             f"Configuration.save -> Configuration(files=) with "
                             f"{[(s, k, state[s][k]) for s, k, n in hard if n == nm]}: "
                             + (f"{type(exc).__name__}: {exc}" if exc else
                                f"loaded {[(k, c2[s].get(k, '<absent>')) for s, k, _ in hard]}"))
            rec.checks += 1
            for s, k, _ in hard:
                del cfg[s][k]
                del state[s][k]
            cfg.save(path)
        plain, c2, exc, _ = _load_both(rec, path, "clean")
        if not rec.check(exc is None, "text/save-load/raises",
                         lambda: f"loading a saved configuration raised "
                                 f"{type(exc).__name__}: {exc}\n{path.read_text()}"):
            return
        for s in sorted(state):
            for k, v in sorted(state[s].items()):
                kd = kind_of(s, k)
                got = c2[s].get(k, "<absent>") if s in c2 else "<absent>"
                rec.cls(f"text-kind:{lm.KINDNAME.get(kd)}")
                if kd == "R" or (kd == "U" and not isinstance(v, str)):
                    rec.skip("text:untyped-value-comes-back-as-text")
                    continue
                sig = f"text/save-load/{lm.KINDNAME[kd]}/{type(v).__name__}"
                if kd == "N" and 0 in v:
                    sig = "value/intlist/falsy-element"
                rec.check(_text_equal(kd, got, v), sig,
                          lambda: f"[{s}] {k}: saved {_short(v)}, loaded {_short(got)}")
        return
    # hand-written file
    lines = []
    model = {"filtering": {}}
    cur = None
    entries = list(spec["entries"])
    for i, e in enumerate(entries):
        sec, key = e["sec"], e["key"]
        kind = kind_of(sec, key.lower()) or "U"
        if kind in ("P", "A"):
            rec.skip("text:kind-has-no-text-form")
            continue
        txt = _textform(e["rep"])
        if txt is None or not _text_safe(txt):
            rec.skip("text:no-text-form")
            continue
        status, exp, disc = norm(kind, txt)
        if status != "ok":
            rec.skip("text:not-a-valid-representation")
            continue
        if kind == "X" and txt.lower() not in ("true", "false"):
            rec.skip("text:boolfloat-number-ambiguous")
            continue
        if "=" in key or "#" in key or key != key.strip() or key.startswith("["):
            rec.skip("text:key-not-expressible-in-file-syntax")
            continue
        if sec != cur:
            lines.append("[" + keyvar(sec, spec["seccase"] + i) + "]")
            cur = sec
        q = "" if "\t" in e["sp"] else e["q"]  # tab + quote is not stripped (syntax)
        lines.append(keyvar(key, e["kv"]) + e["sp"] + q + txt + q + e["cm"])
        model.setdefault(sec, {})[key.lower()] = (kind, exp)
        rec.cls(f"text-kind:{lm.KINDNAME[kind]}")
    junk = list(spec["junk"])
    pos = min(spec["junkpos"], len(lines))
    heads = [ln for ln in lines[:pos] if ln.startswith("[")]
    if pos == 0 or not heads or heads[-1].lower() == "[user]":
        # no open section yet / every key is a valid user key
        junk = [j for j in junk if j.strip() in ("", "# comment")]
    seen_plot = False
    for j in junk:
        if j == "[plotting]":
            seen_plot = True
    if seen_plot:
        # a foreign section swallows what follows: put it at the very end
        junk = [j for j in junk if j != "[plotting]"]
        lines = lines[:pos] + junk + lines[pos:] + ["[Plotting]", "contour color = white"]
    else:
        # unknown keys land in the section that is open at `pos`
        lines = lines[:pos] + junk + lines[pos:]
    path.write_text("\n".join(lines) + "\n", encoding="ascii")
    plain, cfg, exc, wc = _load_both(rec, path, "hand")
    if not rec.check(exc is None, "text/load/raises",
                     lambda: f"{type(exc).__name__}: {exc}\n" + "\n".join(lines)):
        return
    for sec in sorted(model):
        want = model[sec]
        got = _snap(cfg[sec])
        if sec == "filtering":
            want = dict({k: (kind_of("filtering", k), v)
                         for k, v in lm.FILTER_DEFAULTS.items()},
                        **{k: v for k, v in want.items() if isinstance(v, tuple)})
        extra = sorted(set(got) - set(want))
        rec.check(not extra, "text/load/unknown-key-stored",
                  lambda: f"[{sec}] holds {extra} after loading\n" + "\n".join(lines))
        for k, (kind, exp) in sorted(want.items()):
            g = got.get(k, "<absent>")
            ok = eq(g, exp) and type_ok(kind, g) if kind not in "RU" else (
                eq(g, exp) and type(g) is type(exp))
            rec.check(ok, "value/intlist/falsy-element" if kind == "N" and 0 in exp
                      else f"text/load/{lm.KINDNAME[kind]}",
                      lambda: f"[{sec}] {k}: expected {_short(exp)}, loaded {_short(g)}\n"
                              + "\n".join(lines))
            if sec in plain and kind not in "RU" and k in model[sec]:
                g2 = plain[sec].get(k, "<absent>")
                rec.check(eq(g2, exp) and type_ok(kind, g2),
                          f"text/load_from_file/{lm.KINDNAME[kind]}",
                          lambda: f"[{sec}] {k}: expected {_short(exp)}, "
                                  f"load_from_file gives {_short(g2)}")
    if seen_plot:
        rec.check(not ("plotting" in cfg and len(cfg["plotting"])),
                  "text/load/foreign-section-stored", "keys of [plotting] were stored")


# ------------------------------------------------------------------ h5

def _attr_type_ok(kind, a):
    if isinstance(a, (bytes, np.bytes_)):
        return False
    if kind in ("S", "L"):
        return isinstance(a, str)
    if kind == "F":
        return isinstance(a, (float, np.floating))
    if kind == "I":
        return isinstance(a, (int, np.integer)) and not isinstance(a, (bool, np.bool_))
    if kind == "B":
        return isinstance(a, (bool, np.bool_))
    if kind == "X":
        return isinstance(a, (bool, np.bool_, float, np.floating))
    if kind in ("P", "A"):
        return (isinstance(a, np.ndarray) and a.dtype == np.float64) or (
            kind == "A" and isinstance(a, np.float64))  # 0-d input
    return True


def _user_expect(obj):
    """what a user value must compare equal to after HDF5 storage; None = absent"""
    if isinstance(obj, bytes):
        obj = obj.decode("utf-8")
    if isinstance(obj, str):
        return None if obj == "" else str(obj)
    return obj


def _user_ok(got, want):
    if isinstance(want, str):
        return isinstance(got, str) and got == want
    if isinstance(want, np.ndarray) and want.ndim == 0:
        want = want[()]
    if isinstance(want, (list, tuple, np.ndarray)):
        return isinstance(got, np.ndarray) and eq(got, np.asarray(want))
    return eq(got, want) and lm.same_class(got, want)


def _h5_storable_user(obj):
    """homogeneous numeric containers, scalars and strings (documented user types)"""
    if isinstance(obj, np.str_):
        return False  # h5py has no conversion for numpy unicode scalars
    if isinstance(obj, (str, bytes)):
        return "\x00" not in (obj if isinstance(obj, str) else obj.decode())
    if isinstance(obj, (bool, float, np.generic)):
        return True
    if isinstance(obj, int):
        return -2**63 <= obj < 2**63
    if isinstance(obj, np.ndarray):
        return obj.dtype.kind in "biuf"
    if isinstance(obj, (list, tuple)):
        try:
            a = np.asarray(obj)
        except Exception:
            return False
        return a.dtype.kind in "biuf" and all(
            not isinstance(x, (str, list)) for x in obj) or (
            a.ndim == 2 and a.dtype.kind in "biuf")
    return False


class _Expect:
    """expected configuration of a file: {(sec, key): (kind, value)}"""

    def __init__(self):
        self.known = {}
        self.user = {}

    def compare(self, rec, cfg, tag, skip=()):
        for (sec, key), (kind, exp) in sorted(self.known.items()):
            if (sec, key) in skip:
                continue
            got = cfg[sec].get(key, "<absent>") if sec in cfg else "<absent>"
            if kind in "RU":
                ok = _user_ok(got, exp)
            else:
                ok = eq(got, exp) and type_ok(kind, got)
            rec.check(ok, f"h5/{tag}/{lm.KINDNAME[kind]}",
                      lambda: f"[{sec}] {key}: expected {_short(exp)}, file gives "
                              f"{_short(got)}")
        ugot = _snap(cfg["user"]) if "user" in cfg else {}
        for key, want in sorted(self.user.items()):
            if ("user", key) in skip:
                continue
            if want is None:
                rec.check(key not in ugot, f"h5/{tag}/user-empty-string-stored",
                          lambda: f"user key {key!r}: empty string came back as "
                                  f"{_short(ugot.get(key))}")
                continue
            got = ugot.get(key, "<absent>")
            rec.check(_user_ok(got, want),
                      f"h5/{tag}/user/{'colon-key' if ':' in key else 'plain-key'}",
                      lambda: f"user key {key!r}: expected {_short(want)}, file gives "
                              f"{_short(got)}")
        extra = sorted(set(ugot) - set(self.user))
        rec.check(not extra, f"h5/{tag}/user/extra-keys",
                  lambda: f"unexpected user keys {extra}")


def _open_cfg(rec, path, exp, tag):
    """config of the file as a plain snapshot; deals with the known class of files
    that cannot be opened (boolfloat key stored as True)"""
    err = None
    try:
        with dclab.new_dataset(path) as ds:
            cfg = {s: _snap(ds.config[s]) for s in ds.config.keys()}
            cfg2 = RTDC_HDF5.parse_config(path)
    except ValueError as e:
        xt = [k for k, (kd, v) in exp.known.items() if kd == "X" and v is True]
        if not xt or "bool or float" not in str(e):
            raise
        err = f"{type(e).__name__}: {e}"
    if err is not None:
        # the failed constructor leaves the HDF5 file open until it is collected
        boot.collect()
        rec.fail("h5/open-raises/boolfloat-true",
                 f"file with {xt} = True cannot be opened: {err}")
        with h5py.File(path, "a") as h5:
            for sec, key in xt:
                del h5.attrs[f"{sec}:{key}"]
                del exp.known[(sec, key)]
        with dclab.new_dataset(path) as ds:
            cfg = {s: _snap(ds.config[s]) for s in ds.config.keys()}
            cfg2 = RTDC_HDF5.parse_config(path)
    same = all(_same_state(cfg[s], _snap(cfg2[s]) if s in cfg2 else {}) for s in cfg)
    rec.check(same, "h5/parse_config-path-vs-dataset", "parse_config(path) differs from "
              "ds.config")
    return cfg


def _check_attrs(rec, path, exp):
    with h5py.File(path, "r") as h5:
        for (sec, key), (kind, val) in sorted(exp.known.items()):
            a = h5.attrs.get(f"{sec}:{key}")
            if a is None:
                rec.fail(f"attr/missing/{lm.KINDNAME[kind]}", f"{sec}:{key} not written")
                continue
            rec.check(_attr_type_ok(kind, a), f"attr/type/{lm.KINDNAME[kind]}",
                      lambda: f"attribute {sec}:{key} is {_short(a)}")
        for k, a in h5.attrs.items():
            rec.check(not isinstance(a, (bytes, np.bytes_)), "attr/bytes",
                      lambda: f"attribute {k} stored as bytes")


def _mask(bits, n):
    m = np.array([bits[i % len(bits)] for i in range(n)], dtype=bool)
    if not m.any():
        m[0] = True
    return m


def _meta_snapshot(cfg):
    """repr of every metadata entry (experiment ... user) of a configuration"""
    return {f"[{sec}] {k}": repr(np.asarray(v).tolist()) + type(v).__name__
            for sec in sorted(cfg.keys()) if sec in lm.FILE_SECTIONS or sec == "user"
            for k, v in sorted(dict(cfg[sec]).items())}


def _run_h5(spec, rec, d):
    src = spec["src"]
    rec.cls(f"h5:{src}")
    rec.nontrivial()
    n = spec["n"]
    deform = np.linspace(0.01, 0.2, n)
    base = base_meta()
    base["experiment"].pop("run identifier")
    exp = _Expect()
    for sec, dd in base.items():
        for k, v in dd.items():
            exp.known[(sec, k)] = (kind_of(sec, k), v)
    exp.known.pop(("setup", "software version"))
    swver = base["setup"]["software version"]
    via = "cfg" if src == "dict" else "wr"
    meta1, meta2 = {}, {}
    half = len(spec["entries"]) // 2 if spec["second"] else len(spec["entries"])
    for i, (sec, key, rep) in enumerate(spec["entries"]):
        obj = build(rep)
        kind = kind_of(sec, key)
        status, val, disc = norm(kind, obj, via)
        if status != "ok" or disc:
            rec.skip("h5:not-a-valid-representation")
            continue
        if src == "raw":
            if kind == "X" and not isinstance(obj, (bool, float)):
                rec.skip("h5:raw-boolfloat-restricted-to-bool-and-float")
                continue
            if isinstance(obj, (list, tuple)) and (kind not in "PA" or any(
                    isinstance(x, str) for x in np.asarray(obj, dtype=object).ravel())):
                rec.skip("h5:raw-container")
                continue
            if isinstance(obj, np.ndarray) and obj.dtype.kind not in "biuf":
                rec.skip("h5:raw-container")
                continue
        if (sec, key) == ("setup", "software version"):
            s = obj.decode() if isinstance(obj, bytes) else str(obj)
            if not isinstance(obj, (str, bytes)):
                rec.skip("h5:software-version-not-text")
                continue
            if "|" in s or s != s.strip() or "dclab" in s or not s:
                rec.skip("h5:software-version-chain-syntax")
                continue
            swver = val
            (meta1 if i < half else meta2).setdefault(sec, {})[key] = obj
            continue
        if kind in "SL" and "\x00" in val:
            continue
        if kind == "R":
            if not _h5_storable_user(obj) or (isinstance(obj, (str, bytes)) and not obj):
                rec.skip("h5:range-value-not-a-documented-type")
                continue
            val = _user_expect(obj)
        (meta1 if i < half else meta2).setdefault(sec, {})[key] = obj
        exp.known[(sec, key)] = (kind, val)
        rec.cls(f"h5-kind:{lm.KINDNAME[kind]}")
        if not type_ok(kind, obj):
            rec.cls("h5:crosstype")
    users = {}
    for key, rep in spec["user"]:
        obj = build(rep)
        if not _h5_storable_user(obj) or key.lower() in {k.lower() for k in users} \
                or "\x00" in key:
            rec.skip("h5:user-value-not-a-documented-type")
            continue
        if src == "dict" and (isinstance(obj, bytes) or (isinstance(obj, str) and not obj)):
            rec.skip("h5:dict-user-bytes-or-empty")
            continue
        users[key] = obj
        exp.user[key.lower()] = _user_expect(obj)
        if ":" in key:
            rec.cls("user-key:colon")
    path = d / "src.rtdc"
    # ---- produce the file
    if src == "writer":
        m1 = dict(base, **{s: dict(base.get(s, {}), **v) for s, v in meta1.items()})
        if users:
            m1["user"] = dict(users)
        with RTDCWriter(path) as hw:
            hw.store_metadata(m1)
            hw.store_feature("deform", deform)
            if "channel count" in m1.get("fluorescence", {}):
                # fluorescence features make the writer's auto-completion of the
                # channel count active: a value that was given must be kept
                rec.cls("writer:channel-count-given+fl-features")
                for flf in ("fl1_max", "fl3_max"):
                    hw.store_feature(flf, np.arange(1, len(deform) + 1))
            extra = spec["extra"]
            if extra:
                bad = {"fmt_tdms": {"fmt_tdms": {"video frame offset": 1}},
                       "calculation": {"calculation": {"emodulus medium": "CellCarrier"}},
                       "filtering": {"filtering": {"limit events": 5}},
                       "badkey": {"setup": {"channel width": 21.0, "no such key": 1}},
                       "badsec": {"nosuch": {"a": 1}}}[extra]
                before = dict(hw.h5file.attrs)
                try:
                    hw.store_metadata(bad)
                    raised = False
                except ValueError:
                    raised = True
                after = dict(hw.h5file.attrs)
                rec.cls(f"writer-extra:{extra}")
                if extra == "fmt_tdms":
                    rec.check(not raised and not any(k.startswith("fmt_tdms") for k in after),
                              "writer/fmt_tdms-dropped", f"raised={raised} attrs={sorted(after)}")
                else:
                    rec.check(raised, f"writer/undefined-{extra}-accepted",
                              "store_metadata accepted metadata that is not defined")
                    rec.check(set(before) == set(after) and all(
                        eq(before[k], after[k]) for k in before),
                        f"writer/undefined-{extra}-partially-written",
                        lambda: f"attributes changed: {sorted(set(after) ^ set(before))}")
        if meta2:
            with RTDCWriter(path, mode="append") as hw:
                hw.store_metadata(meta2)
    elif src == "dict":
        ds = dclab.new_dataset({"deform": deform})
        with warnings.catch_warnings():
            warnings.simplefilter("ignore")
            ds.config.update(base)
            for m in (meta1, meta2):
                for sec in m:
                    for key, obj in m[sec].items():
                        ds.config[sec][key] = obj
            if users:
                ds.config.update({"user": users})
            ds.export.hdf5(path, features=["deform"], filtered=False)
    else:  # raw h5py attributes on top of a minimal file
        with RTDCWriter(path) as hw:
            hw.store_metadata(base)
            hw.store_feature("deform", deform)
        with h5py.File(path, "a") as h5:
            for m in (meta1, meta2):
                for sec in m:
                    for key, obj in m[sec].items():
                        if (sec, key) == ("setup", "software version"):
                            swver = base["setup"]["software version"]
                            continue
                        if isinstance(obj, np.str_):
                            obj = str(obj)  # h5py cannot store numpy unicode scalars
                        h5.attrs[f"{sec}:{key}"] = obj
            for key, obj in users.items():
                if isinstance(obj, bytes):
                    obj = np.bytes_(obj)
                if isinstance(obj, np.str_):
                    obj = str(obj)
                h5.attrs[f"user:{key}"] = obj
    exp.known[("setup", "software version")] = ("S", f"{swver} | dclab {VERSION}")
    # ---- attribute types (writer converts to the pre-defined dtype, never bytes)
    raw_attrs = src == "raw"
    if not raw_attrs:
        _check_attrs(rec, path, exp)
    cfg = _open_cfg(rec, path, exp, src)
    exp.compare(rec, cfg, src)
    # ---- carry over
    cur = path
    skip = set()
    for ti, tool in enumerate(spec["tools"]):
        out = d / f"t{ti}.rtdc"
        tname = tool.split("_")[0]
        rec.cls(f"tool:{tname}")
        outs = [out]
        with quiet(), warnings.catch_warnings():
            warnings.simplefilter("ignore")
            if tool == "compress":
                cli.compress(path_in=str(cur), path_out=str(out))
            elif tool == "repack":
                cli.repack(path_in=str(cur), path_out=str(out))
            elif tool == "condense":
                cli.condense(path_in=str(cur), path_out=str(out))
            elif tname == "export":
                with dclab.new_dataset(cur) as ds:
                    if tool == "export_f":
                        ds.filter.manual[:] = _mask(spec["mask"], len(ds))
                        ds.apply_filter()
                        skip.add(("experiment", "run identifier"))
                    if tool == "export_mod":
                        obj = build(spec["jrep"])
                        st_, val, disc = norm("I", obj)
                        if st_ == "ok":
                            ds.config["imaging"]["roi position x"] = obj
                            exp.known[("imaging", "roi position x")] = ("I", val)
                        ds.config["user"]["Added:Later"] = 2.5
                        exp.user["added:later"] = 2.5
                        ds.config["setup"]["chip region"] = "ReserVoir"
                        exp.known[("setup", "chip region")] = ("L", "reservoir")
                    if tool == "export_again":
                        # an earlier filtered export of the same open dataset must
                        # not leak into what the next (plain) export carries over
                        ds.filter.manual[:] = _mask(spec["mask"], len(ds))
                        ds.apply_filter()
                        before = _meta_snapshot(ds.config)
                        ds.export.hdf5(d / f"side{ti}.rtdc", features=["deform"],
                                       filtered=True)
                        after = _meta_snapshot(ds.config)
                        rec.check(before == after, "h5/source-after-export/changed",
                                  lambda: "a filtered export changed the metadata of the "
                                          "open source dataset: " + ", ".join(
                                      f"{k}: {before.get(k, '<absent>')} -> "
                                      f"{after.get(k, '<absent>')}"
                                      for k in sorted(set(before) | set(after))
                                      if before.get(k) != after.get(k)))
                        exp.compare(rec, ds.config, "source-after-export", skip=skip)
                    ds.export.hdf5(out, features=["deform"],
                                   filtered=(tool == "export_f"))
            elif tool == "split":
                outdir = d / f"split{ti}"
                outdir.mkdir()
                with dclab.new_dataset(cur) as ds:
                    nn = len(ds)
                size = max(1, (nn + 1) // 2)
                outs = cli.split(path_in=str(cur), path_out=str(outdir),
                                 split_events=size, ret_out_paths=True)
                skip.add(("experiment", "run identifier"))
                skip.add(("experiment", "sample"))
            else:  # join with a later measurement
                other = d / f"other{ti}.rtdc"
                m2 = base_meta(experiment={"time": "12:00:09", "sample": "other"},
                               setup={"medium": "water"})
                with RTDCWriter(other) as hw:
                    hw.store_metadata(m2)
                    hw.store_feature("deform", deform[:1] if n > 1 else deform)
                kw = {}
                if tool == "join_meta":
                    obj = build(spec["jrep"])
                    st_, val, disc = norm("I", obj)
                    if st_ != "ok":
                        obj, val = "7.9", 7
                    kw["metadata"] = {"experiment": {"run index": obj},
                                      "user": {"Joined:By": "c11"}}
                    exp.known[("experiment", "run index")] = ("I", val)
                    exp.user["joined:by"] = "c11"
                else:
                    exp.known[("experiment", "run index")] = ("I", 1)
                cli.join(paths_in=[str(other), str(cur)], path_out=str(out), **kw)
        if tname in ("export", "split", "join"):
            raw_attrs = False  # rewritten through store_metadata
        for oi, o in enumerate(outs):
            e2 = exp
            if not raw_attrs:
                _check_attrs(rec, o, exp)
            cfg = _open_cfg(rec, o, e2, tname)
            e2.compare(rec, cfg, tname, skip=skip)
            if tool == "split":
                want = f"{exp.known[('experiment', 'sample')][1]} {oi + 1}/{len(outs)}"
                rec.check(cfg["experiment"].get("sample") == want, "h5/split/sample",
                          lambda: f"sample {cfg['experiment'].get('sample')!r} != {want!r}")
        if tool == "split":
            exp.known[("experiment", "sample")] = (
                "S", f"{exp.known[('experiment', 'sample')][1]} 1/{len(outs)}")
        cur = outs[0]


# ------------------------------------------------------------------ entry points

def run_case(spec, rec):
    kind = spec["kind"]
    if kind == "assign":
        return _run_assign(spec, rec)
    d = boot.casedir()
    try:
        if kind == "text":
            _run_text(spec, rec, d)
        else:
            _run_h5(spec, rec, d)
    finally:
        boot.rmcase(d)


def sample_view(spec):
    s = dict(spec)
    for k in ("ops", "entries", "user"):
        if k in s and len(s[k]) > 6:
            s[k] = s[k][:6] + [f"... {len(spec[k]) - 6} more"]
    return s


# ------------------------------------------------------------------ deterministic sweep

_CANON = {
    "S": [{"t": "str", "v": "AbC d"}, {"t": "int", "v": 3}, {"t": "float", "v": 2.5},
          {"t": "bool", "v": True}, {"t": "npstr", "v": "Np"}, {"t": "str", "v": "7"},
          {"t": "np", "dt": "float32", "v": 1.5}],
    "L": [{"t": "str", "v": "ChaNNel"}, {"t": "npstr", "v": "ABC"}, {"t": "str", "v": "x1"},
          {"t": "int", "v": 3}],
    "F": [{"t": "int", "v": 3}, {"t": "str", "v": "2.5"}, {"t": "str", "v": " 4e-1 "},
          {"t": "np", "dt": "float32", "v": 1.5}, {"t": "np", "dt": "int64", "v": 7},
          {"t": "bool", "v": True}, {"t": "arr0", "dt": "float64", "v": 0.125},
          {"t": "bytes", "v": "3.5"}, {"t": "float", "v": 0.34}, {"t": "float", "v": NAN},
          {"t": "str", "v": "abc"}, {"t": "list", "v": [1.0]}],
    "I": [{"t": "float", "v": 2.75}, {"t": "str", "v": "32.7"}, {"t": "str", "v": "TRUE"},
          {"t": "np", "dt": "float64", "v": -3.9}, {"t": "np", "dt": "uint16", "v": 250},
          {"t": "bool", "v": True}, {"t": "int", "v": 5}, {"t": "bytes", "v": "12"},
          {"t": "float", "v": INF}, {"t": "str", "v": "abc"}],
    "B": [{"t": "str", "v": "TRUE"}, {"t": "str", "v": "false"}, {"t": "int", "v": 0},
          {"t": "int", "v": 2}, {"t": "float", "v": 0.0}, {"t": "str", "v": "0"},
          {"t": "np", "dt": "bool", "v": True}, {"t": "np", "dt": "uint8", "v": 0},
          {"t": "bool", "v": False}, {"t": "str", "v": "yes"}],
    "X": [{"t": "float", "v": 2.5}, {"t": "bool", "v": False}, {"t": "int", "v": 3},
          {"t": "str", "v": "False"}, {"t": "int", "v": 0},
          {"t": "np", "dt": "float64", "v": 0.5}, {"t": "np", "dt": "bool", "v": False}],
    "P": [{"t": "list", "v": [1, "2.5"]}, {"t": "tuple", "v": [1.5, 2]},
          {"t": "arr", "dt": "int32", "v": [3, 4]}, {"t": "arr", "dt": "float64", "v": [0.5, NAN]},
          {"t": "list", "v": [1, 2, 3]}, {"t": "float", "v": 1.0}],
    "N": [{"t": "list", "v": [1, 2]}, {"t": "tuple", "v": [3, "4"]}, {"t": "str", "v": "5, 6"},
          {"t": "str", "v": "[7,8]"}, {"t": "list", "v": []}, {"t": "list", "v": [2.9, True]},
          {"t": "int", "v": 3}],
    "A": [{"t": "list", "v": [[1, 2], [3, 4.5], [5, 6]]}, {"t": "arr", "dt": "int32", "v": [[1, 2]]},
          {"t": "list", "v": [["1", "2"]]}, {"t": "arr", "dt": "float64", "v": [[0.5, NAN]]},
          {"t": "list", "v": [[1, 2], [3]]}],
    "R": [{"t": "float", "v": 0.5}, {"t": "int", "v": 3}, {"t": "np", "dt": "float32", "v": 1.5}],
    "U": [{"t": "str", "v": "Val"}, {"t": "int", "v": 4}, {"t": "float", "v": 2.5},
          {"t": "bool", "v": True}, {"t": "list", "v": [1, 2]}, {"t": "tuple", "v": [1.5, 2.5]},
          {"t": "arr", "dt": "int64", "v": [1, 2, 3]}],
}
_H5CANON = {"S": [2, 0, 1], "L": [0, 1], "F": [1, 0, 3, 7], "I": [1, 0, 4, 2], "B": [0, 2, 3, 5],
            "X": [0, 1], "P": [0, 2], "A": [0, 1], "R": [0, 1]}


def _all_targets():
    out = [(s, k) for s in sorted(TABLE) for k in sorted(TABLE[s])]
    out += [("online_filter", "area_um min"), ("online_filter", "deform max"),
            ("online_filter", "area_um soft limit"),
            ("online_filter", "area_um,deform soft limit"),
            ("online_filter", "area_um,deform polygon points"),
            ("filtering", "deform min"), ("user", "Foo:Bar"), ("user", "RBC")]
    return out


def enumerate_cases(tier):
    targets = _all_targets()
    # every key x canonical representations x routes (rotating)
    for ti, (sec, key) in enumerate(targets):
        kind = kind_of(sec, key.lower())
        ops = []
        reps = _CANON[kind] + [{"t": "str", "v": ""}, {"t": "none"}]
        for ri, rep in enumerate(reps):
            ops.append({"o": "set", "route": ROUTES[(ti + ri) % len(ROUTES)], "sec": sec,
                        "key": key, "kv": (ti + ri) % 4 + 4 * (37 * ri + ti), "kv2": ri + 1,
                        "rep": rep, "idem": True})
        yield {"kind": "assign", "ops": ops}
        if tier == "thorough":
            for route in ROUTES:
                yield {"kind": "assign", "ops": [dict(o, route=route) for o in ops]}
    # every file section: writer and raw attributes, one value per key
    for si, sec in enumerate(lm.FILE_SECTIONS):
        keys = [(s, k) for s, k in targets if s == sec and (s, k) not in H5KEYS_EXCLUDED]
        for variant in range(2 if tier == "quick" else 4):
            entries = []
            for ki, (s, k) in enumerate(keys):
                kind = kind_of(s, k)
                idx = _H5CANON[kind]
                entries.append([s, k, _CANON[kind][idx[(variant + ki) % len(idx)]]])
            for src in ("writer", "raw", "dict"):
                ents = entries
                if src == "raw":
                    ents = [[s, k, dict(r, t="npbytes") if r["t"] == "bytes" else r]
                            for s, k, r in entries]
                yield {"kind": "h5", "src": src, "entries": ents,
                       "user": [["Foo:Bar", {"t": "int", "v": 4}], ["RBC", {"t": "bool", "v": True}],
                                ["s", {"t": "str", "v": "Val"}]],
                       "n": 3, "second": bool(variant % 2), "extra": None,
                       "tools": [TOOLS[(si + variant) % len(TOOLS)]], "mask": [True, False],
                       "jrep": {"t": "str", "v": "7.9"}}
    # text: every typed key once, hand-written and saved
    for sec in sorted(TABLE):
        ents = []
        for ki, key in enumerate(sorted(TABLE[sec])):
            kind = TABLE[sec][key]
            rep = {"S": {"t": "str", "v": "AbC d"}, "L": {"t": "str", "v": "ChaNNel"},
                   "F": {"t": "float", "v": 0.123456789012345}, "I": {"t": "str", "v": "32.7"},
                   "B": {"t": "str", "v": "TRUE"}, "X": {"t": "bool", "v": True},
                   "P": {"t": "list", "v": [1.5, 2.5]}, "N": {"t": "list", "v": [1, 2]}}[kind]
            ents.append({"sec": sec, "key": key, "kv": ki, "rep": rep,
                         "sp": ["=", " = ", "  ="][ki % 3], "q": ["", "'", '"', ""][ki % 4],
                         "cm": ["", " # note"][ki % 2]})
        for mode in ("hand", "save"):
            yield {"kind": "text", "mode": mode, "entries": ents, "seccase": 5, "junk": [],
                   "junkpos": 0}
