"""C03 — the combined event filter equals the specification of the current settings.

History-driven: the spec is a list of operations on one in-memory dataset
(set/change/delete ranges, add/modify/invert/deregister polygon filters,
toggle invalid-event removal / enable, event limit, manual exclusions, reset,
apply).  After every apply the four filter arrays are compared with
(a) a stateless re-implementation of the documented semantics (`filter_spec`,
exact rational even-odd polygon membership) and (b) a *fresh* dataset that is
configured with the final settings only (history independence,
reproducibility of the event limit).
"""
import numpy as np
from hypothesis import strategies as st

from .. import boot
from ..common import meta
from ..lib_pip import classify

import dclab
from dclab import PolygonFilter

ID = "C03"
RULE = ("Hypothesis-generated operation histories on an in-memory dataset (n<=40, "
        "values on a dyadic grid with NaN/inf, bounds tying with data); non-trivial = "
        "history with >=2 applies in which a setting that had been applied was later "
        "changed or removed; distinct = sha1 of the spec")
BUDGET = {"quick": 2880, "thorough": 40000}
ESSENTIAL = ["op:range", "op:del_range", "op:poly_add", "op:poly_mod", "op:poly_rm",
             "op:limit", "op:manual", "op:reset", "op:enable", "op:invalid",
             "limit-active", "range-tie-with-data", "range-reversed",
             "failed-apply-then-corrected"]
ASSUMPTIONS = [
    "events lying exactly on a polygon boundary, or with a non-finite coordinate on a "
    "polygon axis, are excluded from the polygon comparison (counted)",
    "coordinates are dyadic rationals so that the compiled float test is exact off the "
    "boundary (no tolerance needed)",
    "ranges are always set/deleted as min+max pairs (a lone key raises by design)"]

FEATS = ["deform", "area_um", "bright_avg", "userdef1"]
GRID = [k / 8 for k in range(-40, 41)]
VAL = st.one_of(st.sampled_from(GRID), st.sampled_from(GRID),
                st.sampled_from([float("nan"), float("inf"), float("-inf")]))
BOUND = st.one_of(st.sampled_from(GRID), st.sampled_from(GRID),
                  st.sampled_from([float("inf"), float("-inf")]))
PT = st.tuples(st.integers(-24, 24).map(lambda i: i / 4),
               st.integers(-24, 24).map(lambda i: i / 4))


@st.composite
def st_op(draw, feats, n):
    kind = draw(st.sampled_from(
        ["range"] * 4 + ["failed_apply", "range_eq", "del_range", "del_range",
                         "range_missing",
                         "poly_add", "poly_add", "poly_mod", "poly_mod", "poly_rm",
                         "invalid", "enable", "limit", "limit", "manual", "manual",
                         "reset"] + ["apply"] * 5))
    if kind == "range":
        return ["range", draw(st.sampled_from(feats)), draw(BOUND), draw(BOUND),
                draw(st.booleans())]
    if kind == "failed_apply":
        # an apply that raises the documented ValueError (lone min key / unknown
        # feature in `force`) while other settings were changed in the same step;
        # the mistake is corrected afterwards
        return ["failed_apply", draw(st.sampled_from(["lone", "force"])),
                draw(st.sampled_from(feats)), draw(BOUND), draw(BOUND),
                draw(st.sampled_from(feats)), draw(BOUND), draw(BOUND)]
    if kind == "range_eq":
        return ["range_eq", draw(st.sampled_from(feats)), draw(st.sampled_from(GRID))]
    if kind == "del_range":
        return ["del_range", draw(st.sampled_from(feats))]
    if kind == "range_missing":
        return ["range_missing", draw(BOUND), draw(BOUND)]
    if kind == "poly_add":
        return ["poly_add", draw(st.integers(0, 7)), draw(st.integers(0, 7)),
                [list(p) for p in draw(st.lists(PT, min_size=3, max_size=8))],
                draw(st.booleans())]
    if kind == "poly_mod":
        return ["poly_mod", draw(st.integers(0, 7)),
                draw(st.sampled_from(["points", "invert", "axes"])),
                [list(p) for p in draw(st.lists(PT, min_size=3, max_size=8))],
                draw(st.integers(0, 7)), draw(st.integers(0, 7))]
    if kind == "poly_rm":
        return ["poly_rm", draw(st.integers(0, 7))]
    if kind in ("invalid", "enable"):
        return [kind, draw(st.booleans())]
    if kind == "limit":
        return ["limit", draw(st.sampled_from([0, 1, 2, 3, 5, 8, 13, n - 1, n, n + 5]))]
    if kind == "manual":
        return ["manual", draw(st.lists(st.integers(0, n - 1), min_size=1,
                                        max_size=6)), draw(st.booleans())]
    if kind == "reset":
        return ["reset"]
    return ["apply", draw(st.one_of(st.none(), st.sampled_from(feats)))]


@st.composite
def st_spec(draw):
    n = draw(st.sampled_from([1, 2, 5, 11, 20, 40]))
    nf = draw(st.integers(2, 4))
    feats = FEATS[:nf]
    data = {f: draw(st.lists(VAL, min_size=n, max_size=n)) for f in feats}
    ops = draw(st.lists(st_op(feats, n), min_size=1, max_size=40))
    # scenario prefixes that random mixing reaches too rarely
    scen = draw(st.sampled_from([None, None, "limit+manual", "limit+manual",
                                 "limit+range"]))
    if scen and n >= 5:
        k = draw(st.integers(1, max(1, n // 2)))
        pre = [["limit", k]]
        if scen == "limit+manual":
            idx = draw(st.lists(st.integers(0, n - 1), min_size=max(1, n // 4),
                                max_size=max(1, n // 2), unique=True))
            pre.append(["manual", idx, False])
        else:
            pre.append(["range", feats[0], draw(BOUND), draw(BOUND), True])
        pos = draw(st.integers(0, len(ops)))
        ops = ops[:pos] + pre + [["apply", None]] + ops[pos:]
    return {"n": n, "data": data, "ops": ops,
            # the same data behind the feature wrappers of the other dataset kinds
            # (HDF5 scalar features and hierarchy-child features have their own
            # min/max/indexing code)
            "backend": draw(st.sampled_from(["dict", "dict", "hdf5", "child"]))}


def strategy(tier):
    return st_spec()


# --------------------------------------------------------------- the oracle

def filter_spec(ds, ranges, polys, invalid, enable, manual, rec):
    """stateless specification -> box, polygon, polygon-ambiguous, invalid, qual"""
    n = len(ds)
    box = np.ones(n, dtype=bool)
    for f, (lo, hi) in sorted(ranges.items()):
        if f not in ds.features_scalar:
            continue
        if lo == hi:
            continue
        if lo > hi:
            lo, hi = hi, lo
        d = np.asarray(ds[f], dtype=float)
        with np.errstate(invalid="ignore"):
            box &= (d >= lo) & (d <= hi) & ~np.isnan(d)
    poly = np.ones(n, dtype=bool)
    amb = np.zeros(n, dtype=bool)
    for p in polys:
        x = np.asarray(ds[p["axes"][0]], dtype=float)
        y = np.asarray(ds[p["axes"][1]], dtype=float)
        for i in range(n):
            if not (np.isfinite(x[i]) and np.isfinite(y[i])):
                amb[i] = True
                continue
            c = classify(float(x[i]), float(y[i]), p["points"])
            if c == "boundary":
                amb[i] = True
            else:
                inside = c == "in"
                poly[i] &= (not inside) if p["inverted"] else inside
    inv = np.ones(n, dtype=bool)
    if invalid:
        for f in ds.features_scalar:
            d = np.asarray(ds[f], dtype=float)
            inv &= np.isfinite(d)
    return box, poly, amb, inv


def run_case(spec, rec):
    n = spec["n"]
    data = {f: np.array(v, dtype=float) for f, v in spec["data"].items()}
    feats = sorted(data)
    backend = spec.get("backend", "dict")
    rec.cls("backend:" + backend)
    cdir = None
    keep = []
    try:
        if backend == "hdf5":
            cdir = boot.casedir()
            with dclab.RTDCWriter(cdir / "c03.rtdc", mode="reset") as hw:
                hw.store_metadata(meta())
                for f in feats:
                    hw.store_feature(f, data[f].copy())
            ds = dclab.new_dataset(cdir / "c03.rtdc")
        elif backend == "child":
            keep.append(dclab.new_dataset({f: data[f].copy() for f in feats}))
            ds = dclab.new_dataset(keep[0])
        else:
            ds = dclab.new_dataset({f: data[f].copy() for f in feats})
        keep.append(ds)
        _run_history(spec, rec, ds, data, feats, n)
    finally:
        for x in reversed(keep):
            try:
                x.__exit__(None, None, None)
            except Exception:
                pass
        if cdir is not None:
            boot.rmcase(cdir)


def _run_history(spec, rec, ds, data, feats, n):
    # ---- model
    M = {"ranges": {}, "missing": None, "polys": [], "invalid": False,
         "enable": True, "limit": 0, "manual": np.ones(n, dtype=bool)}
    pfs = []             # PolygonFilter objects registered with ds (parallel to M.polys)
    applied = {}         # snapshot of settings at the previous apply
    napply = 0
    changed_after_apply = False
    deleted_after_apply = False
    for op in list(spec["ops"]) + [["apply", None]]:
        k = op[0]
        rec.cls("op:" + k)
        cf = ds.config["filtering"]
        if k == "range":
            _, f, a, b, minfirst = op
            if minfirst:
                cf[f + " min"] = a
                cf[f + " max"] = b
            else:
                cf[f + " max"] = b
                cf[f + " min"] = a
            M["ranges"][f] = (a, b)
            if a > b:
                rec.cls("range-reversed")
            if a != b and (np.any(data[f] == a) or np.any(data[f] == b)):
                rec.cls("range-tie-with-data")
        elif k == "failed_apply":
            _, how, f, a, b, g, a2, b2 = op
            # another range changed in the same step
            cf[g + " min"] = a2
            cf[g + " max"] = b2
            M["ranges"][g] = (a2, b2)
            raised = False
            if how == "lone" and f != g and f not in M["ranges"]:
                cf[f + " min"] = a
                try:
                    ds.apply_filter()
                except ValueError:
                    raised = True
                cf[f + " max"] = b          # mistake corrected
                M["ranges"][f] = (a, b)
                rec.check(raised, "failed-apply/lone-key-not-rejected",
                          "a lone '<feat> min' key did not raise the documented "
                          "ValueError")
            else:
                try:
                    ds.apply_filter(force=["no_such_feature"])
                except ValueError:
                    raised = True
                rec.check(raised, "failed-apply/unknown-force-not-rejected",
                          "apply_filter(force=[unknown]) did not raise ValueError")
            rec.cls("failed-apply-then-corrected")
        elif k == "range_eq":
            _, f, v = op
            cf[f + " min"] = v
            cf[f + " max"] = v
            M["ranges"][f] = (v, v)
        elif k == "del_range":
            f = op[1]
            if f in M["ranges"]:
                del cf[f + " min"]
                del cf[f + " max"]
                del M["ranges"][f]
                if napply and f in applied.get("ranges", {}):
                    deleted_after_apply = True
            else:
                rec.cls("op:del_range-noop")
        elif k == "range_missing":
            cf["fl2_max min"] = op[1]
            cf["fl2_max max"] = op[2]
        elif k == "poly_add":
            _, i, j, pts, invd = op
            ax = [feats[i % len(feats)], feats[j % len(feats)]]
            pf = PolygonFilter(axes=tuple(ax), points=pts, inverted=invd)
            ds.polygon_filter_add(pf)
            pfs.append(pf)
            M["polys"].append({"axes": ax, "points": [list(p) for p in pts],
                               "inverted": invd})
        elif k == "poly_mod":
            if not pfs:
                continue
            _, i, what, pts, a, b = op
            i %= len(pfs)
            if what == "points":
                pfs[i].points = np.array(pts, dtype=float)
                M["polys"][i]["points"] = [list(p) for p in pts]
            elif what == "invert":
                pfs[i].inverted = not pfs[i].inverted
                M["polys"][i]["inverted"] = not M["polys"][i]["inverted"]
            else:
                ax = [feats[a % len(feats)], feats[b % len(feats)]]
                pfs[i].axes = tuple(ax)
                M["polys"][i]["axes"] = ax
        elif k == "poly_rm":
            if not pfs:
                continue
            i = op[1] % len(pfs)
            ds.polygon_filter_rm(pfs[i])
            pfs.pop(i)
            M["polys"].pop(i)
        elif k == "invalid":
            cf["remove invalid events"] = op[1]
            M["invalid"] = op[1]
        elif k == "enable":
            cf["enable filters"] = op[1]
            M["enable"] = op[1]
        elif k == "limit":
            cf["limit events"] = op[1]
            M["limit"] = op[1]
        elif k == "manual":
            for i in op[1]:
                ds.filter.manual[i] = op[2]
                M["manual"][i] = op[2]
        elif k == "reset":
            ds.reset_filter()
            # reset_filter() restores the defaults of the [filtering] section and
            # the manual array; range keys stay in the configuration and therefore
            # remain "current settings"
            M.update(polys=[], invalid=False, enable=True, limit=0,
                     manual=np.ones(n, dtype=bool))
            pfs = []
        elif k == "apply":
            force = [op[1]] if op[1] else None
            ds.apply_filter(force=force)
            napply += 1
            snap = _snap(M)
            if napply >= 2 and _differs(applied, snap):
                changed_after_apply = True
            hist = ("after-range-deletion" if deleted_after_apply else
                    "after-change" if changed_after_apply else "first")
            _compare(ds, data, feats, M, pfs, rec, hist)
            applied = snap
    if napply >= 2 and (changed_after_apply or deleted_after_apply):
        rec.nontrivial()


def _snap(M):
    return {"ranges": dict(M["ranges"]),
            "polys": [(tuple(p["axes"]), tuple(map(tuple, p["points"])), p["inverted"])
                      for p in M["polys"]],
            "invalid": M["invalid"], "enable": M["enable"], "limit": M["limit"],
            "manual": M["manual"].copy()}


def _differs(a, b):
    if not a:
        return False
    for k in ("ranges", "polys", "invalid", "enable", "limit"):
        if a[k] != b[k]:
            return True
    return not np.array_equal(a["manual"], b["manual"])


def _compare(ds, data, feats, M, pfs, rec, hist):
    n = len(ds)
    # the specification is evaluated on the *current configuration*
    cf = ds.config["filtering"]
    ranges = {}
    for f in ds.features_scalar:
        if f + " min" in cf and f + " max" in cf:
            ranges[f] = (cf[f + " min"], cf[f + " max"])
    rec.check(ranges == {f: v for f, v in M["ranges"].items()}, "harness/ranges-model",
              f"config ranges {ranges} model {M['ranges']}")
    rec.check(cf["remove invalid events"] == M["invalid"]
              and cf["enable filters"] == M["enable"]
              and cf["limit events"] == M["limit"]
              and list(cf["polygon filters"]) == [p.unique_id for p in pfs],
              "harness/config-model", "config and model disagree")
    box, poly, amb, inv = filter_spec(ds, ranges, M["polys"], M["invalid"],
                                      M["enable"], M["manual"], rec)
    got_all = np.array(ds.filter.all)
    got_box = np.array(ds.filter.box)
    got_poly = np.array(ds.filter.polygon)
    got_inv = np.array(ds.filter.invalid)
    rec.check(np.array_equal(ds.filter.manual, M["manual"]), f"manual/{hist}",
              "manual array differs from the edits made")
    rec.check(np.array_equal(got_box, box), f"box/{hist}",
              lambda: f"box filter {got_box.astype(int)} expected {box.astype(int)} "
                      f"ranges={M['ranges']}")
    if amb.any():
        rec.skip("polygon-boundary-or-nonfinite-events", int(amb.sum()))
    ok = np.array_equal(got_poly[~amb], poly[~amb])
    rec.check(ok, f"polygon/{hist}",
              lambda: f"polygon filter {got_poly.astype(int)} expected "
                      f"{poly.astype(int)} (ambiguous {amb.astype(int)}) "
                      f"polys={M['polys']}")
    rec.check(np.array_equal(got_inv, inv), f"invalid/{hist}",
              lambda: f"invalid filter {got_inv.astype(int)} expected {inv.astype(int)}")
    if not M["enable"]:
        rec.check(got_all.all(), f"disabled-selects-all/{hist}",
                  f"{got_all.astype(int)}")
    else:
        # use the observed polygon array on ambiguous events only
        poly_eff = np.where(amb, got_poly, poly)
        qual = box & poly_eff & inv & M["manual"]
        q = int(qual.sum())
        lim = M["limit"]
        if lim > 0 and q > lim:
            rec.cls("limit-active")
            rec.check(int(got_all.sum()) == lim, f"limit/count/{hist}",
                      lambda: f"{int(got_all.sum())} events remain, limit {lim}, "
                              f"{q} qualify")
            rec.check(not np.any(got_all & ~qual), f"limit/subset/{hist}",
                      "limit selected an event that does not qualify")
        else:
            rec.check(np.array_equal(got_all, qual), f"all/{hist}",
                      lambda: f"all {got_all.astype(int)} expected {qual.astype(int)}")
    # ---- differential: fresh dataset with the final settings only
    ds2 = dclab.new_dataset({f: data[f].copy() for f in feats})
    cf2 = ds2.config["filtering"]
    for f, (a, b) in M["ranges"].items():
        cf2[f + " min"] = a
        cf2[f + " max"] = b
    cf2["remove invalid events"] = M["invalid"]
    cf2["enable filters"] = M["enable"]
    cf2["limit events"] = M["limit"]
    for pf in pfs:
        ds2.polygon_filter_add(pf)
    ds2.filter.manual[:] = M["manual"]
    ds2.apply_filter()
    for nm in ("all", "box", "polygon", "invalid"):
        a = np.array(getattr(ds.filter, nm))
        b = np.array(getattr(ds2.filter, nm))
        rec.check(np.array_equal(a, b), f"fresh-differential/{nm}/{hist}",
                  lambda: f"{nm}: history {a.astype(int)} fresh {b.astype(int)}")
    # re-apply is idempotent
    ds.apply_filter()
    rec.check(np.array_equal(np.array(ds.filter.all), got_all),
              f"reapply-changes-selection/{hist}", "")
