"""C04 — a hierarchy child is exactly the filtered view of its parent.

History-driven, model-based: the spec is a root dataset (in-memory dict or a
written .rtdc file; scalar, image, mask, contour, trace features, ancillary
features that depend on the root configuration, temporary features) plus a list
of operations on a hierarchy chain of depth 1..4 (filter edits on any level,
manual exclusion / re-inclusion on any level, `reset_filter`, temporary-feature
assignment on any level, `[imaging]`/`[calculation]` changes on the root, new
youngest member, refresh of the youngest member, occasional ancestor-only
refresh).  The interpreter executes it against dclab and against a model that
keeps, per level, the set of *root* event indices the user excluded.

Oracle after every refresh of level R (for all levels 0..R):
  view_0 = arange(N), view_{L+1} = view_L[observed filter_L.all]
  * len(child_L) == |view_L|, config event count, `index`, [calculation] copy
  * child_L[f][access] == root_data[f][view_L][access]  (NaN-aware, exact) for
    scalar / image / mask / contour / trace / ancillary / temporary features and
    integer, slice, boolean, integer-array and whole-array access
  * child_L.filter.manual[j] == (view_L[j] not in M_L)            (both directions)
  * filter_L.all == specification of level L's current settings evaluated on
    root_data[.][view_L] (box, polygon, invalid, manual, limit) - guards the
    "filter is re-created when the parent changed" mechanism.

Three history classes in which dclab is known to break the property are predicted by the
model *before* the refresh (`Sim.pre_refresh`, `_after_refresh`) and reported under their own
narrow signatures (known_findings.d/C04.json); all other assertions keep running:
  uncommitted-edit-overtaken, stale-chain-mapping, parent-events-replaced-same-filter-array.
"""
import numpy as np
from hypothesis import strategies as st

from .. import boot
from ..common import meta, eqnan, chunk_bytes, quiet
from ..runner import load_known

import dclab
from dclab import PolygonFilter, RTDCWriter
from dclab.rtdc_dataset import feat_temp

ID = "C04"
RULE = ("Hypothesis-generated operation histories (<=40 ops) on a hierarchy chain of depth "
        "1..4 over a generated root dataset (n<=30, dict or .rtdc file); non-trivial = "
        "depth>=2 and (a manual exclusion of a child that an ancestor edit had hidden is "
        "visible again at a later refresh, or a temporary feature assigned on a non-root "
        "level is followed by an ancestor filter edit and a refresh); distinct = sha1 of "
        "the spec")
BUDGET = {"quick": 800, "thorough": 14000}
ESSENTIAL = ["fmt:dict", "fmt:dict+contour", "fmt:hdf5", "has-contour", "depth:2", "depth:3", "depth:4",
             "op:range", "op:excl", "op:reincl", "op:reset", "op:temp", "op:cfg",
             "op:refresh", "op:spawn", "op:limit", "op:poly_add",
             "excl-hidden", "excl-reexposed", "excl-reexposed-while-other-visible",
             "hidden-by-intermediate-level", "temp-nonroot-then-edit",
             "parent-changed-with-visible-exclusion", "ancillary-changed-by-cfg"]
ASSUMPTIONS = [
    "views are derived from the *observed* filter.all of every level; the level filter is "
    "compared separately with a stateless specification (polygon membership through "
    "PolygonFilter.filter on the expected data)",
    "manual exclusions are only typed into (and temporary features only assigned to) a "
    "level that is synchronised with its ancestors; operations on a view that an "
    "ancestor-only refresh has invalidated are skipped and counted",
    "re-inclusion on a child level only while another visible exclusion remains on that "
    "level (documented all-True ambiguity of HierarchyFilter)",
    "range filters only on stored (static) features; box filters on features whose data "
    "change without a filter-key change are C03/C06 territory",
    "ancillary features (area_um, time, emodulus) are compared with the root's own values "
    "read at check time (their correctness is C06)",
    "version shim: dclab._version pre-seeded with 0.62.7 so that written files re-open"]

MAX_ROUNDS = 3
TIMEOUT = {"quick": 2400, "thorough": 8 * 3600}
KNOWN = {f["signature"] for f in load_known(ID)}

MAXDEPTH = 4
SAMEARR = "parent-events-replaced-same-filter-array"
GRID = [k / 8 for k in range(-8, 9)]
DVAL = st.one_of(st.sampled_from(GRID), st.sampled_from(GRID), st.sampled_from(GRID),
                 st.sampled_from([float("nan"), float("inf"), float("-inf")]))
IMG = (8, 10)
NSAMP = 7
TRACES = ["fl1_raw", "fl2_median"]
TEMPS = ["vf_tmp_a", "vf_tmp_b"]
TEMPND = "vf_tmp_nd"
RANGE_FEATS = ["userdef1", "deform"]
CFG_POOL = [
    ("imaging", "pixel size", [0.34, 0.25, 0.5]),
    ("imaging", "frame rate", [2000.0, 1000.0, 4000.0]),
    ("calculation", "emodulus lut", ["LE-2D-FEM-19"]),
    ("calculation", "emodulus medium", ["CellCarrier", "water"]),
    ("calculation", "emodulus temperature", [23.0, 30.0, 18.5]),
    ("calculation", "emodulus viscosity model", ["buyukurganci-2022", "herold-2017"]),
    ("calculation", "crosstalk fl21", [0.1, 0.0]),
]
CONTOUR_DERIVED = ["inert_ratio_cvx", "inert_ratio_prnc", "inert_ratio_raw", "tilt",
                   "volume"]
PEEK = ["deform", "userdef1", "area_um", "time", "image", "mask", "trace", "contour",
        "emodulus", "vf_tmp_a", "index"]


# ------------------------------------------------------------------ generator

@st.composite
def st_op(draw, n):
    kind = draw(st.sampled_from(
        ["win"] * 4 + ["hide"] * 4 + ["unhide"] * 4 + ["range"] * 2
        + ["range_eq", "del_range", "invalid", "enable", "limit", "limit",
           "poly_add", "poly_add", "poly_rm"]
        + ["excl"] * 8 + ["reincl"] * 3 + ["reset", "temp", "temp", "temp", "tempnd",
                                           "cfg", "cfg", "cfg", "peek", "spawn", "spawn",
                                           "refresh_mid"]
        + ["refresh"] * 10))
    L = draw(st.integers(0, MAXDEPTH))
    if kind == "win":
        # window on the event tag (userdef1 = 0..n-1): hides / re-exposes blocks
        a = draw(st.integers(-1, n))
        b = draw(st.integers(-1, n))
        return ["range", L, "userdef1", a - 0.5, b + 0.5]
    if kind == "hide":
        return ["hide", draw(st.integers(0, 11)), draw(st.integers(0, 3)),
                draw(st.integers(0, 1))]
    if kind == "unhide":
        return ["unhide", draw(st.integers(0, 7))]
    if kind == "range":
        return ["range", L, "deform", draw(st.sampled_from(GRID + [float("inf"),
                                                                   float("-inf")])),
                draw(st.sampled_from(GRID + [float("inf"), float("-inf")]))]
    if kind == "range_eq":
        return ["range_eq", L, draw(st.sampled_from(RANGE_FEATS)),
                draw(st.sampled_from(GRID))]
    if kind == "del_range":
        return ["del_range", L, draw(st.sampled_from(RANGE_FEATS))]
    if kind in ("invalid", "enable"):
        return [kind, L, draw(st.booleans())]
    if kind == "limit":
        return ["limit", L, draw(st.sampled_from([0, 0, 1, 2, 3, 5, 8, n - 1, n, n + 3]))]
    if kind == "poly_add":
        pts = draw(st.lists(st.tuples(st.integers(-2, n + 1).map(lambda i: i + 0.5),
                                      st.integers(-9, 9).map(lambda i: i / 8 + 1 / 16)),
                            min_size=3, max_size=6))
        return ["poly_add", L, [list(p) for p in pts], draw(st.booleans())]
    if kind == "poly_rm":
        return ["poly_rm", L, draw(st.integers(0, 3))]
    if kind == "excl":
        return ["excl", L, draw(st.lists(st.integers(0, 29), min_size=1, max_size=4))]
    if kind == "reincl":
        return ["reincl", L, draw(st.lists(st.integers(0, 29), min_size=1, max_size=2))]
    if kind == "reset":
        return ["reset", L]
    if kind == "temp":
        return ["temp", L, draw(st.integers(0, 1)), draw(st.integers(0, 2**16))]
    if kind == "tempnd":
        return ["tempnd", draw(st.integers(0, 2**16))]
    if kind == "cfg":
        i = draw(st.integers(0, len(CFG_POOL) - 1))
        return ["cfg", i, draw(st.integers(0, len(CFG_POOL[i][2]) - 1))]
    if kind == "peek":
        return ["peek", L, draw(st.integers(0, len(PEEK) - 1))]
    if kind == "spawn":
        return ["spawn"]
    if kind == "refresh_mid":
        return ["refresh_mid", L]
    return ["refresh"]


@st.composite
def st_chunk(draw, n):
    """single operation, or a scripted hide/re-expose cycle around random operations"""
    if draw(st.integers(0, 9)) < 8:
        return [draw(st_op(n))]
    L = draw(st.integers(1, MAXDEPTH))
    out = [["excl", L, draw(st.lists(st.integers(0, 29), min_size=2, max_size=4))]]
    if draw(st.booleans()):
        out.append(["refresh"])
    out.append(["hide", draw(st.integers(0, 11)), draw(st.integers(0, 3)),
                draw(st.integers(0, 1))])
    out.append(["refresh"])
    out += draw(st.lists(st_op(n), max_size=3))
    out.append(["unhide", draw(st.integers(0, 7))])
    out.append(["refresh"])
    return out


@st.composite
def st_spec(draw):
    n = draw(st.sampled_from([1, 2, 3, 5, 8, 12, 12, 20, 20, 30]))
    return {
        "n": n,
        "fmt": draw(st.sampled_from(["dict", "dict+contour", "hdf5"])),
        "seed": draw(st.integers(0, 2**16)),
        "deform": draw(st.lists(DVAL, min_size=n, max_size=n)),
        "depth": draw(st.sampled_from([1, 2, 2, 3, 3, 4])),
        "emod": draw(st.sampled_from([False, False, False, False, True])),
        "ops": [op for ch in draw(st.lists(
            st_chunk(n), min_size=draw(st.sampled_from([1, 5, 10, 15])), max_size=28))
            for op in ch][:40],
    }


def strategy(tier):
    return st_spec()


def sample_view(spec):
    s = dict(spec)
    s["deform"] = spec["deform"][:6] + (["..."] if len(spec["deform"]) > 6 else [])
    return s


# ------------------------------------------------------------------ root data

def make_data(spec):
    n = spec["n"]
    r = np.random.default_rng(spec["seed"])
    image = r.integers(0, 255, size=(n,) + IMG, dtype=np.uint8)
    image[:, 0, 0] = np.arange(n)            # tag
    # filled rectangular blobs that do not touch the image border (a contour can be
    # computed from them where no contour is stored)
    mask = np.zeros((n,) + IMG, dtype=bool)
    for i in range(n):
        y0, x0 = 1 + int(r.integers(0, 2)), 1 + int(r.integers(0, 3))
        hh, ww = 2 + int(r.integers(0, 3)), 2 + int(r.integers(0, 4))
        mask[i, y0:y0 + hh, x0:x0 + ww] = True
    contour = []
    for i in range(n):
        # closed outline of a w x h rectangle whose corner carries the event tag
        # (well-formed, so that contour-based ancillary features are computable)
        w, h = 2 + int(r.integers(0, 4)), 2 + int(r.integers(0, 3))
        x0, y0 = i, 3 + i % 4
        pts = ([(x0 + k, y0) for k in range(w)] + [(x0 + w, y0 + k) for k in range(h)]
               + [(x0 + w - k, y0 + h) for k in range(w)]
               + [(x0, y0 + h - k) for k in range(h)])
        contour.append(np.array(pts, dtype=np.int32))
    trace = {t: r.integers(-2000, 2000, size=(n, NSAMP)).astype(np.int16)
             for t in TRACES}
    for t in TRACES:
        trace[t][:, 0] = np.arange(n)
    data = {
        "deform": np.array(spec["deform"], dtype=float),
        "userdef1": np.arange(n, dtype=float),
        "area_cvx": r.integers(100, 900, size=n).astype(float),
        "frame": np.cumsum(r.integers(1, 50, size=n)).astype(np.int64),
        "image": image, "mask": mask, "contour": contour, "trace": trace,
    }
    return data


ROOT_META = dict(imaging={"roi size x": IMG[1], "roi size y": IMG[0]},
                 fluorescence={"samples per event": NSAMP, "sample rate": 312500,
                               "channel count": 2, "channels installed": 2,
                               "laser count": 1, "lasers installed": 1,
                               "bit depth": 16, "signal max": 1.0,
                               "signal min": -1.0, "trace median": 21})


def open_root(spec, data, d):
    if spec["fmt"].startswith("dict"):
        dd = {k: (v.copy() if isinstance(v, np.ndarray) else v)
              for k, v in data.items() if k not in ("contour", "trace")}
        if spec["fmt"] == "dict+contour":
            dd["contour"] = [c.copy() for c in data["contour"]]
        dd["trace"] = {t: a.copy() for t, a in data["trace"].items()}
        ds = dclab.new_dataset(dd)
        m = meta(**ROOT_META)
        for sec in ("imaging", "setup"):
            for k, v in m[sec].items():
                ds.config[sec][k] = v
        return ds
    path = d / "root.rtdc"
    with chunk_bytes(100), RTDCWriter(path, mode="reset") as hw:
        hw.store_metadata(meta(**ROOT_META))
        for f in ("deform", "userdef1", "area_cvx", "frame", "image", "mask"):
            hw.store_feature(f, data[f])
        hw.store_feature("contour", data["contour"])
        hw.store_feature("trace", data["trace"])
    return dclab.new_dataset(path)


# ------------------------------------------------------------------ model

class Level:
    def __init__(self):
        self.ranges = {}
        self.polys = []          # (PolygonFilter, axes)
        self.invalid = False
        self.enable = True
        self.limit = 0
        self.M = set()           # root indices excluded by the user on this level
        self.view = None         # root indices of the level's events (last refresh)
        self.snap = None         # copies of filter_K.all (K < L) at the last refresh
        self.hidden_seen = set()  # members of M seen hidden at a check
        self.tempedit = False    # temp feature assigned here, ancestor edited later
        self.uncommitted = False  # manual edits since the level's last refresh
        self.tainted = None      # reason why the manual model is not defined
        self.taint_reported = False
        self.Mc = set()          # M as of the level's last refresh ("committed")
        self.over = None         # (exclusions, re-inclusions) overtaken at this refresh
        self.tempflag = False
        self.ftaint = False      # cached box/polygon filters may be stale (see SAMEARR)


class Sim:
    def __init__(self, spec, rec, d):
        self.spec, self.rec = spec, rec
        self.n = spec["n"]
        self.data = make_data(spec)
        self.root = open_root(spec, self.data, d)
        self.ds = [self.root]
        self.lv = [Level()]
        self.temp = {}            # name -> full root array (model)
        self.mid = False          # an ancestor-only refresh happened in this history
        self.nt = False
        self.anc_last = {}
        self.dead = False
        self.lv[0].view = np.arange(self.n)
        self.lv[0].snap = []
        for _ in range(spec["depth"]):
            self.spawn()

    # ---- helpers
    @property
    def D(self):
        return len(self.ds) - 1

    def hist(self):
        return "ancestor-only-refresh-in-history" if self.mid else "youngest-refresh-only"

    def in_sync(self, L):
        lv = self.lv[L]
        for K in range(L):
            if not np.array_equal(np.asarray(self.ds[K].filter.all), lv.snap[K]):
                return False
        return True

    def spawn(self):
        # creating a child refreshes the whole chain above it
        hz = self.pre_refresh(self.D)
        ch = self.guarded(lambda: dclab.new_dataset(self.ds[-1]), hz)
        if self.dead:
            return
        self.ds.append(ch)
        new, par = Level(), self.lv[-1]
        # a new child copies its parent's configuration except ranges and polygons
        new.invalid, new.enable, new.limit = par.invalid, par.enable, par.limit
        self.lv.append(new)
        self._after_refresh(self.D, hz)

    # ---- refresh bookkeeping
    def pre_refresh(self, R):
        """What the refresh of level R is going to meet (state before the call).

        Every level L <= R first reads its manual array (`retrieve_manual_indices`),
        youngest first, *before* any ancestor is refreshed:
        * its direct parent's filter.all differs from the one it was synchronised with
          (ancestor-only refresh / ancestor reset_filter in between): dclab documents that
          the array is then not read -> manual edits typed since the level's last refresh
          are dropped ("uncommitted-edit-overtaken");
        * its direct parent is unchanged but a higher ancestor's filter.all changed and the
          manual array has a False entry: the child->root mapping runs through an
          inconsistent chain ("stale-chain-mapping": IndexError or wrong root events).
        """
        hz = {"stale": [], "over": {}}
        for L in range(1, R + 1):
            lv = self.lv[L]
            changed = [not np.array_equal(np.asarray(self.ds[K].filter.all), lv.snap[K])
                       for K in range(L)]
            if changed[L - 1]:
                if lv.uncommitted:
                    hz["over"][L] = (lv.M - lv.Mc, lv.Mc - lv.M)
            elif (any(changed[:L - 1]) and not np.all(self.ds[L].filter.manual)
                  and lv.uncommitted):
                # Since repair 9189952 (the hash of a hierarchy parent is part of
                # `parent_changed`) committed exclusions survive this history; only
                # manual edits typed since the level's last refresh are still at risk.
                hz["stale"].append(L)
        return hz

    def guarded(self, call, hz):
        try:
            return call()
        except IndexError as exc:
            import traceback
            names = [fr.name for fr in traceback.extract_tb(exc.__traceback__)]
            if hz["stale"] and "retrieve_manual_indices" in names:
                self.rec.fail("refresh/raises-IndexError/stale-chain-mapping",
                              f"refresh raises {exc!r} in retrieve_manual_indices: level(s) "
                              f"{hz['stale']} hold visible manual exclusions, their direct "
                              f"parent is unchanged but a higher ancestor was refreshed on "
                              f"its own (depth {self.D})")
                self.dead = True
                self.rec.cls("aborted-after-stale-chain-exception")
                return None
            raise

    def _after_refresh(self, R, hz):
        rec = self.rec
        views = [np.arange(self.n)]
        alls = []
        for K in range(R):
            a = np.array(self.ds[K].filter.all)
            alls.append(a)
            if len(a) != len(views[K]):
                # cannot continue: the chain itself is inconsistent
                rec.fail(f"len/filter-size/{self.hist()}",
                         f"level {K}: filter.all has {len(a)} entries, the level has "
                         f"{len(views[K])} events")
                self.dead = True
                return None
            views.append(views[K][a])
        for K in range(R + 1):
            lv = self.lv[K]
            old = lv.view
            if K >= 1 and old is not None:
                same_arr = np.array_equal(alls[K - 1], lv.snap[K - 1])
                if not same_arr:
                    # dclab re-creates the level's filter: everything is recomputed
                    lv.ftaint = False
                elif not np.array_equal(old, views[K]):
                    # the parent now holds *other events* but its boolean filter array is
                    # byte-identical: HierarchyFilter.parent_changed does not notice, the
                    # level keeps its positional manual array and its cached box/polygon
                    # filters
                    rec.cls("hazard:parent-events-replaced-same-filter-array")
                    if lv.M:
                        lv.tainted = lv.tainted or SAMEARR
                    if lv.polys or any(a != b for a, b in lv.ranges.values()):
                        lv.ftaint = True
            lv.view = views[K]
            lv.snap = [a.copy() for a in alls[:K]]
            lv.uncommitted = False
            if K >= 1 and old is not None and lv.M:
                if not np.array_equal(old, views[K]) and (lv.M & set(old.tolist())):
                    rec.cls("parent-changed-with-visible-exclusion")
            if K in hz["stale"]:
                rec.cls("hazard:stale-chain-mapping")
                lv.tainted = "stale-chain-mapping"
            if K in hz["over"]:
                rec.cls("hazard:uncommitted-edit-overtaken")
                lv.over = hz["over"][K]
        return views

    def refresh(self, R):
        if R < self.D:
            self.mid = True
        hz = self.pre_refresh(R)
        if R == 0:
            self.ds[0].apply_filter()
        else:
            self.guarded(self.ds[R].rejuvenate, hz)
            if self.dead:
                return
        views = self._after_refresh(R, hz)
        if views is not None:
            self.check(R, views)

    # ---- the oracle
    def expected_feature(self, f):
        """full root array (model for stored/temporary, root read for computed)"""
        if f in self.data and f not in ("contour", "trace"):
            return self.data[f]
        if f in self.temp:
            return self.temp[f]
        return None

    def check(self, R, views):
        rec, root = self.rec, self.root
        h = self.hist()
        feats = sorted(root.features)
        scal = sorted(root.features_scalar)
        nonscal = [f for f in feats if f not in scal]
        rec.check(set(nonscal) <= {"image", "mask", "contour", "trace", TEMPND},
                  "harness/unknown-nonscalar-root-features", f"{nonscal}")
        # expected full-length root arrays
        exp = {}
        for f in feats:
            if f in ("contour", "trace", "index"):
                continue
            e = self.expected_feature(f)
            if e is None:
                if self.spec["fmt"] == "dict+contour" and f in CONTOUR_DERIVED:
                    # RTDC_Dict cannot hash its contour object: these features are
                    # listed but unreadable on the root itself (not a C04 matter)
                    rec.skip("dict-root-contour-derived-feature-unreadable")
                    continue
                e = np.array(root[f][:])          # computed on the root (C06)
                prev = self.anc_last.get(f)
                if prev is not None and not eqnan(prev, e):
                    rec.cls("ancillary-changed-by-cfg")
                self.anc_last[f] = e
            exp[f] = np.asarray(e)
        rec.check(len(root) == self.n, f"len/root/{h}", f"{len(root)} != {self.n}")
        for f in sorted(self.temp):
            # documented: NaN for all root events that are not part of the assigning child
            got_t = np.asarray(root[f])
            rec.check(eqnan(got_t, self.temp[f]), f"feature/temporary/root-fill/{h}",
                      lambda: f"root['{f}'] = {got_t.tolist()} expected "
                              f"{self.temp[f].tolist()}")
        for L in range(R + 1):
            ds, lv, v = self.ds[L], self.lv[L], views[L]
            m = len(v)
            kind = "root" if L == 0 else "child"
            if L >= 1:
                self.check_child(L, ds, v, exp, scal, feats, h)
            # ---- manual exclusions
            man = np.array(ds.filter.manual)
            if len(man) != m:
                rec.fail(f"manual/size/{h}", f"level {L}: manual has {len(man)} entries "
                                             f"for {m} events")
                continue
            if L >= 1 and lv.over is not None:
                # documented: manual edits typed after the level's last refresh are not
                # read when the parent's filter changed before the level is refreshed
                lost, reinc = lv.over
                lv.over = None
                vis_lost = sorted(r for r in lost if r in set(v.tolist())
                                  and man[int(np.flatnonzero(v == r)[0])])
                if vis_lost:
                    rec.fail("manual/exclusion-lost/uncommitted-edit-overtaken",
                             f"level {L} of {self.D}: root events {vis_lost} were excluded on "
                             f"this level while it was synchronised; an ancestor's filter "
                             f"changed (ancestor-only refresh or reset_filter) before the "
                             f"level was refreshed and the exclusions are gone: "
                             f"view={v.tolist()} manual={man.astype(int).tolist()}")
                if lost:
                    rec.skip("uncommitted-exclusion-overtaken", len(lost))
                if reinc:
                    rec.skip("uncommitted-reinclusion-overtaken", len(reinc))
                # continue with what dclab documents: the committed state
                for r in lost:
                    if r not in set(v.tolist()) or r in vis_lost:
                        lv.M.discard(r)
                lv.M |= reinc
            expman = np.array([int(r) not in lv.M for r in v], dtype=bool)
            if L >= 1:
                vis = set(v.tolist())
                hidden = lv.M - vis
                back = lv.hidden_seen & lv.M & vis
                if hidden:
                    rec.cls("excl-hidden")
                    if any(self._hidden_by_intermediate(L, r, views) for r in hidden):
                        rec.cls("hidden-by-intermediate-level")
                if back:
                    rec.cls("excl-reexposed")
                    if self.D >= 2:
                        self.nt = True
                    if (lv.M & vis) - back:
                        rec.cls("excl-reexposed-while-other-visible")
                if lv.tainted:
                    bad = np.flatnonzero(man != expman)
                    if len(bad) and not lv.taint_reported:
                        lv.taint_reported = True
                        why = ("the parent's events were replaced while its boolean filter "
                               "array stayed byte-identical (filter not re-created)"
                               if lv.tainted == SAMEARR else
                               "this level's visible exclusions were mapped through a chain "
                               "whose upper part had been refreshed on its own")
                        rec.fail(f"manual/wrong-events/{lv.tainted}",
                                 f"level {L} of {self.D}: {why}; manual is "
                                 f"{man.astype(int).tolist()} for view {v.tolist()}, user "
                                 f"exclusions (root indices) {sorted(lv.M)}")
                    rec.skip(f"manual-model-undefined:{lv.tainted}")
                else:
                    bad = np.flatnonzero(man != expman)
                    roots = v[bad]
                    lost = [int(r) for r in roots if int(r) in lv.M]
                    spurious = [int(r) for r in roots if int(r) not in lv.M]
                    cl = "reexposed" if set(lost) & lv.hidden_seen else "visible"
                    rec.check(not lost, f"manual/exclusion-lost/{cl}/{h}",
                              lambda: f"level {L} of {self.D}: root events {lost} were "
                                      f"excluded by the user on this level but "
                                      f"filter.manual is True; M={sorted(lv.M)} "
                                      f"view={v.tolist()} manual={man.astype(int).tolist()}")
                    rec.check(not spurious, f"manual/spurious-exclusion/{h}",
                              lambda: f"level {L} of {self.D}: root events {spurious} are "
                                      f"excluded in filter.manual but the user never "
                                      f"excluded them (since the last reset); "
                                      f"M={sorted(lv.M)} view={v.tolist()} "
                                      f"manual={man.astype(int).tolist()}")
                lv.hidden_seen = ((lv.hidden_seen | hidden) & lv.M) - vis
                lv.Mc = set(lv.M)
            else:
                rec.check(np.array_equal(man, expman), f"manual/root/{h}",
                          lambda: f"root manual {man.astype(int).tolist()} "
                                  f"expected {expman.astype(int).tolist()}")
            # ---- the level's own filter equals the specification
            self.check_level_filter(L, ds, lv, v, exp, scal, man, kind,
                                    SAMEARR if lv.ftaint else h)
            if lv.tempedit and self.D >= 2:
                self.nt = True
                rec.cls("temp-nonroot-then-edit")
                lv.tempedit = False

    def _hidden_by_intermediate(self, L, r, views):
        """root event r is selected by the root filter (in view_1) but missing in view_L"""
        return L >= 2 and len(views) > 1 and r in set(views[1].tolist())

    def check_level_filter(self, L, ds, lv, v, exp, scal, man, kind, h):
        rec = self.rec
        m = len(v)
        cf = ds.config["filtering"]
        ranges = {f: (cf[f + " min"], cf[f + " max"]) for f in RANGE_FEATS
                  if f + " min" in cf and f + " max" in cf}
        rec.check(ranges == lv.ranges and cf["remove invalid events"] == lv.invalid
                  and cf["enable filters"] == lv.enable
                  and cf["limit events"] == lv.limit
                  and list(cf["polygon filters"]) == [p.unique_id for p, _ in lv.polys],
                  "harness/config-model", lambda: f"level {L}: {dict(cf)} vs model")
        box = np.ones(m, dtype=bool)
        for f, (lo, hi) in sorted(lv.ranges.items()):
            if lo == hi:
                continue
            if lo > hi:
                lo, hi = hi, lo
            dd = exp[f][v]
            box &= (dd >= lo) & (dd <= hi) & ~np.isnan(dd)
        poly = np.ones(m, dtype=bool)
        for pf, axes in lv.polys:
            poly &= np.asarray(pf.filter(exp[axes[0]][v].astype(float),
                                         exp[axes[1]][v].astype(float)), dtype=bool)
        inv = np.ones(m, dtype=bool)
        if lv.invalid:
            for f in scal:
                if f == "index":
                    continue
                inv &= np.isfinite(np.asarray(exp[f][v], dtype=float))
        got = np.array(ds.filter.all)
        gbox, gpoly, ginv = (np.array(ds.filter.box), np.array(ds.filter.polygon),
                             np.array(ds.filter.invalid))
        if len(got) != m:
            rec.fail(f"levelfilter/size/{kind}/{h}", f"level {L}: {len(got)} vs {m}")
            return
        rec.check(np.array_equal(gbox, box), f"levelfilter/box/{kind}/{h}",
                  lambda: f"level {L}: box {gbox.astype(int).tolist()} expected "
                          f"{box.astype(int).tolist()} ranges {lv.ranges}")
        rec.check(np.array_equal(gpoly, poly), f"levelfilter/polygon/{kind}/{h}",
                  lambda: f"level {L}: polygon {gpoly.astype(int).tolist()} expected "
                          f"{poly.astype(int).tolist()}")
        rec.check(np.array_equal(ginv, inv), f"levelfilter/invalid/{kind}/{h}",
                  lambda: f"level {L}: invalid {ginv.astype(int).tolist()} expected "
                          f"{inv.astype(int).tolist()}")
        if not lv.enable:
            rec.check(got.all(), f"levelfilter/disabled/{kind}/{h}", "")
            return
        qual = box & poly & inv & man
        q = int(qual.sum())
        if lv.limit > 0 and q > lv.limit:
            self.rec.cls("limit-active")
            rec.check(int(got.sum()) == lv.limit and not np.any(got & ~qual),
                      f"levelfilter/limit/{kind}/{h}",
                      lambda: f"level {L}: {int(got.sum())} selected, limit {lv.limit}, "
                              f"{q} qualify")
        else:
            rec.check(np.array_equal(got, qual), f"levelfilter/all/{kind}/{h}",
                      lambda: f"level {L}: all {got.astype(int).tolist()} expected "
                              f"{qual.astype(int).tolist()}")

    def check_child(self, L, ds, v, exp, scal, feats, h):
        rec, root = self.rec, self.root
        m = len(v)
        rec.check(len(ds) == m, f"len/child/{h}",
                  lambda: f"level {L}: len {len(ds)} but the parent's filter selects {m}")
        if len(ds) != m:
            return
        rec.check(ds.config["experiment"]["event count"] == m, f"config/event-count/{h}",
                  lambda: f"level {L}: event count "
                          f"{ds.config['experiment']['event count']} != {m}")
        rc = dict(root.config["calculation"]) if "calculation" in root.config else {}
        cc = dict(ds.config["calculation"]) if "calculation" in ds.config else {}
        rec.check(rc == cc, f"config/calculation/{h}",
                  lambda: f"level {L}: child [calculation] {cc} root {rc}")
        idx = np.asarray(ds["index"])
        rec.check(np.array_equal(idx, np.arange(1, m + 1)), f"feature/index/{h}",
                  lambda: f"level {L}: index {idx.tolist()}")
        # access patterns
        sel_int = sorted(set([0, m - 1, m // 2, (self.spec["seed"] + L) % m])) if m else []
        sl = slice(1, max(1, m - 1))
        bl = (np.arange(m) % 3 != 1)
        ia = np.arange(m)[::2]
        for f in feats:
            if f in ("index",) or (f not in exp and f not in ("contour", "trace")):
                continue
            fk = self.fkind(f)
            if f in ("contour", "trace") and f not in ds:
                rec.fail(f"feature/missing/{fk}/{h}",
                         f"level {L}: '{f}' in root but not in child")
                continue
            if f == "contour":
                obj = ds["contour"]
                rec.check(len(obj) == m, f"feature/len/contour/{h}", "")
                for j in sel_int:
                    got = obj[j]
                    if self.spec["fmt"] == "dict":
                        # no contour supplied: the root computes it from the mask
                        e = np.asarray(root["contour"][int(v[j])])
                    else:
                        e = self.data["contour"][int(v[j])]
                    rec.check(eqnan(got, e), f"feature/contour/int-access/{h}",
                              lambda: f"level {L}: contour[{j}] tag {np.asarray(got)[0, 0]} "
                                      f"expected root event {int(v[j])}")
                continue
            if f == "trace":
                tr = ds["trace"]
                rec.check(sorted(tr.keys()) == sorted(TRACES), f"feature/trace/keys/{h}",
                          lambda: f"{sorted(tr.keys())}")
                for t in TRACES:
                    if t not in tr:
                        continue
                    e = self.data["trace"][t][v]
                    self.cmp_nd(tr[t], e, m, sel_int, sl, bl, ia, "trace", L, h, t)
                continue
            e = exp[f][v]
            try:
                obj = ds[f]
            except KeyError:
                rec.fail(f"feature/missing/{fk}/{h}",
                         f"level {L}: '{f}' in root but not in child")
                continue
            except IndexError as exc:
                # child.hparent[f].shape reads event 0 of level L-2
                empty_anc = L >= 3 and len(self.lv[L - 2].view) == 0
                if e.ndim > 1 and f not in ("image", "mask") and empty_anc:
                    rec.fail(f"feature/{fk}/getitem-raises/empty-ancestor-level",
                             f"level {L}: child['{f}'] raises {exc!r} because an "
                             f"intermediate level has no events")
                    continue
                raise
            if e.ndim == 1:
                got = np.asarray(obj[:])
                ok = rec.check(eqnan(got, e), f"feature/{fk}/whole/{h}",
                               lambda: f"level {L}: {f} = {got.tolist()} expected "
                                       f"{e.tolist()} (view {v.tolist()})")
                if ok and m:
                    rec.check(eqnan(np.asarray(obj[sl]), e[sl])
                              and eqnan(np.asarray(obj[bl]), e[bl])
                              and eqnan(np.asarray(obj[ia]), e[ia])
                              and all(eqnan(obj[j], e[j]) for j in sel_int),
                              f"feature/{fk}/indexed/{h}",
                              lambda: f"level {L}: {f} slice/bool/int access differs")
                    fin = e[~np.isnan(e.astype(float))]
                    if len(fin) and hasattr(obj, "min"):
                        st_ok = (eqnan(float(obj.min()), float(np.nanmin(e)))
                                 and eqnan(float(obj.max()), float(np.nanmax(e))))
                        mean_g, mean_e = float(obj.mean()), float(np.nanmean(e))
                        if np.isfinite(mean_e):
                            st_ok &= abs(mean_g - mean_e) <= 1e-9 * max(
                                1e-300, float(np.max(np.abs(fin[np.isfinite(fin)]),
                                                     initial=0.0)))
                        else:
                            st_ok &= eqnan(mean_g, mean_e)
                        rec.check(st_ok, f"feature/{fk}/minmaxmean/{h}",
                                  lambda: f"level {L}: {f} min/max/mean "
                                          f"{obj.min()},{obj.max()},{obj.mean()} for "
                                          f"{e.tolist()}")
                rec.check(len(obj) == m, f"feature/len/{fk}/{h}", "")
            else:
                self.cmp_nd(obj, e, m, sel_int, sl, bl, ia, fk, L, h, f)

    def cmp_nd(self, obj, e, m, sel_int, sl, bl, ia, fk, L, h, name):
        rec = self.rec
        rec.check(len(obj) == m, f"feature/len/{fk}/{h}",
                  lambda: f"level {L}: len({name}) {len(obj)} != {m}")
        if m == 0:
            rec.skip("empty-child-nonscalar-access")
            return
        rec.check(tuple(obj.shape) == tuple(e.shape), f"feature/shape/{fk}/{h}",
                  lambda: f"level {L}: {name}.shape {obj.shape} expected {e.shape}")
        for j in sel_int:
            got = obj[j]
            rec.check(eqnan(got, e[j]), f"feature/{fk}/int-access/{h}",
                      lambda: f"level {L}: {name}[{j}] tag {np.asarray(got).ravel()[0]} "
                              f"expected tag {e[j].ravel()[0]}")
        got = obj[:]
        rec.check(eqnan(got, e), f"feature/{fk}/whole/{h}",
                  lambda: f"level {L}: {name}[:] tags "
                          f"{np.asarray(got).reshape(len(got), -1)[:, 0].tolist()} expected "
                          f"{e.reshape(m, -1)[:, 0].tolist()}")
        if m >= 2:
            rec.check(eqnan(obj[sl], e[sl]), f"feature/{fk}/slice-access/{h}",
                      lambda: f"level {L}: {name}[{sl}] differs")
            rec.check(eqnan(obj[bl], e[bl]), f"feature/{fk}/bool-access/{h}",
                      lambda: f"level {L}: {name}[bool] differs")
            rec.check(eqnan(obj[ia], e[ia]), f"feature/{fk}/array-access/{h}",
                      lambda: f"level {L}: {name}[int array] differs")

    def fkind(self, f):
        if f in ("image", "mask", "contour", "trace"):
            return f
        if f in TEMPS:
            return "temporary"
        if f == TEMPND:
            return "temporary-nd"
        if f in self.data:
            return "scalar"
        return "ancillary"

    # ---- operations
    def mark_edit(self, L):
        """a filter-relevant edit on level L: descendants will change at the next refresh"""
        for K in range(L + 1, self.D + 1):
            if self.lv[K].tempflag:
                self.lv[K].tempedit = True

    def op(self, op):
        rec = self.rec
        k = op[0]
        if k == "spawn":
            if self.D >= MAXDEPTH:
                rec.cls("op:spawn-at-maxdepth")
                return
            rec.cls("op:spawn")
            self.spawn()
            if not self.dead:
                self.check(self.D, [self.lv[K].view for K in range(self.D + 1)])
            return
        if k == "refresh":
            rec.cls("op:refresh")
            self.refresh(self.D)
            return
        if k == "tempnd":
            rec.cls("op:tempnd")
            arr = np.random.default_rng(op[1]).normal(size=(self.n, 3))
            arr[:, 0] = np.arange(self.n)
            feat_temp.set_temporary_feature(self.root, TEMPND, arr)
            self.temp[TEMPND] = arr
            return
        if k == "cfg":
            rec.cls("op:cfg")
            sec, key, vals = CFG_POOL[op[1]]
            self.root.config[sec][key] = vals[op[2]]
            return
        if k == "hide":
            # an ancestor K of a level L with a visible exclusion r gets a window on the
            # event tag that removes r (state-dependent, but a pure function of the spec)
            cands = []
            for L in range(1, self.D + 1):
                vis = set(self.lv[L].view.tolist())
                cands += [(L, r) for r in sorted(self.lv[L].M & vis)]
            if not cands:
                rec.cls("op:hide-noop")
                return
            L, r = cands[op[1] % len(cands)]
            K = op[2] % L
            a, b = (r + 0.5, self.n + 0.5) if op[3] == 0 else (-1.5, r - 0.5)
            op = ["range", K, "userdef1", a, b]
            k = "range"
            rec.cls("op:hide")
        elif k == "unhide":
            cands = [(L, f) for L in range(self.D + 1) for f in sorted(self.lv[L].ranges)]
            if not cands:
                rec.cls("op:unhide-noop")
                return
            L, f = cands[op[1] % len(cands)]
            op = ["del_range", L, f]
            k = "del_range"
            rec.cls("op:unhide")
        L = op[1] % (self.D + 1)
        ds, lv = self.ds[L], self.lv[L]
        cf = ds.config["filtering"]
        if k == "range":
            _, _, f, a, b = op
            rec.cls("op:range")
            cf[f + " min"] = a
            cf[f + " max"] = b
            lv.ranges[f] = (a, b)
            self.mark_edit(L)
        elif k == "range_eq":
            rec.cls("op:range_eq")
            cf[op[2] + " min"] = op[3]
            cf[op[2] + " max"] = op[3]
            lv.ranges[op[2]] = (op[3], op[3])
            self.mark_edit(L)
        elif k == "del_range":
            f = op[2]
            if f in lv.ranges:
                rec.cls("op:del_range")
                del cf[f + " min"]
                del cf[f + " max"]
                del lv.ranges[f]
                self.mark_edit(L)
        elif k == "invalid":
            if self.spec["fmt"] == "dict+contour":
                # would read the unreadable contour-derived features of the dict root
                rec.skip("invalid-filter-on-dict-root-with-contour")
                return
            rec.cls("op:invalid")
            cf["remove invalid events"] = op[2]
            lv.invalid = op[2]
            self.mark_edit(L)
        elif k == "enable":
            rec.cls("op:enable")
            cf["enable filters"] = op[2]
            lv.enable = op[2]
            self.mark_edit(L)
        elif k == "limit":
            rec.cls("op:limit")
            cf["limit events"] = op[2]
            lv.limit = op[2]
            self.mark_edit(L)
        elif k == "poly_add":
            if len(lv.polys) >= 2:
                return
            rec.cls("op:poly_add")
            pf = PolygonFilter(axes=("userdef1", "deform"), points=op[2], inverted=op[3])
            ds.polygon_filter_add(pf)
            lv.polys.append((pf, ("userdef1", "deform")))
            self.mark_edit(L)
        elif k == "poly_rm":
            if not lv.polys:
                return
            rec.cls("op:poly_rm")
            i = op[2] % len(lv.polys)
            ds.polygon_filter_rm(lv.polys[i][0])
            lv.polys.pop(i)
            self.mark_edit(L)
        elif k in ("excl", "reincl"):
            if L >= 1 and not self.in_sync(L):
                rec.skip("manual-edit-on-unsynchronised-view")
                return
            m = len(lv.view)
            if m == 0:
                rec.skip("manual-edit-on-empty-level")
                return
            js = sorted(set(j % m for j in op[2]))
            man = ds.filter.manual
            if k == "excl":
                rec.cls("op:excl")
                for j in js:
                    lv.M.add(int(lv.view[j]))
                if L >= 1 and sum(op[2]) % 4 == 0:
                    # the other documented entry point: all excluded measurement
                    # events (visible and hidden) as an index *array*
                    rec.cls("op:excl-via-apply_manual_indices")
                    ds.filter.apply_manual_indices(
                        ds, np.array(sorted(lv.M), dtype=np.int64))
                    # this entry point records the measurement events at once: nothing
                    # of the level's exclusions is "typed but not yet read" any more
                    lv.Mc = set(lv.M)
                    lv.uncommitted = False
                    self.mark_edit(L)
                    return
                else:
                    for j in js:
                        man[j] = False
            else:
                # re-include currently excluded events (picked by rank)
                exc = np.flatnonzero(~np.asarray(man))
                if len(exc) == 0:
                    return
                pick = sorted(set(int(exc[j % len(exc)]) for j in op[2]))
                if L >= 1 and len(exc) - len(pick) < 1:
                    # documented ambiguity: all-True means "remember previous exclusions"
                    rec.skip("reinclusion-of-all-visible-exclusions")
                    return
                rec.cls("op:reincl")
                for j in pick:
                    man[j] = True
                    lv.M.discard(int(lv.view[j]))
            lv.uncommitted = True
            self.mark_edit(L)
        elif k == "reset":
            rec.cls("op:reset")
            ds.reset_filter()
            lv.polys, lv.invalid, lv.enable, lv.limit = [], False, True, 0
            lv.M = set()
            lv.hidden_seen = set()
            lv.uncommitted = False
            lv.Mc = set()
            lv.tainted, lv.taint_reported = None, False
            lv.ftaint = False
            self.mark_edit(L)
        elif k == "temp":
            if L >= 1 and not self.in_sync(L):
                rec.skip("temp-feature-on-unsynchronised-view")
                return
            rec.cls("op:temp")
            rec.cls("op:temp-root" if L == 0 else "op:temp-child")
            name = TEMPS[op[2]]
            m = len(lv.view)
            vals = np.round(np.random.default_rng(op[3]).normal(size=m), 3)
            full = np.full(self.n, np.nan)
            full[lv.view] = vals
            # the call refreshes level L (and its ancestors) itself
            if L < self.D and L >= 1:
                self.mid = True
            hz = self.pre_refresh(L)
            self.guarded(lambda: feat_temp.set_temporary_feature(ds, name, vals), hz)
            if self.dead:
                return
            self.temp[name] = full
            if L >= 1:
                views = self._after_refresh(L, hz)
                lv.tempflag = True
                if views is not None:
                    self.check(L, views)
        elif k == "peek":
            f = PEEK[op[2]]
            if (L >= 1 and not self.in_sync(L)) or f not in ds:
                return
            rec.cls("op:peek")
            m = len(lv.view)
            if f == "trace":
                if m:
                    ds["trace"][TRACES[0]][0]
            elif f in ("image", "mask", "contour"):
                if m:
                    ds[f][m - 1]
            else:
                np.asarray(ds[f][:])
                if m and hasattr(ds[f], "min") and L >= 1:
                    a = np.asarray(ds[f][:], dtype=float)
                    if np.any(~np.isnan(a)):
                        ds[f].max()
        elif k == "refresh_mid":
            if L == self.D:
                rec.cls("op:refresh")
            else:
                rec.cls("op:refresh_mid")
            self.refresh(L)
        else:  # pragma: no cover
            raise ValueError(k)



def run_case(spec, rec):
    d = boot.casedir() if spec["fmt"] == "hdf5" else None
    sim = None
    try:
        for nm in TEMPS:
            feat_temp.register_temporary_feature(nm)
        feat_temp.register_temporary_feature(TEMPND, is_scalar=False)
        with quiet():
            sim = Sim(spec, rec, d)
            rec.cls("fmt:" + spec["fmt"])
            if "contour" in sim.root:
                rec.cls("has-contour")
            if spec["emod"]:
                for i in (2, 3, 4, 5):
                    sec, key, vals = CFG_POOL[i]
                    sim.root.config[sec][key] = vals[0]
            sim.refresh(sim.D)
            for op in spec["ops"]:
                if sim.dead:
                    break
                sim.op(op)
                if any(sig not in KNOWN for sig, _ in rec.failures):
                    # a new violation is on record: the rest of the history adds nothing
                    # to it (keeps shrinking cheap); known findings never stop a case
                    sim.dead = True
            if not sim.dead:
                sim.refresh(sim.D)
            rec.cls(f"depth:{sim.D}")
            if sim.nt:
                rec.nontrivial()
    finally:
        if sim is not None:
            try:
                sim.root.close()
            except Exception:
                pass
        if d is not None:
            boot.rmcase(d)
