"""C05 — Young's modulus = scaled piecewise-linear interpolation of the LUT.

Generator (spec = plain JSON):
  lut   : one of the 3 built-in tables, or a generated user table (50..400
          scattered nodes written in the documented text format, abscissa
          `area_um` or `volume`, own channel width / flow rate / viscosity)
          handed over as str path, pathlib path, registered identifier
          (implicit / explicit) or as (array, meta) tuple;
  cfg   : channel width, flow rate, pixel size (0 = off);
  visc  : numeric viscosity | medium x model x scalar temperature |
          medium x model x per-event temperature array;
  pts   : seed/n/mix -> query points made *in normalised LUT coordinates* from
          the oracle's own triangulation (interior, on inner edges, at nodes,
          hull edge +- 1e-3..1e-12, far outside, NaN/inf) and mapped to the
          caller's units with the inverse documented laws;
  ops   : metamorphic operations (split/permute/duplicate, scalar calls,
          route equivalence, linearity, joint rescaling, other-call
          interleaving, LUT hand-over forms, ds["emodulus"], copy=False).

Oracles: see notes/C05.md.  Nothing of scale_linear / pxcorr / viscosity /
load / normalize is used by the oracle; only Qhull (scipy.spatial) is shared.
"""
import copy as _copy
import json
import pathlib
import warnings

import numpy as np
import scipy.spatial
from hypothesis import strategies as st

from .. import boot
from ..common import eqnan, sha256

import dclab
from dclab.features import emodulus as emod
from dclab.features.emodulus import load as eload

ID = "C05"
RULE = ("Hypothesis-generated (LUT, set-up, viscosity route, query batch, "
        "metamorphic ops); query points are built in normalised LUT "
        "coordinates from the oracle's own Delaunay triangulation. A case is "
        "non-trivial when at least one event lies strictly inside the LUT "
        "support (finite expected value compared against the independent "
        "interpolation) or within 1e-3 (normalised) of the hull boundary; "
        "distinct = sha1 of the canonical JSON spec")
BUDGET = {"quick": 1200, "thorough": 18000}
#: a badly broken tree fails in almost every case: bound the re-run rounds
MAX_ROUNDS = 3
#: the quick tier needs ~5 min CPU in total; generous wall limit for a shared box
TIMEOUT = {"quick": 2700, "thorough": 6 * 3600}
ESSENTIAL = ["lut:builtin", "lut:user-area", "lut:user-volume",
             "route:numeric", "route:scalar-temp", "route:array-temp",
             "pt:interior", "pt:node", "pt:near-hull-in", "pt:near-hull-out",
             "pt:outside", "how:tuple", "how:ident", "how:path",
             "op:split", "op:routes", "op:rescale", "op:dataset", "op:lin",
             "px:0"]
ASSUMPTIONS = [
    "Qhull (scipy.spatial.Delaunay) is shared between oracle and code under "
    "test; triangles whose choice of diagonal is numerically ambiguous "
    "(in-circle margin < 1e-9) are excluded from the value comparison and "
    "counted",
    "the constants of the pixelation polynomial and of the viscosity models "
    "are transcribed from the sources cited in docs/sec_av_emodulus "
    "(Herold 2017, Buyukurganci 2022/Reichel 2023, Kestin 1978) as they "
    "stand in the baseline tree; the formulas are re-implemented in "
    "algebraically different form",
    "the LUT text files of the tree under test are the 'selected look-up "
    "table' (parsed by the oracle's own reader)",
    "events closer than 1e-9 (normalised units) to the hull boundary are "
    "not asserted to be NaN / finite (counted)",
]

#: known finding: events on a triangle edge may get NaN (Qhull point location)
SIG_EDGE = "support/nan-inside-hull/on-triangle-edge"
BAND = 1e-9          # hull band, normalised units
RTOL = 1e-7          # differential oracle
MTOL = 1e-9          # metamorphic relations
CTOL = 1e-12         # conditioning term: CTOL * (Emax-Emin)/h_min of the triangle

BUILTIN = ["LE-2D-FEM-19", "HE-2D-FEM-22", "HE-3D-FEM-22"]

#: calibration hook (tools only): dict name -> worst observed ratio
CAL = None


def _cal(name, val):
    if CAL is not None and np.size(val):
        v = float(np.nanmax(val))
        if not (CAL.get(name, 0.0) >= v):
            CAL[name] = v

# ---------------------------------------------------------------------------
# independent transcriptions (documented laws)
# ---------------------------------------------------------------------------

# name -> (canonical medium, aliases listed in viscosity.KNOWN_MEDIA docs)
MEDIA = {
    "mc049": ["0.49% MC-PBS", "0.5% MC-PBS", "0.50% MC-PBS", "CellCarrier",
              "cellcarrier", "0.49% mc-pbs"],
    "mc059": ["0.59% MC-PBS", "0.6% MC-PBS", "0.60% MC-PBS", "CellCarrier B",
              "CellCarrierB", "cellcarrier b", "cellcarrierb"],
    "mc083": ["0.83% MC-PBS", "0.8% MC-PBS", "0.80% MC-PBS", "0.83% mc-pbs"],
    "water": ["water"],
}
MODELS = {
    "mc049": ["herold-2017", "herold-2017-fallback", "buyukurganci-2022"],
    "mc059": ["herold-2017", "herold-2017-fallback", "buyukurganci-2022"],
    "mc083": ["buyukurganci-2022"],
    "water": ["kestin-1978", "herold-2017", "buyukurganci-2022"],  # ignored
}
#: temperature ranges of the models [degC]
TRANGE = {"herold": (18.0, 26.0), "buyuk": (22.0, 37.0), "kestin": (0.0, 40.0)}


def model_family(mkey, model):
    if mkey == "water":
        return "kestin"
    return "herold" if model.startswith("herold") else "buyuk"


def own_viscosity(mkey, model, cw, fr, temp):
    """viscosity [mPa s]; `temp` float or ndarray"""
    temp = np.asarray(temp, dtype=float) if isinstance(temp, np.ndarray) else float(temp)
    fam = model_family(mkey, model)
    q_over_l3 = fr * 1e9 / (cw * cw * cw)          # Q/L^3 in 1/s (uL/s, um)
    if fam == "kestin":
        dt = 20.0 - temp
        expo = dt / (temp + 96.0) * (1.2364 - 1.37e-3 * dt + 5.7e-6 * dt * dt)
        return 1.002 * np.power(10.0, expo)
    if fam == "herold":
        kk, nn, t0 = {"mc049": (0.179, 0.677, 23.2),
                      "mc059": (0.360, 0.634, 23.6)}[mkey]
        # 1.1856*6*2/3/0.5928 == 8
        gamma = 8.0 * q_over_l3 * (0.6771 + 0.2121 / nn)
        return 1e3 * kk * gamma ** (nn - 1.0) * (temp / t0) ** (-0.866)
    aa, beta = {"mc049": (2.30e-6, -0.0056), "mc059": (5.70e-6, -0.0744),
                "mc083": (16.52e-6, -0.1455)}[mkey]
    kel = temp + 273.15
    nn = 0.00223 * kel + beta
    kk = aa * np.exp(3379.7 / kel)
    gamma = 8.0 * q_over_l3 * (0.6671 + 0.2121 / nn)
    return 1e3 * kk * gamma ** (nn - 1.0)


def own_pxdelta(featx, x, px):
    """pixelation offset of the deformation, evaluated at the measured x"""
    x = np.asarray(x, dtype=float)
    if not px:
        return np.zeros_like(x)
    if featx == "area_um":
        s = x * (0.34 / px) ** 2
        return (0.0012 + 0.020 * np.exp(-s / 7.1) + 0.010 * np.exp(-s / 38.6)
                + 0.005 * np.exp(-s / 296.0))
    s = x * (0.34 / px) ** 3
    return (0.0013 + 0.0172 * np.exp(-s / 40.0) + 0.0070 * np.exp(-s / 450.0)
            + 0.0032 * np.exp(-s / 6040.0))


def xpow(featx):
    return 2 if featx == "area_um" else 3


# ---------------------------------------------------------------------------
# own LUT reader / writer
# ---------------------------------------------------------------------------

UNITS = {"area_um": "um^2", "volume": "um^3", "deform": "", "emodulus": "kPa"}


def parse_lut_text(path):
    meta_lines, header, rows, injson = [], None, [], False
    with open(path, "r", encoding="utf-8", errors="replace") as fd:
        for line in fd:
            s = line.strip()
            if not s:
                continue
            if s.startswith("#"):
                body = s[1:].strip()
                if body.startswith("BEGIN METADATA"):
                    injson = True
                elif body.startswith("END METADATA"):
                    injson = False
                elif injson:
                    meta_lines.append(body)
                elif body:
                    header = body
            else:
                rows.append([float(v) for v in s.split()])
    meta = json.loads("\n".join(meta_lines))
    feats = [h.strip().split(" ")[0] for h in header.split("\t")]
    return np.array(rows, dtype=float), meta, feats


def write_lut_text(path, nodes, featx, cw, fr, visc, ident):
    meta = {"authors": "vf", "channel_width": cw, "channel_width_unit": "um",
            "date": "2024-01-01", "dimensionality": "2Daxis",
            "flow_rate": fr, "flow_rate_unit": "uL/s",
            "fluid_viscosity": visc, "fluid_viscosity_unit": "mPa s",
            "identifier": ident, "method": "generated",
            "model": "smooth test function"}
    lines = ["# generated look-up table (verification harness)", "#",
             "# BEGIN METADATA"]
    lines += ["# " + ln for ln in json.dumps(meta, indent=2, sort_keys=True).split("\n")]
    lines += ["# END METADATA", "#"]
    cols = [featx, "deform", "emodulus"]
    lines.append("# " + "\t".join(
        (c + (" [" + UNITS[c] + "]" if UNITS[c] else "")) for c in cols))
    for row in nodes:
        lines.append("\t".join("%.5e" % v for v in row))
    pathlib.Path(path).write_text("\n".join(lines) + "\n", encoding="utf-8")


def gen_user_nodes(featx, n, seed):
    """scattered nodes, smooth positive non-linear E"""
    r = np.random.default_rng(int(seed) % (2 ** 32))
    shape = int(r.integers(0, 3))
    u = r.random(n)
    v = r.random(n)
    if shape == 1:      # triangle-like support
        v = v * (0.15 + 0.85 * u)
    elif shape == 2:    # disc-like support
        rad = np.sqrt(r.random(n)) * 0.5
        ang = r.random(n) * 2 * np.pi
        u = 0.5 + rad * np.cos(ang)
        v = 0.5 + rad * np.sin(ang)
    if featx == "area_um":
        x = 25.0 + u * float(r.uniform(100, 320))
    else:
        x = 80.0 + u * float(r.uniform(800, 5000))
    dtop = float(r.uniform(0.05, 0.25))
    d = 0.0008 + v * dtop
    a, b, c = r.uniform(0.5, 3.0), r.uniform(0.5, 2.5), r.uniform(0.2, 3.0)
    e = c * np.exp(a * (1 - d / d.max())) * (0.3 + b * (x / x.max()) ** 2) \
        * (1.0 + 0.2 * np.sin(7 * u + 3 * v))
    return np.c_[x, d, e]


# ---------------------------------------------------------------------------
# interpolation model (oracle)
# ---------------------------------------------------------------------------

def _hull_ccw(pts):
    """Andrew's monotone chain; returns CCW vertex coordinates (H,2)"""
    order = np.lexsort((pts[:, 1], pts[:, 0]))
    p = pts[order]

    def half(seq):
        out = []
        for q in seq:
            while len(out) >= 2:
                a, b = out[-2], out[-1]
                cr = (b[0] - a[0]) * (q[1] - a[1]) - (b[1] - a[1]) * (q[0] - a[0])
                if cr <= 0:
                    out.pop()
                else:
                    break
            out.append(q)
        return out

    lower = half(p)
    upper = half(p[::-1])
    return np.array(lower[:-1] + upper[:-1], dtype=float)


class Model:
    def __init__(self, nodes, featx, cw, fr, visc):
        self.nodes = np.array(nodes, dtype=float)
        self.featx = featx
        self.cw, self.fr, self.visc = float(cw), float(fr), float(visc)
        self.xmax = float(self.nodes[:, 0].max())
        self.dmax = float(self.nodes[:, 1].max())
        self.P = np.c_[self.nodes[:, 0] / self.xmax, self.nodes[:, 1] / self.dmax]
        self.E = self.nodes[:, 2]
        self.tri = scipy.spatial.Delaunay(self.P)
        hv = _hull_ccw(self.P)
        self.hA = hv
        self.hB = np.roll(hv, -1, axis=0)
        ed = self.hB - self.hA
        ln = np.hypot(ed[:, 0], ed[:, 1])
        # outward normal of a CCW polygon: (dy, -dx)
        self.hN = np.c_[ed[:, 1], -ed[:, 0]] / ln[:, None]
        # per-simplex conditioning
        S = self.tri.simplices
        a, b, c = self.P[S[:, 0]], self.P[S[:, 1]], self.P[S[:, 2]]
        det = np.abs((b[:, 0] - a[:, 0]) * (c[:, 1] - a[:, 1])
                     - (b[:, 1] - a[:, 1]) * (c[:, 0] - a[:, 0]))
        lmax = np.maximum.reduce([np.hypot(*(b - a).T), np.hypot(*(c - b).T),
                                  np.hypot(*(a - c).T)])
        self.s_h = det / lmax                       # smallest height
        ev = self.E[S]
        self.s_dE = ev.max(1) - ev.min(1)
        with np.errstate(divide="ignore", invalid="ignore"):
            self.s_grad = np.where(self.s_h > 0, self.s_dE / self.s_h, np.inf)
        self.s_Eabs = np.abs(ev).max(1)
        # per node: worst gradient of the incident simplices
        self.n_grad = np.zeros(len(self.P))
        for k in range(3):
            np.maximum.at(self.n_grad, S[:, k], self.s_grad)

    # -- support
    def sdist(self, pn):
        """signed distance-like measure: > 0 outside (max over edge lines)"""
        out = np.full(len(pn), -np.inf)
        for A, N in zip(self.hA, self.hN):
            out = np.maximum(out, (pn[:, 0] - A[0]) * N[0] + (pn[:, 1] - A[1]) * N[1])
        return out

    # -- interpolation
    def _bary(self, V, p):
        a, b, c = self.P[V[..., 0]], self.P[V[..., 1]], self.P[V[..., 2]]
        det = (b[..., 0] - a[..., 0]) * (c[..., 1] - a[..., 1]) \
            - (b[..., 1] - a[..., 1]) * (c[..., 0] - a[..., 0])
        w1 = ((p[..., 0] - a[..., 0]) * (c[..., 1] - a[..., 1])
              - (p[..., 1] - a[..., 1]) * (c[..., 0] - a[..., 0])) / det
        w2 = ((b[..., 0] - a[..., 0]) * (p[..., 1] - a[..., 1])
              - (b[..., 1] - a[..., 1]) * (p[..., 0] - a[..., 0])) / det
        return np.stack([1.0 - w1 - w2, w1, w2], axis=-1)

    def interp(self, xq, dq):
        """returns dict with E (LUT units), sd, loc (triangle found),
        amb (ambiguous diagonal), edge (event within rounding of a triangle
        edge/vertex), cond (ΔE/h of the triangle), eabs"""
        n = len(xq)
        pn = np.c_[np.asarray(xq, float) / self.xmax, np.asarray(dq, float) / self.dmax]
        fin = np.isfinite(pn).all(1)
        sd = np.full(n, np.inf)
        simp = np.full(n, -1, dtype=int)
        if fin.any():
            sd[fin] = self.sdist(pn[fin])
            simp[fin] = self.tri.find_simplex(pn[fin])
        # Qhull's point location gives up on points that sit on a triangle
        # edge within rounding: locate those by brute force with a tolerance
        S = self.tri.simplices
        with np.errstate(invalid="ignore", divide="ignore"):
            for i in np.flatnonzero(fin & (sd <= -BAND) & (simp < 0)):
                W = self._bary(S, pn[i][None, :])
                wm = np.where(np.isfinite(W).all(1), W.min(1), -np.inf)
                j = int(np.argmax(wm))
                if wm[j] >= -1e-9:
                    simp[i] = j
        E = np.full(n, np.nan)
        cond = np.full(n, np.nan)
        eabs = np.full(n, np.nan)
        amb = np.zeros(n, dtype=bool)
        edge = np.zeros(n, dtype=bool)
        loc = simp >= 0
        if loc.any():
            s = simp[loc]
            V = S[s]
            W = self._bary(V, pn[loc])
            ev = self.E[V]
            E[loc] = (W * ev).sum(1)
            cond[loc] = self.s_grad[s]
            eabs[loc] = self.s_Eabs[s]
            amb[loc] = self._ambiguous(s, V)
            # rounding of barycentric coordinates grows with 1/height
            nb = self.tri.neighbors[s]
            hn = np.where(nb >= 0, self.s_h[np.where(nb >= 0, nb, 0)], np.inf)
            hloc = np.minimum(self.s_h[s], hn.min(1))
            with np.errstate(divide="ignore"):
                thr = np.maximum(1e-10, 1e-13 / hloc)
            edge[loc] = np.abs(W).min(1) <= thr
        return {"E": E, "sd": sd, "loc": loc, "amb": amb, "cond": cond,
                "eabs": eabs, "simp": simp, "edge": edge}

    def _ambiguous(self, s, V):
        """in-circle margin of the triangle against the opposite vertex of
        each of its neighbours"""
        P = self.P
        out = np.zeros(len(s), dtype=bool)
        NB = self.tri.neighbors[s]
        a, b, c = P[V[:, 0]], P[V[:, 1]], P[V[:, 2]]
        for k in range(3):
            nb = NB[:, k]
            has = nb >= 0
            if not has.any():
                continue
            cand = self.tri.simplices[np.where(has, nb, 0)]
            notin = ~(cand[:, :, None] == V[:, None, :]).any(-1)
            oi = np.argmax(notin, axis=1)
            dpt = P[cand[np.arange(len(s)), oi]]
            ax, ay = (a - dpt).T
            bx, by = (b - dpt).T
            cx, cy = (c - dpt).T
            det = ((ax * ax + ay * ay) * (bx * cy - cx * by)
                   - (bx * bx + by * by) * (ax * cy - cx * ay)
                   + (cx * cx + cy * cy) * (ax * by - bx * ay))
            L = np.maximum.reduce([np.hypot(ax, ay), np.hypot(bx, by),
                                   np.hypot(cx, cy), np.hypot(*(a - b).T),
                                   np.hypot(*(b - c).T), np.hypot(*(c - a).T)])
            thr = np.maximum(1e-9 * L ** 4, 1e-12 * L ** 3)
            out |= has & (np.abs(det) < thr)
        return out


_BUILTIN_CACHE = {}


def builtin_path(name):
    return pathlib.Path(boot.REPO) / "dclab" / "features" / "emodulus" / f"lut_{name}.txt"


def builtin_model(name):
    if name not in _BUILTIN_CACHE:
        nodes, meta, feats = parse_lut_text(builtin_path(name))
        _BUILTIN_CACHE[name] = Model(nodes, feats[0], meta["channel_width"],
                                     meta["flow_rate"], meta["fluid_viscosity"])
    return _BUILTIN_CACHE[name]


# ---------------------------------------------------------------------------
# query points
# ---------------------------------------------------------------------------

KINDS = ["interior", "inner-edge", "node", "hull-near", "outside", "nonfinite"]


def make_points(model, seed, n, mix):
    """-> xq, dq (LUT units), kind index array, node index array"""
    r = np.random.default_rng(int(seed) % (2 ** 32))
    w = np.array([max(float(m), 0.0) for m in mix], dtype=float)
    if w.sum() <= 0:
        w = np.ones(len(KINDS))
    kind = r.choice(len(KINDS), size=n, p=w / w.sum())
    P, tri = model.P, model.tri
    pn = np.zeros((n, 2))
    node = np.full(n, -1, dtype=int)
    H = len(model.hA)
    for i in range(n):
        k = KINDS[kind[i]]
        if k in ("interior", "inner-edge"):
            V = tri.simplices[int(r.integers(len(tri.simplices)))]
            wt = r.dirichlet([1.0, 1.0, 1.0])
            if k == "inner-edge":
                wt[int(r.integers(3))] = 0.0
                wt = wt / wt.sum()
            pn[i] = wt @ P[V]
        elif k == "node":
            node[i] = int(r.integers(len(P)))
            pn[i] = P[node[i]]
        elif k == "hull-near":
            e = int(r.integers(H))
            t = float(r.uniform(0.03, 0.97))
            delta = 10.0 ** (-int(r.integers(3, 13)))
            sgn = 1.0 if r.random() < 0.5 else -1.0
            pn[i] = model.hA[e] + t * (model.hB[e] - model.hA[e]) \
                + sgn * delta * model.hN[e]
        else:   # outside / nonfinite (the latter is patched by the caller)
            if r.random() < 0.5:
                e = int(r.integers(H))
                t = float(r.uniform(0.0, 1.0))
                delta = 10.0 ** float(r.uniform(-2, 0))
                pn[i] = model.hA[e] + t * (model.hB[e] - model.hA[e]) \
                    + delta * model.hN[e]
            else:
                pn[i] = r.uniform(0.0, 1.6, size=2)
    xq = pn[:, 0] * model.xmax
    dq = pn[:, 1] * model.dmax
    isnode = node >= 0
    xq[isnode] = model.nodes[node[isnode], 0]
    dq[isnode] = model.nodes[node[isnode], 1]
    return xq, dq, kind, node


# ---------------------------------------------------------------------------
# strategy
# ---------------------------------------------------------------------------

def _st_float(lo, hi):
    return st.floats(lo, hi, allow_nan=False, allow_infinity=False, width=64)


@st.composite
def st_cfg(draw):
    return {
        "cw": draw(st.one_of(st.sampled_from([10.0, 15.0, 20.0, 20.0, 30.0, 40.0]),
                             _st_float(10.0, 60.0))),
        "fr": draw(st.one_of(st.sampled_from([0.01, 0.04, 0.04, 0.08, 0.16, 0.32, 1.2]),
                             _st_float(0.01, 1.2))),
        "px": draw(st.one_of(st.sampled_from([0.0, 0.0, 0.34, 0.34, 0.2, 0.68]),
                             _st_float(0.1, 1.0))),
    }


@st.composite
def st_visc(draw):
    mkey = draw(st.sampled_from(["mc049", "mc059", "mc083", "water"]))
    return {
        "route": draw(st.sampled_from(["numeric", "scalar-temp", "array-temp",
                                       "array-temp"])),
        "eta": draw(st.one_of(st.sampled_from([1.0, 6.0, 15.0]), _st_float(0.5, 30.0))),
        "mkey": mkey,
        "alias": draw(st.integers(0, 7)),
        "model": draw(st.sampled_from(MODELS[mkey][::draw(st.sampled_from([1, -1]))])),
        "tfrac": draw(_st_float(0.0, 1.0)),
        "tkind": draw(st.sampled_from(["random", "random", "two-level", "const"])),
        "tseed": draw(st.integers(0, 2 ** 31 - 1)),
    }


@st.composite
def st_lut(draw):
    # (the cheap choices come first: Hypothesis shrinks towards them)
    if draw(st.integers(0, 99)) >= 72:
        return {"kind": "builtin",
                "name": draw(st.sampled_from(["HE-3D-FEM-22"] + BUILTIN)),
                "how": draw(st.sampled_from(["ident", "ident", "path", "tuple"]))}
    return {
        "kind": "user",
        "featx": draw(st.sampled_from(["area_um", "area_um", "volume"])),
        "n": draw(st.one_of(st.sampled_from([50, 100, 400]), st.integers(50, 400))),
        "seed": draw(st.integers(0, 2 ** 31 - 1)),
        "cw": draw(st.sampled_from([20.0, 20.0, 15.0, 30.0, 25.5])),
        "fr": draw(st.sampled_from([0.04, 0.04, 0.16, 0.1])),
        "visc": draw(st.sampled_from([15.0, 6.0, 1.0, 2.75])),
        "how": draw(st.sampled_from(["path", "pathlib", "ident", "ident-explicit",
                                     "tuple", "tuple"])),
    }


OPS = ["split", "single", "routes", "lin", "rescale", "other", "lutform",
       "dataset", "copyfalse", "lutrewrite", "tuple32"]


@st.composite
def st_op(draw):
    op = draw(st.sampled_from(OPS))
    d = {"op": op, "seed": draw(st.integers(0, 2 ** 31 - 1))}
    if op == "split":
        d["k"] = draw(st.integers(1, 5))
        d["dup"] = draw(st.integers(0, 4))
    elif op == "lin":
        d["what"] = draw(st.sampled_from(["visc", "flow"]))
        d["k"] = draw(st.one_of(st.sampled_from([0.5, 2.0, 3.0]), _st_float(0.25, 4.0)))
    elif op == "rescale":
        d["s"] = draw(st.one_of(st.sampled_from([0.5, 1.5, 2.0]), _st_float(0.5, 2.0)))
    elif op == "other":
        d["cfg"] = draw(st_cfg())
        d["same_lut"] = draw(st.booleans())
        d["eta"] = draw(_st_float(0.5, 30.0))
    elif op == "dataset":
        d["case"] = draw(st.sampled_from(["A", "B", "C", "C+temp"]))
    return d


@st.composite
def st_spec(draw, tier):
    lut = draw(st_lut())
    big = 3000 if lut["kind"] == "builtin" else 400
    if tier == "thorough":
        big *= 2
    n = draw(st.one_of(st.sampled_from([1, 2, 3]), st.integers(4, 60),
                       st.integers(60, big), st.integers(60, big)))
    mix = draw(st.sampled_from([
        [4, 1, 2, 3, 1, 0], [4, 1, 2, 3, 1, 1], [1, 0, 0, 0, 0, 0],
        [1, 1, 1, 1, 1, 0], [0, 0, 1, 0, 0, 0], [1, 0, 1, 6, 1, 0],
        [6, 2, 1, 1, 4, 1]]))
    ops = draw(st.lists(st_op(), min_size=1, max_size=5, unique_by=lambda o: o["op"]))
    return {
        "lut": lut, "cfg": draw(st_cfg()), "visc": draw(st_visc()),
        "pts": {"seed": draw(st.integers(0, 2 ** 31 - 1)), "n": n, "mix": mix},
        "dtype": draw(st.sampled_from(["f8", "f8", "f8", "f4", "list"])),
        "ops": ops,
    }


def strategy(tier):
    return st_spec(tier)


def enumerate_cases(tier):
    """deterministic regression cases, run in addition to the generated ones:
    the event of the known finding (on a triangle edge of LE-2D-FEM-19, deep
    inside the support) with two neighbours at +-1e-9 um^2, through both
    routes"""
    a, dfm = 58.26391743544122, 0.02530816512911755
    for route in ("numeric", "scalar-temp", "array-temp"):
        yield {
            "lut": {"kind": "builtin", "name": "LE-2D-FEM-19", "how": "ident"},
            "cfg": {"cw": 20.0, "fr": 0.04, "px": 0.0},
            "visc": {"route": route, "eta": 6.0, "mkey": "mc049", "alias": 0,
                     "model": "buyukurganci-2022", "tfrac": 0.5, "tkind": "const",
                     "tseed": 1},
            "pts": {"seed": 0, "n": 3, "mix": [1, 0, 0, 0, 0, 0],
                    "explicit": [[a - 1e-9, dfm], [a, dfm], [a + 1e-9, dfm]]},
            "dtype": "f8",
            "ops": [{"op": "single", "seed": 1}, {"op": "routes", "seed": 2}],
        }


def sample_view(spec):
    return spec


# ---------------------------------------------------------------------------
# interpreter
# ---------------------------------------------------------------------------

class Ctx:
    pass


def _medium_name(v):
    al = MEDIA[v["mkey"]]
    return al[v["alias"] % len(al)]


def _temps(v, n, route):
    lo, hi = TRANGE[model_family(v["mkey"], v["model"])]
    t0 = lo + v["tfrac"] * (hi - lo)
    if route == "scalar-temp":
        return float(t0)
    r = np.random.default_rng(int(v["tseed"]) % (2 ** 32))
    if v["tkind"] == "const":
        return np.full(n, t0)
    if v["tkind"] == "two-level":
        return np.where(r.random(n) < 0.5, lo, hi).astype(float)
    return lo + r.random(n) * (hi - lo)


def _as_input(arr, dtype):
    """what the caller hands over; returns (object, float64 reference)"""
    if dtype == "f4":
        a = np.asarray(arr, dtype=np.float32)
        return a, a.astype(np.float64)
    if dtype == "list":
        a = [float(v) for v in arr]
        return a, np.asarray(a, dtype=np.float64)
    a = np.array(arr, dtype=np.float64)
    return a, a.copy()


def _snapshot(obj):
    if isinstance(obj, np.ndarray):
        return (obj.dtype.str, obj.shape, obj.tobytes())
    if isinstance(obj, list):
        return ("list", list(obj))
    return ("scalar", repr(obj))


def call(cx, rec, x, deform, cfg, visc_kw, lut_arg=None, guard=True, **extra):
    """one get_emodulus call with input-immutability guard"""
    kw = dict(deform=deform, channel_width=cfg["cw"], flow_rate=cfg["fr"],
              px_um=cfg["px"], lut_data=cx.lut_arg if lut_arg is None else lut_arg)
    kw[cx.featx if "featx" not in extra else extra.pop("featx")] = x
    kw.update(visc_kw)
    kw.update(extra)
    before = [_snapshot(x), _snapshot(deform), _snapshot(visc_kw.get("temperature"))]
    with warnings.catch_warnings():
        warnings.simplefilter("ignore")
        out = emod.get_emodulus(**kw)
    if guard:
        after = [_snapshot(x), _snapshot(deform), _snapshot(visc_kw.get("temperature"))]
        for nm, b, a in zip(["abscissa", "deform", "temperature"], before, after):
            rec.check(b == a, f"immutable/input-{nm}/{cx.tag}",
                      f"caller's {nm} array was modified by get_emodulus (copy=True)")
    return np.asarray(out)


def visc_kwargs(v, route, n, temps=None):
    """(kwargs for get_emodulus, own eta (float or array), temperature object)"""
    if route == "numeric":
        return dict(medium=float(v["eta"]), temperature=None, visc_model=None), \
            float(v["eta"]), None
    t = _temps(v, n, route) if temps is None else temps
    return dict(medium=_medium_name(v), temperature=t, visc_model=v["model"]), None, t


def close_events(a, b, tol):
    """per-event closeness where both finite; returns bool array"""
    with np.errstate(invalid="ignore"):
        return np.abs(a - b) <= tol


def compare_meta(rec, cx, got, ref, sig, what, scale_tol=1.0, idx=None):
    """metamorphic comparison of two dclab results for the same events.
    NaN pattern must agree outside the hull band, values within
    MTOL*|E| + conditioning term."""
    got = np.asarray(got, dtype=float).reshape(-1)
    ref = np.asarray(ref, dtype=float).reshape(-1)
    if got.shape != ref.shape:
        rec.fail(f"{sig}/shape", f"{what}: shapes {got.shape} vs {ref.shape}")
        return
    band = cx.inband if idx is None else cx.inband[idx]
    ctol = cx.ctol if idx is None else cx.ctol[idx]
    edge = cx.edge if idx is None else cx.edge[idx]
    ng, nr = np.isnan(got), np.isnan(ref)
    badedge = (ng != nr) & ~band & edge
    rec.check(not badedge.any(), SIG_EDGE,
              lambda: f"{what}: {int(badedge.sum())} events inside the LUT support that "
                      "lie on a triangle edge/vertex (within rounding) are NaN in one "
                      "of the two calls and finite in the other")
    badnan = (ng != nr) & ~band & ~edge
    rec.skip("meta:hull-band-event", int(((ng != nr) & band).sum()))
    rec.check(not badnan.any(), f"{sig}/nan-pattern",
              lambda: f"{what}: NaN pattern differs for {int(badnan.sum())} events "
                      f"outside the hull band (first at {int(np.flatnonzero(badnan)[0])})")
    both = ~ng & ~nr
    if both.any():
        tol = MTOL * np.maximum(np.abs(got), np.abs(ref)) + scale_tol * np.nan_to_num(
            ctol, nan=0.0, posinf=np.inf)
        bad = both & ~close_events(got, ref, tol)
        if CAL is not None:
            with np.errstate(invalid="ignore", divide="ignore"):
                dd = np.abs(got - ref)[both]
                _cal("meta-rel:" + sig.split("/")[0],
                     dd / np.maximum(np.abs(got), np.abs(ref))[both])
                _cal("meta-tolratio:" + sig.split("/")[0], dd / tol[both])
        rec.check(not bad.any(), f"{sig}/value",
                  lambda: f"{what}: {int(bad.sum())} events differ, e.g. "
                          f"{got[bad][0]!r} vs {ref[bad][0]!r}")


def check_oracle(rec, cx, got, x_ref, d_ref, cfg, eta, route, label="main"):
    """differential + support + node oracle for one dclab result"""
    model = cx.model
    got = np.asarray(got, dtype=float)
    n = len(x_ref)
    if not rec.check(got.shape == (n,), f"shape/{cx.tag}",
                     f"result shape {got.shape} for {n} events"):
        return None
    p = xpow(cx.featx)
    xq = x_ref * (model.cw / cfg["cw"]) ** p
    dq = d_ref - own_pxdelta(cx.featx, x_ref, cfg["px"])
    it = model.interp(xq, dq)
    scale = (cfg["fr"] / model.fr) * (np.asarray(eta, dtype=float) / model.visc) \
        * (model.cw / cfg["cw"]) ** 3
    scale = np.broadcast_to(scale, (n,))
    exp = it["E"] * scale
    sd = it["sd"]
    inside = sd <= -BAND
    outside = sd >= BAND            # non-finite inputs have sd = +inf
    band = ~inside & ~outside
    isn = np.isnan(got)
    rec.skip("support:hull-band-event", int(band.sum()))
    tag = f"{cx.tag}/{route}"
    # ---- support
    bad = outside & ~isn
    rec.check(not bad.any(), f"support/finite-outside-hull/{tag}",
              lambda: f"{int(bad.sum())} events outside the LUT support got a finite "
                      f"value, e.g. x={x_ref[bad][0]!r} deform={d_ref[bad][0]!r} "
                      f"-> {got[bad][0]!r} (normalised distance {sd[bad][0]:.3g})")
    edge = it["edge"]
    bad2 = inside & isn & ~edge
    rec.check(not bad2.any(), f"support/nan-inside-hull/{tag}",
              lambda: f"{int(bad2.sum())} events inside the LUT support are NaN, e.g. "
                      f"x={x_ref[bad2][0]!r} deform={d_ref[bad2][0]!r} "
                      f"(normalised distance {sd[bad2][0]:.3g})")
    bad3 = inside & isn & edge
    rec.check(not bad3.any(), SIG_EDGE,
              lambda: f"{int(bad3.sum())} events inside the LUT support that lie on a "
                      f"triangle edge/vertex (within rounding) are NaN, e.g. "
                      f"{cx.featx}={x_ref[bad3][0]!r} deform={d_ref[bad3][0]!r} "
                      f"cfg={cfg} lut={cx.kind} route={route}")
    if label == "main":
        cx.n_edge = int((inside & edge).sum())
    # ---- value
    cmpb = inside & it["loc"] & ~isn
    rec.skip("interp:oracle-could-not-locate", int((inside & ~it["loc"]).sum()))
    amb = cmpb & it["amb"]
    rec.skip("interp:ambiguous-diagonal-event", int(amb.sum()))
    cmpb &= ~it["amb"]
    ctol = CTOL * scale * it["cond"]
    tol = RTOL * scale * it["eabs"] + ctol
    with np.errstate(invalid="ignore"):
        dev = np.abs(got - exp)
    if CAL is not None and cmpb.any():
        with np.errstate(invalid="ignore", divide="ignore"):
            _cal("interp-rel:" + cx.kind, dev[cmpb] / (scale * it["eabs"])[cmpb])
            _cal("interp-tolratio:" + cx.kind, dev[cmpb] / tol[cmpb])
            _cal("interp-ctol-share:" + cx.kind, ctol[cmpb] / tol[cmpb])
    for cname, sel in (("near-hull", cmpb & (sd > -1e-3)),
                       ("interior", cmpb & (sd <= -1e-3))):
        badv = sel & ~(dev <= tol)
        rec.check(not badv.any(), f"interp/{tag}/{cname}",
                  lambda: f"{int(badv.sum())}/{int(sel.sum())} events deviate from the "
                          f"independent interpolation, e.g. x={x_ref[badv][0]!r} "
                          f"deform={d_ref[badv][0]!r}: got {got[badv][0]!r}, expected "
                          f"{exp[badv][0]!r} (tol {tol[badv][0]:.3g})")
    if label == "main":
        cx.stats = {"inside": int(inside.sum()), "outside": int(outside.sum()),
                    "near_in": int((inside & (sd > -1e-3)).sum()),
                    "near_out": int((outside & (sd < 1e-3)).sum()),
                    "cmp": int(cmpb.sum())}
        with np.errstate(invalid="ignore", divide="ignore"):
            rel = dev[cmpb] / tol[cmpb]
        cx.worst = float(rel.max()) if rel.size else 0.0
    return {"exp": exp, "sd": sd, "band": band, "ctol": ctol, "inside": inside,
            "outside": outside, "scale": scale, "cmp": cmpb, "edge": inside & edge}


def run_case(spec, rec):
    d = boot.casedir()
    try:
        _run(spec, rec, d)
    finally:
        boot.rmcase(d)


def _setup_lut(spec, rec, d, cx):
    lut = spec["lut"]
    how = lut["how"]
    cx.tuple_obj = None
    cx.lut_file = None
    if lut["kind"] == "builtin":
        name = lut["name"]
        cx.model = builtin_model(name)
        cx.featx = cx.model.featx
        cx.kind = "builtin"
        cx.lut_file = builtin_path(name)
        cx.ident = name
        if how == "ident":
            cx.lut_arg = name
        elif how == "path":
            cx.lut_arg = str(cx.lut_file)
        else:
            cx.tuple_obj = emod.load_lut(name)
            cx.lut_arg = cx.tuple_obj
    else:
        featx = lut["featx"]
        nodes = gen_user_nodes(featx, lut["n"], lut["seed"])
        path = d / "user_lut.txt"
        ident = "vf-user-lut"
        write_lut_text(path, nodes, featx, lut["cw"], lut["fr"], lut["visc"], ident)
        nodes2, meta, feats = parse_lut_text(path)
        cx.model = Model(nodes2, feats[0], meta["channel_width"], meta["flow_rate"],
                         meta["fluid_viscosity"])
        cx.featx = featx
        cx.kind = "user-area" if featx == "area_um" else "user-volume"
        cx.lut_file = path
        if how == "path":
            cx.lut_arg = str(path)
            cx.ident = None
        elif how == "pathlib":
            cx.lut_arg = pathlib.Path(path)
            cx.ident = None
        elif how == "ident":
            emod.register_lut(path)
            cx.lut_arg = cx.ident = ident
        elif how == "ident-explicit":
            emod.register_lut(path, identifier="vf-explicit-id")
            cx.lut_arg = cx.ident = "vf-explicit-id"
        else:
            m = dict(meta)
            m["column features"] = list(feats)
            m["column units"] = [UNITS[f] for f in feats]
            cx.tuple_obj = (nodes2.copy(), m)
            cx.lut_arg = cx.tuple_obj
            cx.ident = None
    cx.tag = cx.kind
    rec.cls(f"lut:{cx.kind}")
    rec.cls("how:" + {"pathlib": "path", "ident-explicit": "ident"}.get(how, how))


def _guards_before(cx):
    g = {"file": sha256(cx.lut_file), "reg": dict(eload.EXTERNAL_LUTS)}
    if cx.tuple_obj is not None:
        g["tarr"] = cx.tuple_obj[0].copy()
        g["tmeta"] = _copy.deepcopy(cx.tuple_obj[1])
    return g


def _guards_after(rec, cx, g):
    rec.check(sha256(cx.lut_file) == g["file"], f"immutable/lut-file/{cx.kind}",
              "the LUT file on disk was modified")
    rec.check(dict(eload.EXTERNAL_LUTS) == g["reg"], f"immutable/registry/{cx.kind}",
              "EXTERNAL_LUTS changed during get_emodulus calls")
    if cx.tuple_obj is not None:
        rec.check(eqnan(cx.tuple_obj[0], g["tarr"]), f"immutable/tuple-lut-array/{cx.kind}",
                  "the caller's LUT array (tuple hand-over) was modified")
        rec.check(cx.tuple_obj[1] == g["tmeta"], f"immutable/tuple-lut-meta/{cx.kind}",
                  "the caller's LUT metadata dict (tuple hand-over) was modified")


def _run(spec, rec, d):
    cx = Ctx()
    _setup_lut(spec, rec, d, cx)
    model = cx.model
    cfg = spec["cfg"]
    v = spec["visc"]
    route = v["route"]
    rec.cls(f"route:{route}")
    rec.cls("px:0" if not cfg["px"] else "px:>0")
    rec.cls("cw:=lut" if cfg["cw"] == model.cw else "cw:!=lut")
    p = xpow(cx.featx)

    # ---- query points in LUT coordinates -> caller's units
    ps = spec["pts"]
    if ps.get("explicit"):
        # fixed events in the caller's units (enumerated regression cases)
        ex = np.array(ps["explicit"], dtype=float).reshape(-1, 2)
        n = len(ex)
        x_user, d_user = ex[:, 0].copy(), ex[:, 1].copy()
        kind = np.zeros(n, dtype=int)
        node = np.full(n, -1, dtype=int)
        rec.cls("pts:explicit")
    else:
        n = int(ps["n"])
        xq, dq, kind, node = make_points(model, ps["seed"], n, ps["mix"])
        x_user = xq * (cfg["cw"] / model.cw) ** p
        x_user = np.where(x_user > 1e-3, x_user, 1e-3)
        d_user = dq + own_pxdelta(cx.featx, x_user, cfg["px"])
        d_user = np.clip(d_user, 0.0, 1.0)
    nf = np.flatnonzero(kind == KINDS.index("nonfinite"))
    for j, i in enumerate(nf):
        val = [np.nan, np.inf, -np.inf][j % 3]
        if j % 2:
            x_user[i] = val
        else:
            d_user[i] = val
    x_in, x_ref = _as_input(x_user, spec["dtype"])
    d_in, d_ref = _as_input(d_user, spec["dtype"])
    rec.cls(f"dtype:{spec['dtype']}")
    rec.cls("batch:1" if n == 1 else ("batch:2-60" if n <= 60 else "batch:>60"))

    vkw, eta_own, temps = visc_kwargs(v, route, n)
    # viscosity model against the documented formula (always: the model is
    # part of every case, also when the main call uses a numeric viscosity)
    fam = model_family(v["mkey"], v["model"])
    rec.cls(f"visc:{v['mkey']}/{fam}")
    t_chk = temps if route != "numeric" else _temps(
        v, min(n, 8), "array-temp" if v["tseed"] % 2 else "scalar-temp")
    eta_chk = own_viscosity(v["mkey"], v["model"], cfg["cw"], cfg["fr"], t_chk)
    with warnings.catch_warnings():
        warnings.simplefilter("ignore")
        eta_dc = emod.get_viscosity(medium=_medium_name(v), channel_width=cfg["cw"],
                                    flow_rate=cfg["fr"], temperature=t_chk,
                                    model=v["model"])
    if CAL is not None:
        _cal("viscosity-rel", np.abs(np.asarray(eta_dc) - eta_chk) / np.abs(eta_chk))
    rec.check(np.shape(eta_dc) == np.shape(eta_chk) and bool(np.all(
        np.abs(np.asarray(eta_dc) - eta_chk) <= 1e-11 * np.abs(eta_chk))),
        f"viscosity/{v['mkey']}/{fam}",
        lambda: f"get_viscosity({_medium_name(v)!r}, {cfg['cw']}, {cfg['fr']}, "
                f"T={np.ravel(t_chk)[:3]}, {v['model']!r}) = {np.ravel(eta_dc)[:3]}, "
                f"documented formula gives {np.ravel(eta_chk)[:3]}")
    if route != "numeric":
        eta_own = eta_chk

    g = cx.guards = _guards_before(cx)

    # ---- main call + oracle
    E0 = call(cx, rec, x_in, d_in, cfg, vkw)
    res = check_oracle(rec, cx, E0, x_ref, d_ref, cfg, eta_own, route)
    if res is None:
        return
    E0 = np.asarray(E0, dtype=float)
    cx.inband = res["band"]
    cx.edge = res["edge"]
    cx.sd = np.asarray(res["sd"], dtype=float)
    if cx.n_edge:
        rec.cls("pt:on-triangle-edge")
        rec.cls("events:on-triangle-edge", cx.n_edge)
    cx.ctol = np.where(np.isnan(res["ctol"]), 0.0, res["ctol"])
    stt = cx.stats
    if stt["inside"]:
        rec.cls("pt:interior")
    if stt["near_in"]:
        rec.cls("pt:near-hull-in")
    if stt["near_out"]:
        rec.cls("pt:near-hull-out")
    if stt["outside"]:
        rec.cls("pt:outside")
    if nf.size:
        rec.cls("pt:nonfinite")
    rec.cls("events", n)
    rec.cls("events:compared-to-interpolation", stt["cmp"])
    if stt["cmp"] or stt["near_in"] or stt["near_out"]:
        rec.nontrivial()

    # ---- nodes: exact scaled node value, independent of the triangulation
    if (node >= 0).any():
        rec.cls("pt:node")
    cand = (node >= 0) & res["inside"] & np.isfinite(x_ref) & np.isfinite(d_ref)
    if cand.any():
        # the unit conversion / pixelation round trip (and float32 input)
        # moves the point off the node; assert only where it is still at
        # the node to 1e-13 (normalised), the rest is left to the
        # interpolation oracle (counted)
        xq_f = x_ref * (model.cw / cfg["cw"]) ** p
        dq_f = d_ref - own_pxdelta(cx.featx, x_ref, cfg["px"])
        nn = np.where(node >= 0, node, 0)
        disp = np.hypot((xq_f - model.nodes[nn, 0]) / model.xmax,
                        (dq_f - model.nodes[nn, 1]) / model.dmax)
        isnode = cand & (disp <= 1e-13) & np.isfinite(model.n_grad[nn])
        rec.skip("node:moved-off-node-by-input-rounding", int((cand & ~isnode).sum()))
        if isnode.any():
            en = model.E[node[isnode]] * res["scale"][isnode]
            tol = RTOL * np.abs(en) \
                + CTOL * res["scale"][isnode] * model.n_grad[node[isnode]]
            gotn = E0[isnode]
            with np.errstate(invalid="ignore"):
                badn = ~(np.abs(gotn - en) <= tol)
            if CAL is not None:
                with np.errstate(invalid="ignore", divide="ignore"):
                    _cal("node-tolratio", np.abs(gotn - en) / tol)
                    _cal("node-rel", np.abs(gotn - en) / np.abs(en))
            rec.cls("events:at-node-asserted", int(isnode.sum()))
            rec.check(not badn.any(), f"node/{cx.tag}/{route}",
                      lambda: f"{int(badn.sum())} events placed at LUT nodes do not get "
                              f"the scaled node value, e.g. got {gotn[badn][0]!r}, node "
                              f"value {en[badn][0]!r}")

    # ---- metamorphic operations
    for op in spec["ops"]:
        _do_op(op, spec, rec, cx, cfg, v, route, x_in, d_in, x_ref, d_ref,
               temps, E0, d)

    # ---- state leak: the very same call again, after everything else
    E1 = call(cx, rec, x_in, d_in, cfg, vkw)
    rec.check(eqnan(E0, E1), f"repeat/{cx.tag}/{route}",
              lambda: "the same call repeated after other calls gives a different "
                      f"result ({int((~((E0 == E1) | (np.isnan(E0) & np.isnan(E1)))).sum())}"
                      " events differ)")
    _guards_after(rec, cx, g)


def _sub(obj, idx):
    """select events from a caller-side object"""
    if isinstance(obj, list):
        return [obj[i] for i in idx]
    if isinstance(obj, np.ndarray):
        return obj[idx].copy()
    return obj


def _do_op(op, spec, rec, cx, cfg, v, route, x_in, d_in, x_ref, d_ref, temps, E0, d):
    name = op["op"]
    n = len(x_ref)
    r = np.random.default_rng(int(op["seed"]) % (2 ** 32))
    model = cx.model
    p = xpow(cx.featx)
    tag = f"{cx.tag}/{route}"

    def vk(route_, temps_):
        return visc_kwargs(v, route_, n, temps=temps_)[0]

    if name == "split":
        rec.cls("op:split")
        idx = np.concatenate([r.permutation(n), r.integers(0, n, size=op["dup"])])
        k = min(op["k"], len(idx))
        cuts = np.sort(r.choice(np.arange(1, len(idx)), size=k - 1, replace=False)) \
            if k > 1 else np.array([], dtype=int)
        parts = np.split(idx, cuts)
        outs = []
        for part in parts:
            t_part = _sub(temps, part) if isinstance(temps, np.ndarray) else temps
            outs.append(call(cx, rec, _sub(x_in, part), _sub(d_in, part), cfg,
                             vk(route, t_part)).reshape(-1))
        got = np.concatenate(outs)
        compare_meta(rec, cx, got, E0[idx], f"batch/{tag}",
                     f"split into {len(parts)} calls after permutation/duplication",
                     idx=idx)
    elif name == "single":
        rec.cls("op:single")
        for i in r.integers(0, n, size=min(3, n)):
            i = int(i)
            t_i = float(temps[i]) if isinstance(temps, np.ndarray) else temps
            route_i = "scalar-temp" if route == "array-temp" else route
            got = call(cx, rec, float(x_ref[i]), float(d_ref[i]), cfg, vk(route_i, t_i))
            if not rec.check(np.shape(got) == (), f"scalar-call/shape/{cx.tag}",
                             f"scalar inputs give result of shape {np.shape(got)}"):
                continue
            compare_meta(rec, cx, np.array([float(got)]), E0[[i]], f"scalar-call/{tag}",
                         "event evaluated alone with python-float inputs", idx=[i])
    elif name == "routes":
        rec.cls("op:routes")
        # constant temperature: scalar == constant array == numeric viscosity
        lo, hi = TRANGE[model_family(v["mkey"], v["model"])]
        t0 = float(lo + v["tfrac"] * (hi - lo))
        with warnings.catch_warnings():
            warnings.simplefilter("ignore")
            eta = float(emod.get_viscosity(medium=_medium_name(v), channel_width=cfg["cw"],
                                           flow_rate=cfg["fr"], temperature=t0,
                                           model=v["model"]))
        e_s = call(cx, rec, x_in, d_in, cfg, vk("scalar-temp", t0))
        e_a = call(cx, rec, x_in, d_in, cfg, vk("array-temp", np.full(n, t0)))
        e_n = call(cx, rec, x_in, d_in, cfg,
                   dict(medium=eta, temperature=None, visc_model=None))
        compare_meta(rec, cx, e_a, e_s, f"routes/array-vs-scalar-temp/{cx.tag}",
                     "constant temperature array vs scalar temperature")
        compare_meta(rec, cx, e_n, e_s, f"routes/numeric-vs-scalar-temp/{cx.tag}",
                     "numeric viscosity (= model value) vs scalar temperature")
        # the array route must also be right in absolute terms
        check_oracle(rec, cx, e_a, x_ref, d_ref, cfg,
                     own_viscosity(v["mkey"], v["model"], cfg["cw"], cfg["fr"], t0),
                     "array-temp", label="routes")
    elif name == "lin":
        rec.cls("op:lin")
        k = float(op["k"])
        if op["what"] == "visc":
            e1 = call(cx, rec, x_in, d_in, cfg,
                      dict(medium=float(v["eta"]), temperature=None, visc_model=None))
            e2 = call(cx, rec, x_in, d_in, cfg,
                      dict(medium=float(v["eta"]) * k, temperature=None, visc_model=None))
        else:
            cfg2 = dict(cfg, fr=cfg["fr"] * k)
            e1 = call(cx, rec, x_in, d_in, cfg,
                      dict(medium=float(v["eta"]), temperature=None, visc_model=None))
            e2 = call(cx, rec, x_in, d_in, cfg2,
                      dict(medium=float(v["eta"]), temperature=None, visc_model=None))
        compare_meta(rec, cx, e2, k * e1, f"linear/{op['what']}/{cx.tag}",
                     f"E({op['what']} * {k}) vs {k} * E", scale_tol=max(k, 1.0) * 4)
    elif name == "rescale":
        rec.cls("op:rescale")
        s = float(op["s"])
        cfg2 = {"cw": cfg["cw"] * s, "fr": cfg["fr"] * s ** 3, "px": cfg["px"] * s}
        x2 = x_ref * s ** p
        e2 = call(cx, rec, np.array(x2), np.array(d_ref), cfg2, vk(route, temps))
        e1 = E0 if spec["dtype"] != "f4" else call(
            cx, rec, np.array(x_ref), np.array(d_ref), cfg, vk(route, temps))
        compare_meta(rec, cx, e2, e1, f"rescale/{tag}",
                     f"joint rescaling of the set-up by s={s}", scale_tol=8.0)
    elif name == "other":
        rec.cls("op:other")
        cfg2 = op["cfg"]
        if op["same_lut"]:
            call(cx, rec, x_in, d_in, cfg2,
                 dict(medium=float(op["eta"]), temperature=None, visc_model=None))
        else:
            other = "HE-3D-FEM-22" if spec["lut"].get("name") != "HE-3D-FEM-22" \
                else "LE-2D-FEM-19"
            m2 = builtin_model(other)
            xo = np.array(r.uniform(20, 300, size=min(n, 50)))
            do = np.array(r.uniform(0.0, 0.12, size=len(xo)))
            eo = call(cx, rec, xo, do, cfg2,
                      dict(medium=float(op["eta"]), temperature=None, visc_model=None),
                      lut_arg=other, featx="area_um")
            keep_tag, keep_featx, keep_model = cx.tag, cx.featx, cx.model
            cx.tag, cx.featx, cx.model = "builtin-interleaved", "area_um", m2
            try:
                check_oracle(rec, cx, eo, xo, do, cfg2, float(op["eta"]), "numeric",
                             label="other")
            finally:
                cx.tag, cx.featx, cx.model = keep_tag, keep_featx, keep_model
    elif name == "lutform":
        rec.cls("op:lutform")
        forms = {"path": str(cx.lut_file), "pathlib": pathlib.Path(cx.lut_file)}
        with warnings.catch_warnings():
            warnings.simplefilter("ignore")
            forms["tuple"] = emod.load_lut(str(cx.lut_file))
        if cx.ident is not None:
            forms["ident"] = cx.ident
        vkw = vk(route, temps)
        for fname in sorted(forms):
            e = call(cx, rec, x_in, d_in, cfg, vkw, lut_arg=forms[fname])
            rec.check(eqnan(e, E0), f"lutform/{fname}/{tag}",
                      lambda: f"the same LUT handed over as {fname} gives a different "
                              "result than as " + spec["lut"]["how"])
    elif name == "tuple32":
        # documented input form (array, meta) with a user dtype: a float32 array must
        # give (to float32 accuracy) what the same numbers give as float64
        rec.cls("op:tuple32")
        with warnings.catch_warnings():
            warnings.simplefilter("ignore")
            lut, meta_ = emod.load_lut(str(cx.lut_file))
        lut32 = np.array(lut, dtype=np.float32)
        lut64 = np.array(lut32, dtype=np.float64)
        keep32 = lut32.copy()
        vnum = dict(medium=float(v["eta"]), temperature=None, visc_model=None)
        e32 = call(cx, rec, x_in, d_in, cfg, vnum, lut_arg=(lut32, dict(meta_)))
        e64 = call(cx, rec, x_in, d_in, cfg, vnum, lut_arg=(lut64, dict(meta_)))
        rec.check(np.array_equal(lut32, keep32), f"immutable/tuple-lut-f4/{cx.tag}",
                  "the caller's float32 LUT array was modified")
        far = np.abs(cx.sd) > 1e-2           # away from the hull boundary
        both = far & np.isfinite(e32) & np.isfinite(e64)
        nanflip = far & (np.isnan(e32) != np.isnan(e64))
        rec.check(not nanflip.any(), f"tuple-f4/support/{cx.tag}",
                  lambda: f"{int(nanflip.sum())} of {int(far.sum())} events away from the "
                          f"hull are NaN with the float32 LUT but not with the same "
                          f"numbers as float64 (or vice versa)")
        with np.errstate(invalid="ignore"):
            dev = np.abs(e32 - e64) > 2e-3 * np.abs(e64)
        rec.check(not (both & dev).any(), f"tuple-f4/value/{cx.tag}",
                  lambda: f"float32 LUT deviates by more than 2e-3 relative for "
                          f"{int((both & dev).sum())} events")
    elif name == "lutrewrite":
        # A user LUT handed over as *path* is the file content at call time:
        # rewriting the file at the same path (other E values) must be seen by
        # the next call, restoring it must restore the results (no stale file cache).
        if not (cx.kind.startswith("user")
                and spec["lut"]["how"] in ("path", "pathlib")):
            rec.skip("op:lutrewrite-needs-user-lut-path")
            return
        rec.cls("op:lutrewrite")
        vnum = dict(medium=float(v["eta"]), temperature=None, visc_model=None)
        e_before = call(cx, rec, x_in, d_in, cfg, vnum)
        orig = pathlib.Path(cx.lut_file).read_bytes()
        nodes0, meta0, feats0 = parse_lut_text(cx.lut_file)
        nodes1 = nodes0.copy()
        nodes1[:, 2] *= 1.0 + (int(op["seed"]) % 7 + 1) / 4.0
        keep_model = cx.model
        try:
            write_lut_text(cx.lut_file, nodes1, feats0[0], meta0["channel_width"],
                           meta0["flow_rate"], meta0["fluid_viscosity"],
                           meta0["identifier"])
            nodes2, meta2, feats2 = parse_lut_text(cx.lut_file)
            cx.model = Model(nodes2, feats2[0], meta2["channel_width"],
                             meta2["flow_rate"], meta2["fluid_viscosity"])
            e_new = call(cx, rec, x_in, d_in, cfg, vnum)
            check_oracle(rec, cx, e_new, x_ref, d_ref, cfg, float(v["eta"]), "numeric",
                         label="lutrewrite")
        finally:
            cx.model = keep_model
            pathlib.Path(cx.lut_file).write_bytes(orig)
        e_back = call(cx, rec, x_in, d_in, cfg, vnum)
        rec.check(eqnan(e_back, e_before), f"lutrewrite/restored/{cx.tag}",
                  "after restoring the LUT file the results differ from those "
                  "before it was rewritten")
    elif name == "dataset":
        if cx.featx != "area_um":
            rec.skip("op:dataset-needs-area-lut")
            return
        rec.cls("op:dataset")
        ident = cx.ident
        if ident is None:
            ident = "vf-dataset-lut"
            if ident not in eload.EXTERNAL_LUTS:
                emod.register_lut(cx.lut_file, identifier=ident)
                cx.guards["reg"] = dict(eload.EXTERNAL_LUTS)   # harness's own act
        case = op["case"]
        with_temp = case in ("A", "C+temp")
        case = case[0]
        lo, hi = TRANGE[model_family(v["mkey"], v["model"])]
        feats = {"area_um": np.array(x_ref), "deform": np.array(d_ref)}
        if with_temp:
            t_arr = temps if isinstance(temps, np.ndarray) else \
                lo + r.random(n) * (hi - lo)
            feats["temp"] = np.array(t_arr)
        ds = dclab.new_dataset(feats)
        ds.config["setup"]["channel width"] = cfg["cw"]
        ds.config["setup"]["flow rate"] = cfg["fr"]
        ds.config["imaging"]["pixel size"] = cfg["px"]
        ds.config["calculation"]["emodulus lut"] = ident
        if case == "B":
            ds.config["calculation"]["emodulus viscosity"] = float(v["eta"])
            vkw = dict(medium=float(v["eta"]), temperature=None, visc_model=None)
            eta = float(v["eta"])
            rt = "numeric"
        else:
            ds.config["calculation"]["emodulus medium"] = _medium_name(v)
            ds.config["calculation"]["emodulus viscosity model"] = v["model"]
            if case == "C":
                t_c = float(lo + v["tfrac"] * (hi - lo))
                ds.config["calculation"]["emodulus temperature"] = t_c
                tt = t_c
                rt = "scalar-temp"
            else:
                tt = feats["temp"]
                rt = "array-temp"
            vkw = dict(medium=_medium_name(v), temperature=tt, visc_model=v["model"])
            eta = own_viscosity(v["mkey"], v["model"], cfg["cw"], cfg["fr"], tt)
        with warnings.catch_warnings():
            warnings.simplefilter("ignore")
            has = "emodulus" in ds
            if not rec.check(has, f"dataset/available/case-{case}",
                             f"'emodulus' not available for a case-{case} configuration"):
                return
            e_ds = np.asarray(ds["emodulus"], dtype=float)
        e_dir = call(cx, rec, np.array(x_ref), np.array(d_ref), cfg, vkw, lut_arg=ident)
        rec.check(eqnan(e_ds, e_dir), f"dataset/vs-direct/case-{case}/{cx.tag}",
                  lambda: f"ds['emodulus'] (case {case}) differs from get_emodulus with "
                          "the same parameters")
        check_oracle(rec, cx, e_ds, x_ref, d_ref, cfg, eta, rt, label="dataset")
        rec.check(eqnan(ds["area_um"], x_ref) and eqnan(ds["deform"], d_ref),
                  f"immutable/dataset-features/{cx.tag}",
                  "area_um/deform of the dataset changed by computing emodulus")
    elif name == "copyfalse":
        rec.cls("op:copyfalse")
        t2 = np.array(temps) if isinstance(temps, np.ndarray) else temps
        e = call(cx, rec, np.array(x_ref), np.array(d_ref), cfg, vk(route, t2),
                 guard=False, copy=False)
        e1 = E0 if spec["dtype"] != "f4" else None
        if e1 is None:
            e1 = call(cx, rec, np.array(x_ref), np.array(d_ref), cfg, vk(route, temps))
        compare_meta(rec, cx, e, e1, f"copy-false/{tag}",
                     "copy=False result vs copy=True result")
