"""C09 — split partitions, join concatenates (without loss or reordering).

Two case families, both driven through the CLI task functions
``dclab.cli.split`` / ``dclab.cli.join`` on files written with ``RTDCWriter``:

*split*   one measurement (scalar / image / mask / contour / trace features,
          stored index / index_online, logs) x split size (1, divisor,
          non-divisor, N, >N) x all-zero images at the measurement boundaries,
          at *part* boundaries and elsewhere x both skip settings; optionally
          followed by joining the parts in order (round trip) or in reversed
          order (all parts tie chronologically -> given order).
*join*    2..5 measurements with individual feature sets (base set minus
          per-input drops plus per-input extras; dropped features are often
          replaced by the features they can be computed from), acquisition
          date/time (integral / fractional seconds, uniform or mixed digit
          counts, minute and day carry-over, ties), run indices, file names
          whose alphabetical order is unrelated to the given order, logs.

Oracles (all computed from numpy slicing/concatenation of the inputs as read
back through dclab, exact rational timestamp arithmetic and a small
availability table of my own; nothing of task_join/task_split is re-used):
see `_check_split` and `_check_join`.
"""
import fractions
import zlib

import numpy as np
from hypothesis import strategies as st

from .. import boot
from ..common import meta, quiet, chunk_bytes, eqnan

import dclab
from dclab import RTDCWriter
from dclab import cli

ID = "C09"
RULE = ("Hypothesis-generated split cases (measurement x split size x zero-image "
        "positions x skip flags x optional re-join) and join cases (2..5 inputs x "
        "feature sets x timestamps x given order x file names); non-trivial = join "
        "with >=3 inputs given out of chronological order, or join where >=2 features "
        "of the earliest input are unavailable in some other input, or split with a "
        "size that does not divide N (and < N), or split with an all-zero image at a "
        "part boundary; distinct = sha1 of the canonical JSON spec")
BUDGET = {"quick": 960, "thorough": 12000}
ESSENTIAL = [
    "split", "split:size=1", "split:divisor", "split:nondivisor", "split:size=N",
    "split:size>N", "split:zero-first", "split:zero-last",
    "split:zero-interior-at-part-boundary", "split:noskip", "split:roundtrip",
    "split:roundtrip-reversed", "split:image", "split:contour", "split:trace",
    "join", "join:inputs>=3", "join:out-of-order>=3", "join:missing>=2",
    "join:missing-nonadjacent>=2", "join:computable", "join:tie", "join:tie-3",
    "join:fractional", "join:mixed-digits", "join:day-carry", "join:frame",
    "join:time", "join:index_online", "join:index-stored", "join:nonscalar",
]
ASSUMPTIONS = [
    "version shim: dclab._version pre-seeded with 0.62.7 so that files written by the "
    "untagged build can be re-opened",
    "reading a feature of an *input* file through dclab (stored or ancillary) is the "
    "reference for the values join/split have to reproduce (C01/C06 cover that path)",
    "all inputs of one join share frame rate, image shape and trace names (inputs of one "
    "measurement run, as the CLI help demands); the process time zone has no DST "
    "transition on 2021-03-04..06",
    "a part that the documented boundary-image skipping leaves without events may be "
    "omitted from the output or be a file without events (not opened, counted)",
    "equal time stamps with different run index: ascending run index or given order are "
    "both accepted",
]

# ------------------------------------------------------------------ feature pool
F_FLOAT = ["area_cvx", "area_msd", "area_ratio", "area_um", "aspect", "bright_avg",
           "circ", "deform", "pos_x", "size_x", "size_y", "userdef1"]
F_INT = ["fl1_max", "nevents"]
F_SPECIAL = ["frame", "time", "index", "index_online"]
F_NONSC = ["image", "mask", "contour", "trace"]
MARK = "userdef0"
POOL = sorted(F_FLOAT + F_INT + F_SPECIAL + F_NONSC + [MARK])
#: my own transcription of the ancillary features that can yield a pool feature
COMPUTABLE = {
    "time": ["frame"], "index": [], "area_ratio": ["area_cvx", "area_msd"],
    "area_um": ["area_cvx"], "aspect": ["size_x", "size_y"], "deform": ["circ"],
    "contour": ["mask"], "bright_avg": ["image", "mask"],
}
TRACE_POOL = ["fl1_raw", "fl2_median", "fl3_raw"]
SHAPES = [[6, 8], [5, 7], [8, 6]]
NAMES = ["m_a", "m_b", "m_c", "m_d", "m_e"]
#: tolerance for `time` of a joined file: the offsets are differences of
#: time.mktime() values (~1.6e9 s, ulp 2.4e-7 s, worst case 2 ulp = 4.8e-7 s);
#: measured max deviation 1.1e-7 s over 150 join cases -> 1e-4 s (900x measured,
#: 200x worst case; one frame at 3600 Hz is 2.8e-4 s)
TIME_ATOL = 1e-4
#: calibration: largest |time - expected| seen in this process
STATS = {"time_dev": 0.0}

LINE = st.text(alphabet=st.characters(blacklist_categories=("Cs", "Cc")), max_size=30)
LONG = st.builds(lambda c, k: c * k, st.sampled_from(["x", "ü", "a b"]),
                 st.integers(95, 130))
ST_LOGS = st.dictionaries(st.sampled_from(["acq", "notes", "ü-log"]),
                          st.lists(st.one_of(LINE, LINE, LINE, LONG), min_size=1,
                                   max_size=4), max_size=2)


def available(stored):
    av = set(stored) | {"index"}
    changed = True
    while changed:
        changed = False
        for f, req in COMPUTABLE.items():
            if f not in av and all(r in av for r in req):
                av.add(f)
                changed = True
    return av


# ------------------------------------------------------------------ strategies

@st.composite
def st_featset(draw, lo=1, hi=7):
    fs = set(draw(st.lists(st.sampled_from(F_FLOAT + F_INT), min_size=lo, max_size=hi,
                           unique=True)))
    for f in F_SPECIAL:
        if draw(st.integers(0, 9)) < 5:
            fs.add(f)
    for f in F_NONSC:
        if draw(st.integers(0, 9)) < 3:
            fs.add(f)
    return fs


def split_windows(n, size, keep):
    """expected event indices of the parts (model of the documented behaviour)"""
    nparts = -(-n // size)
    return [np.array([j for j in range(ii * size, min(n, (ii + 1) * size)) if keep[j]],
                     dtype=int) for ii in range(nparts)]


def split_keep(n, zeros, czero0, ini, fin):
    """events that survive the documented skipping of empty boundary images: the first
    event of the *measurement* if its image (or contour) is all-zero, the last event of
    the measurement if its image is all-zero"""
    keep = np.ones(n, dtype=bool)
    if ini and ((0 in zeros) or czero0):
        keep[0] = False
    if fin and (n - 1 in zeros):
        keep[n - 1] = False
    return keep


@st.composite
def st_split(draw):
    kind = draw(st.sampled_from(["one", "div", "div", "nondiv", "nondiv", "nondiv", "N",
                                 ">N", "rem1"]))
    if kind == "div":
        size = draw(st.integers(2, 10))
        n = size * draw(st.integers(2, 4))
    elif kind in ("nondiv", "rem1"):
        size = draw(st.integers(2, 11))
        rem = 1 if kind == "rem1" else draw(st.integers(1, size - 1))
        n = size * draw(st.integers(1, 3)) + rem
    else:
        n = draw(st.one_of(st.sampled_from([1, 2, 3, 9, 10, 11, 12, 19, 20, 21]),
                           st.integers(1, 36)))
        size = {"one": 1, "N": n}.get(kind) or n + draw(st.integers(1, 5))
    fs = draw(st_featset(0, 4))
    for f, p in (("image", 7), ("mask", 2), ("contour", 3), ("trace", 2)):
        fs.discard(f)
        if draw(st.integers(0, 9)) < p:
            fs.add(f)
    # positions of all-zero images
    zk = draw(st.lists(st.sampled_from(["first", "last", "pb-first", "pb-last",
                                        "pb-first", "pb-last", "rnd"]), max_size=4))
    zeros = set()
    nparts = -(-n // size)
    for k in zk:
        if k == "first":
            zeros.add(0)
        elif k == "last":
            zeros.add(n - 1)
        elif k == "pb-first":
            zeros.add(min(n - 1, size * draw(st.integers(0, nparts - 1))))
        elif k == "pb-last":
            zeros.add(min(n - 1, size * draw(st.integers(1, nparts)) - 1))
        else:
            zeros.add(draw(st.integers(0, n - 1)))
    if "image" not in fs:
        zeros = set()
    czero0 = "contour" in fs and draw(st.integers(0, 9)) == 0
    ini = draw(st.integers(0, 9)) < 8
    fin = draw(st.integers(0, 9)) < 8
    keep = split_keep(n, zeros, czero0, ini, fin)
    if any(len(w) == 0 for w in split_windows(n, size, keep)) \
            and draw(st.integers(0, 9)) < 5:
        # a part without events: keep this class at a moderate size
        zeros -= {0, n - 1}
        czero0 = False
    rt = draw(st.sampled_from(["none", "inorder", "inorder", "reversed", "reversed"]))
    return {
        "mode": "split", "chunk": draw(st.sampled_from([None, 100, 100])),
        "n": n, "feats": sorted(fs), "size": size, "zeros": sorted(zeros),
        "czero0": czero0, "skip_initial": ini, "skip_final": fin,
        "rt": rt, "stem": draw(st.sampled_from(["meas", "M_2021", "a.b"])),
        "shape": draw(st.sampled_from(SHAPES)),
        "traces": draw(st.lists(st.sampled_from(TRACE_POOL), min_size=1, max_size=2,
                                unique=True)),
        "seed": draw(st.integers(0, 2**16)), "io0": draw(st.sampled_from([0, 0, 1, 7])),
        "time": draw(st.sampled_from(["12:00:00", "09:08:07.5", "23:59:59.25"])),
        "fr": draw(st.sampled_from([2000.0, 3600.5])),
        "logs": draw(ST_LOGS),
    }


def _fmt_time(sec_of_day, frac_digits, frac_num):
    """frac = frac_num / 10**frac_digits (frac_digits == 0: integral seconds)"""
    h, rem = divmod(sec_of_day, 3600)
    m, s = divmod(rem, 60)
    t = f"{h:02d}:{m:02d}:{s:02d}"
    if frac_digits:
        t += "." + str(frac_num).zfill(frac_digits)
    return t


@st.composite
def st_join(draw):
    k = draw(st.sampled_from([2, 2, 3, 3, 3, 4, 5]))
    base = draw(st_featset(1, 6))
    tfmt = draw(st.sampled_from(["int", "int", "uniform", "uniform", "uniform", "mixed",
                                 "mixed"]))
    ptie = draw(st.sampled_from([0, 0, 2, 5, 9]))
    udig = draw(st.integers(1, 4))
    anchor = draw(st.sampled_from(["noon", "noon", "minute", "midnight"]))
    miss_kind = draw(st.sampled_from(["none", "none", "one", "spread", "spread", "any",
                                      "computable", "computable"]))
    names = draw(st.permutations(NAMES))
    base_sorted = sorted(base)
    inputs = []
    for i in range(k):
        # --- time stamp
        ds = draw(st.sampled_from([0, 0, 1, 1, 2, 3, 5]))
        day = 0
        if anchor == "noon":
            sod = 43200 + ds
        elif anchor == "minute":
            sod = draw(st.sampled_from([43199 - ds, 43200 + ds]))
        else:
            if draw(st.booleans()):
                sod, day = 86399 - ds, 0
            else:
                sod, day = ds, 1
        if tfmt == "int":
            dig, num = 0, 0
        else:
            dig = udig if tfmt == "uniform" else draw(st.integers(0, 3))
            if dig:
                q = draw(st.sampled_from([0, 1, 2, 2, 3]))    # quarters
                num = draw(st.sampled_from(
                    [q * 25 * 10**dig // 100, q * 25 * 10**dig // 100,
                     draw(st.integers(0, 10**dig - 1))]))
            else:
                num = 0
        if inputs and draw(st.integers(0, 9)) < ptie:
            prev = inputs[draw(st.integers(0, len(inputs) - 1))]
            day, sod, dig, num = prev["day"], prev["sod"], prev["dig"], prev["num"]
        # --- features
        drops, extras = set(), set()
        if miss_kind == "one":
            if draw(st.integers(0, 9)) < 5:
                drops = {draw(st.sampled_from(base_sorted))}
        elif miss_kind == "spread":
            # every other feature of the sorted base list at most
            cand = base_sorted[draw(st.integers(0, 1))::2]
            drops = set(draw(st.lists(st.sampled_from(cand), max_size=3, unique=True))) \
                if cand else set()
        elif miss_kind in ("any", "computable"):
            drops = set(draw(st.lists(st.sampled_from(base_sorted), max_size=3,
                                      unique=True)))
        if miss_kind == "computable":
            for f in sorted(drops):
                if f in COMPUTABLE and draw(st.integers(0, 9)) < 8:
                    extras.update(COMPUTABLE[f])
            if not drops:
                cf = [f for f in base_sorted if COMPUTABLE.get(f)]
                if cf:
                    f = draw(st.sampled_from(cf))
                    drops.add(f)
                    extras.update(COMPUTABLE[f])
        if draw(st.integers(0, 9)) < 2:
            extras.update(draw(st.lists(st.sampled_from(F_FLOAT + F_INT), max_size=2)))
        feats = (set(base) - drops) | extras
        inputs.append({
            "n": draw(st.one_of(st.sampled_from([1, 2, 9, 10, 11]), st.integers(1, 24))),
            "day": day, "sod": sod, "dig": dig, "num": num,
            "ri": draw(st.sampled_from([1, 1, 1, 2, 3, 10])),
            "name": names[i], "feats": sorted(feats),
            "seed": draw(st.integers(0, 2**16)),
            "io0": draw(st.sampled_from([0, 0, 1, 5])),
            "f0": draw(st.sampled_from([0, 1, 100])),
            "logs": draw(ST_LOGS),
            # number of stored features that the input provides through a file
            # basin only (a thin file next to its upstream file)
            "thin": draw(st.sampled_from([0, 0, 0, 0, 1, 2, 9])),
        })
    return {
        "mode": "join", "chunk": draw(st.sampled_from([None, None, 100])),
        "inputs": inputs, "fr": draw(st.sampled_from([2000.0, 2000.0, 1000.0, 3600.5])),
        "shape": draw(st.sampled_from(SHAPES)),
        "traces": draw(st.lists(st.sampled_from(TRACE_POOL), min_size=1, max_size=2,
                                unique=True)),
    }


def strategy(tier):
    return st.one_of(st_split(), st_join(), st_join())


def sample_view(spec):
    s = dict(spec)
    if "inputs" in s:
        s["inputs"] = [{k: v for k, v in i.items() if k not in ("logs", "seed")}
                       for i in s["inputs"]]
    s.pop("logs", None)
    return s


# ------------------------------------------------------------------ file writer

def _rng(seed, name):
    return np.random.default_rng([int(seed), zlib.crc32(name.encode())])


def _feature_data(name, n, seed, *, fid=0, shape=(6, 8), traces=("fl1_raw",), fr=2000.0,
                  io0=0, f0=0, zeros=(), czero0=False):
    r = _rng(seed, name)
    if name == MARK:
        return fid * 1000.0 + np.arange(n)
    if name in F_FLOAT:
        a = np.round(r.normal(size=n) * 10, 3)
        if name == "circ":
            a = np.round(r.random(n), 4)
        if name in ("size_y", "area_msd"):
            a = np.abs(a) + 1.0
        a[r.random(n) < 0.1] = np.nan
        return a
    if name in F_INT:
        return r.integers(0, 1000, size=n)
    if name == "frame":
        return (f0 + np.cumsum(r.integers(1, 30, size=n))).astype(np.uint64)
    if name == "time":
        return np.round(np.cumsum(r.random(n)) * 0.01, 6)
    if name == "index":
        return np.arange(1, n + 1)
    if name == "index_online":
        return io0 + np.cumsum(r.integers(1, 4, size=n)) - 1
    if name == "image":
        im = r.integers(1, 255, size=(n,) + tuple(shape), dtype=np.uint8)
        for z in zeros:
            im[z] = 0
        return im
    if name == "mask":
        m = np.zeros((n,) + tuple(shape), dtype=bool)
        for j in range(n):
            y0 = int(r.integers(1, shape[0] - 3))
            x0 = int(r.integers(1, shape[1] - 3))
            m[j, y0:y0 + 2 + int(r.integers(0, 2)), x0:x0 + 2 + int(r.integers(0, 2))] = True
        return m
    if name == "contour":
        cc = [r.integers(1, 6, size=(int(r.integers(3, 9)), 2)) for _ in range(n)]
        if czero0:
            cc[0] = np.zeros((4, 2), dtype=cc[0].dtype)
        return cc
    if name == "trace":
        return {t: _rng(seed, "trace" + t).integers(-50, 2000, size=(n, 7)).astype(np.int16)
                for t in traces}
    raise ValueError(name)


def _write(path, n, feats, m, logs, **kw):
    with RTDCWriter(path, mode="reset") as hw:
        hw.store_metadata(m)
        for f in sorted(feats):
            hw.store_feature(f, _feature_data(f, n, **kw))
        for name in sorted(logs):
            hw.store_log(name, logs[name])


def _read(ds, feat, idx=None):
    """feature data as plain python/numpy objects (optionally for event indices)"""
    if feat == "contour":
        cc = ds["contour"]
        ii = range(len(ds)) if idx is None else idx
        return [np.array(cc[int(j)]) for j in ii]
    if feat == "trace":
        tr = ds["trace"]
        return {k: (np.array(tr[k][:]) if idx is None else np.array(tr[k][:])[idx])
                for k in sorted(tr.keys())}
    a = np.array(ds[feat][:])
    return a if idx is None else a[idx]


def _logs(ds):
    return {k: list(ds.logs[k]) for k in ds.logs}


def _cat(feat, blocks):
    if feat == "contour":
        return [c for b in blocks for c in b]
    if feat == "trace":
        keys = sorted(blocks[0])
        return {k: np.concatenate([b[k] for b in blocks]) for k in keys}
    return np.concatenate(blocks)


def _same(feat, a, b):
    if feat == "contour":
        return len(a) == len(b) and all(eqnan(x, y) for x, y in zip(a, b))
    if feat == "trace":
        return sorted(a) == sorted(b) and all(eqnan(a[k], b[k]) for k in a)
    return eqnan(a, b)


def _brief(feat, a):
    if feat in ("contour", "trace", "image", "mask"):
        return f"<{feat}>"
    return np.asarray(a)[:14].tolist()


def fclass(feat):
    if feat in F_NONSC:
        return feat
    if feat in F_SPECIAL:
        return feat
    return "scalar"


# ------------------------------------------------------------------ interpreter

def run_case(spec, rec):
    d = boot.casedir()
    try:
        with chunk_bytes(spec["chunk"]), quiet():
            if spec["mode"] == "split":
                _run_split(spec, rec, d)
            else:
                _run_join(spec, rec, d)
    finally:
        boot.rmcase(d)


# ---------------------------------------------------------------- split

def _run_split(spec, rec, d):
    n, size = spec["n"], spec["size"]
    feats = set(spec["feats"]) | {MARK}
    zeros = [z for z in spec["zeros"] if z < n] if "image" in feats else []
    czero0 = bool(spec["czero0"]) and "contour" in feats
    src = d / f"{spec['stem']}.rtdc"
    m = meta(experiment={"time": spec["time"], "sample": "probe"},
             imaging={"frame rate": spec["fr"]})
    _write(src, n, feats, m, spec["logs"], seed=spec["seed"], fid=1,
           shape=spec["shape"], traces=spec["traces"], fr=spec["fr"], io0=spec["io0"],
           zeros=zeros, czero0=czero0)
    rec.cls("split")
    for f in sorted(feats & set(F_NONSC)):
        rec.cls(f"split:{f}")
    # ---- model: which events may be dropped (documented boundary skipping)
    ini, fin = spec["skip_initial"], spec["skip_final"]
    keep = split_keep(n, zeros, czero0, ini, fin)
    nparts = -(-n // size)
    exp_idx = split_windows(n, size, keep)
    emptied = any(len(ix) == 0 for ix in exp_idx)
    # ---- classes
    if size == 1:
        rec.cls("split:size=1")
    elif size > n:
        rec.cls("split:size>N")
    elif size == n:
        rec.cls("split:size=N")
    elif n % size == 0:
        rec.cls("split:divisor")
    else:
        rec.cls("split:nondivisor")
    pb = [z for z in zeros if 0 < z < n - 1 and (z % size == 0 or z % size == size - 1)]
    if 0 in zeros:
        rec.cls("split:zero-first")
    if n - 1 in zeros:
        rec.cls("split:zero-last")
    if pb:
        rec.cls("split:zero-interior-at-part-boundary")
    if czero0:
        rec.cls("split:zero-contour-first")
    if not (ini and fin):
        rec.cls("split:noskip")
    if (1 < size < n and n % size) or pb:
        rec.nontrivial()
    tag = "boundary-zero" if (not keep.all()) else ("interior-zero" if zeros else "plain")

    if emptied:
        rec.cls("split:part-emptied")
    outdir = d / "parts"
    try:
        paths = cli.split(path_in=src, path_out=outdir, split_events=size,
                          skip_initial_empty_image=ini, skip_final_empty_image=fin,
                          ret_out_paths=True)
    except ValueError as e:
        if emptied:
            rec.fail("split/exception/part-emptied-by-boundary-skip",
                     f"dclab-split raises {e!r}: N={n}, split_events={size}, the only "
                     f"event of a part is a skipped empty boundary image")
            return
        raise
    # a part that the documented skipping leaves without events may be omitted
    nonempty = [ix for ix in exp_idx if len(ix)]
    if len(paths) == nparts:
        pairs = list(zip(paths, exp_idx))
    elif len(paths) == len(nonempty):
        pairs = list(zip(paths, nonempty))
    else:
        rec.fail(f"split/count/{tag}",
                 f"{len(paths)} parts for N={n}, split_events={size}, expected {nparts}"
                 + (f" (or {len(nonempty)} without the emptied part)" if emptied else ""))
        return
    rec.checks += 1
    with dclab.new_dataset(src) as ds:
        innate = sorted(f for f in ds.features_innate)
        ref = {f: _read(ds, f) for f in innate}
        src_logs = _logs(ds)
        src_exp = dict(ds.config["experiment"])
    rec.check(set(innate) == feats, "harness/innate-features",
              lambda: f"source innate {innate} != written {sorted(feats)}")
    total = 0
    for ii, (pp, ix) in enumerate(pairs):
        if len(ix) == 0:
            rec.skip("split:empty-part-not-opened")
            continue
        with dclab.new_dataset(pp) as dp:
            total += len(dp)
            rec.check(len(dp) <= size, f"split/max-size/{tag}",
                      lambda: f"part {ii + 1} holds {len(dp)} > {size} events")
            ok = rec.check(len(dp) == len(ix), f"split/part-length/{tag}",
                           lambda: f"part {ii + 1}/{nparts} of N={n}, split_events={size}, "
                                   f"zero images at {zeros}: {len(dp)} events, expected "
                                   f"events {ix.tolist()}")
            pin = set(dp.features_innate)
            rec.check(set(innate) <= pin, f"split/features/{tag}",
                      lambda: f"part {ii + 1} lacks {sorted(set(innate) - pin)}")
            if ok:
                for f in innate:
                    if f not in pin:
                        continue
                    got = _read(dp, f)
                    if f == "index":
                        exp = np.arange(1, len(ix) + 1)
                        sig = f"split/index/{tag}"
                    else:
                        exp = _read_sel(ref[f], f, ix)
                        sig = f"split/values/{fclass(f)}/{tag}"
                    rec.check(_same(f, got, exp), sig,
                              lambda: f"part {ii + 1} feature {f}: got {_brief(f, got)}, "
                                      f"expected source events {ix.tolist()} = "
                                      f"{_brief(f, exp)}")
            plogs = _logs(dp)
            for name, lines in src_logs.items():
                got = plogs.get(f"src_{name}")
                rec.check(got is not None and list(got) == lines, "split/logs",
                          lambda: f"log {name!r} of the source not retained in part "
                                  f"{ii + 1}: {got!r} != {lines!r}")
            pe = dp.config["experiment"]
            rec.check(all(pe.get(k) == src_exp.get(k) for k in ("date", "time", "run index")),
                      "split/metadata/acquisition",
                      lambda: f"part {ii + 1}: {dict(pe)} vs source {src_exp}")
            rec.check(pe.get("event count") == len(dp), "split/metadata/event-count",
                      lambda: f"event count {pe.get('event count')} != {len(dp)}")
    rec.check(total == int(keep.sum()), f"split/total/{tag}",
              lambda: f"parts hold {total} events, source {n}, documented skips "
                      f"{int((~keep).sum())}")
    # ---- round trip
    rt = spec["rt"]
    good = [pp for pp, ix in pairs if len(ix)]
    gidx = [ix for pp, ix in pairs if len(ix)]
    if rt == "none" or len(good) < 2:
        return
    if rt == "reversed":
        good, gidx = good[::-1], gidx[::-1]
        rec.cls("split:roundtrip-reversed")
    else:
        rec.cls("split:roundtrip")
    out = d / "rejoined.rtdc"
    cli.join(paths_in=[str(p) for p in good], path_out=str(out))
    order = np.concatenate(gidx)
    with dclab.new_dataset(out) as dj:
        jin = set(dj.features_innate)
        rec.check(set(innate) <= jin, f"roundtrip/features/{rt}",
                  lambda: f"join(split(x)) lacks {sorted(set(innate) - jin)}")
        if not rec.check(len(dj) == len(order), f"roundtrip/length/{rt}",
                         lambda: f"join(split(x)) has {len(dj)} events, expected "
                                 f"{len(order)}"):
            return
        for f in innate:
            if f not in jin:
                continue
            if f == "index_online":
                rec.skip("roundtrip:index_online-continued-by-design")
                got = np.array(dj[f][:])
                rec.check(bool(np.all(np.diff(got.astype(np.int64)) > 0)),
                          f"roundtrip/index_online-increasing/{rt}",
                          lambda: f"index_online of the re-joined file: {got.tolist()}")
                continue
            got = _read(dj, f)
            exp = (np.arange(1, len(order) + 1) if f == "index"
                   else _read_sel(ref[f], f, order))
            rec.check(_same(f, got, exp), f"roundtrip/values/{fclass(f)}/{rt}/{tag}",
                      lambda: f"join(split(x)) [{rt}] feature {f}: got {_brief(f, got)}, "
                              f"expected {_brief(f, exp)} (N={n}, split_events={size})")


def _read_sel(ref, feat, ix):
    if feat == "contour":
        return [ref[int(j)] for j in ix]
    if feat == "trace":
        return {k: v[ix] for k, v in ref.items()}
    return ref[ix]


# ---------------------------------------------------------------- join

def _stamp(inp):
    """exact acquisition time in seconds (Fraction) relative to 2021-03-04 00:00"""
    fr = fractions.Fraction(inp["num"], 10 ** inp["dig"]) if inp["dig"] else 0
    return inp["day"] * 86400 + inp["sod"] + fr


def _run_join(spec, rec, d):
    inputs = spec["inputs"]
    k = len(inputs)
    fr = spec["fr"]
    paths, info, upstream = [], [], {}
    for i, inp in enumerate(inputs):
        date = f"2021-03-{4 + inp['day']:02d}"
        tstr = _fmt_time(inp["sod"], inp["dig"], inp["num"])
        feats = set(inp["feats"]) | {MARK}
        p = d / f"{inp['name']}.rtdc"
        m = meta(experiment={"date": date, "time": tstr, "run index": inp["ri"],
                             "sample": f"sample-{i}"},
                 imaging={"frame rate": fr})
        kw = dict(seed=inp["seed"], fid=i + 1, shape=spec["shape"],
                  traces=spec["traces"], fr=fr, io0=inp["io0"], f0=inp["f0"])
        moved = [f for f in sorted(feats) if f != MARK][:inp.get("thin", 0)]
        if moved:
            # the same measurement as a thin file: `moved` features are only
            # available through the file basin (identical generator => same data)
            up = d / f"upstream_{inp['name']}.rtdc"
            _write(up, inp["n"], feats, m, {}, **kw)
            _write(p, inp["n"], feats - set(moved), m, inp["logs"], **kw)
            with RTDCWriter(p, mode="append") as hw:
                hw.store_basin(basin_name="upstream", basin_type="file",
                               basin_format="hdf5", basin_locs=[str(up)],
                               basin_feats=moved, verify=False)
            upstream[i] = up
            rec.cls("join:basin-backed-input")
            if i > 0:
                rec.cls("join:basin-backed-later-input")
        else:
            _write(p, inp["n"], feats, m, inp["logs"], **kw)
        paths.append(p)
        # "feats": stored in the input file itself (dclab-join starts from the stored
        # features of the earliest input); "avail": also via basin or computation
        info.append({"date": date, "time": tstr, "T": _stamp(inp), "ri": inp["ri"],
                     "feats": feats - set(moved), "avail": available(feats),
                     "key": "_".join([date, tstr, str(inp["ri"])])})
    rec.cls("join")
    # ---- expected orders
    idx = list(range(k))
    e1 = sorted(idx, key=lambda i: info[i]["T"])                        # stable
    e2 = sorted(idx, key=lambda i: (info[i]["T"], info[i]["ri"]))
    lex = sorted(idx, key=lambda i: info[i]["key"])
    lexdiff = lex not in (e1, e2)
    ordtag = "lexicographic-differs" if lexdiff else "plain"
    # ---- classes
    if k >= 3:
        rec.cls("join:inputs>=3")
    inversions = sum(1 for a in range(k) for b in range(a + 1, k)
                     if info[a]["T"] > info[b]["T"])
    if k >= 3 and inversions >= 1 and e1 != idx:
        rec.cls("join:out-of-order>=3")
        rec.nontrivial()
    ts = [info[i]["T"] for i in idx]
    ntie = max(ts.count(t) for t in ts)
    if ntie >= 2:
        rec.cls("join:tie")
    if ntie >= 3:
        rec.cls("join:tie-3")
    if any(inp["dig"] for inp in inputs):
        rec.cls("join:fractional")
    if len({inp["dig"] for inp in inputs}) > 1:
        rec.cls("join:mixed-digits")
    if len({inp["day"] for inp in inputs}) > 1:
        rec.cls("join:day-carry")
    if lexdiff:
        rec.cls("join:lexicographic-differs")
    # feature classes w.r.t. the earliest input (first of e1)
    first = info[e1[0]]
    cur = sorted(first["feats"])
    nmiss_max, adjacent, nonadj2 = 0, False, False
    computable = False
    for i in e1[1:]:
        miss = [f for f in cur if f not in info[i]["avail"]]
        pos = [cur.index(f) for f in miss]
        adj = any(b - a == 1 for a, b in zip(pos, pos[1:]))
        adjacent |= adj
        nonadj2 |= (len(miss) >= 2 and not adj)
        nmiss_max = max(nmiss_max, len(miss))
        computable |= any(f in info[i]["avail"] and f not in info[i]["feats"]
                          and f != "index" for f in cur)
        cur = [f for f in cur if f not in miss]
    # the same scan for the alternative accepted order
    adjacent2 = False
    cur2 = sorted(info[e2[0]]["feats"])
    for i in e2[1:]:
        miss = [f for f in cur2 if f not in info[i]["avail"]]
        pos = [cur2.index(f) for f in miss]
        adjacent2 |= any(b - a == 1 for a, b in zip(pos, pos[1:]))
        cur2 = [f for f in cur2 if f not in miss]
    adjacent_any = adjacent or adjacent2 or lexdiff and _adjacent_in(info, lex)
    if nmiss_max >= 2:
        rec.cls("join:missing>=2")
        rec.nontrivial()
    if nonadj2:
        rec.cls("join:missing-nonadjacent>=2")
    if adjacent:
        rec.cls("join:missing-adjacent")
    if computable:
        rec.cls("join:computable")
    for f in ("frame", "time", "index_online"):
        if f in cur:
            rec.cls(f"join:{f}")
    if "index" in cur and all("index" in info[i]["feats"] for i in idx):
        rec.cls("join:index-stored")
    if set(cur) & set(F_NONSC):
        rec.cls("join:nonscalar")

    out = d / "joined.rtdc"
    try:
        cli.join(paths_in=[str(p) for p in paths], path_out=str(out))
    except KeyError as e:
        if adjacent_any:
            rec.fail("join/features/adjacent-missing",
                     f"dclab-join raises {e!r}: two features adjacent in the sorted "
                     f"feature list of the earliest input are both unavailable in a "
                     f"later input: " + "; ".join(str(sorted(info[i]['feats']))
                                                  for i in e1))
            return
        raise
    except OverflowError as e:
        if lexdiff:
            rec.fail("join/order/lexicographic-differs",
                     f"dclab-join raises {e!r}: inputs sorted by the text of their "
                     f"time stamps {[info[i]['key'] for i in lex]} (negative frame offset)")
            return
        raise
    # ---- read inputs (reference) and output
    ref = []
    for i, p in enumerate(paths):
        with dclab.new_dataset(p) as di, \
                dclab.new_dataset(upstream.get(i, p)) as dd:
            # data reference of a thin input: its self-contained upstream file
            ref.append({"ds_innate": set(di.features_innate),
                        "logs": _logs(di),
                        "data": {f: _read(dd, f) for f in sorted(info[i]["avail"])
                                 if f in POOL}})
    with dclab.new_dataset(out) as dj:
        _check_join(spec, rec, dj, info, ref, e1, e2, ordtag)


def _adjacent_in(info, order):
    cur = sorted(info[order[0]]["feats"])
    adj = False
    for i in order[1:]:
        miss = [f for f in cur if f not in info[i]["avail"]]
        pos = [cur.index(f) for f in miss]
        adj |= any(b - a == 1 for a, b in zip(pos, pos[1:]))
        cur = [f for f in cur if f not in miss]
    return adj


def _check_join(spec, rec, dj, info, ref, e1, e2, ordtag):
    k = len(info)
    ns = [len(ref[i]["data"][MARK]) for i in range(k)]
    ntot = sum(ns)
    jin = set(dj.features_innate)
    if not rec.check(MARK in jin, "join/features/common-feature-lost",
                     f"{MARK} is stored in every input but not in the output {sorted(jin)}"):
        return
    mark = np.array(dj[MARK][:])
    rec.check(len(dj) == ntot, f"join/length/{ordtag}",
              lambda: f"joined file has {len(dj)} events, inputs {ns}")
    # ---- decode the order of the sources from the marker feature
    fids = (mark // 1000).astype(int)
    blocks = []
    for v in fids.tolist():
        if not blocks or blocks[-1] != v:
            blocks.append(v)
    order = [b - 1 for b in blocks]
    valid = (sorted(order) == list(range(k))
             and eqnan(mark, np.concatenate([ref[i]["data"][MARK] for i in order])))
    if not rec.check(valid, f"join/events/partition/{ordtag}",
                     lambda: f"events of the inputs are lost, duplicated or interleaved: "
                             f"marker {mark.tolist()} for input sizes {ns}"):
        return
    order_ok = rec.check(
        order in (e1, e2), f"join/order/{ordtag}",
        lambda: f"sources joined in order {order} (0-based positions in the given "
                f"list), chronological order is {e1}"
                + (f" (or {e2} by run index)" if e2 != e1 else "")
                + f"; keys {[info[i]['key'] for i in range(k)]}")
    starts = np.concatenate([[0], np.cumsum([ns[i] for i in order])])
    first = info[order[0]]
    # ---- feature set
    lower = {f for f in first["feats"] if all(f in info[i]["avail"] for i in range(k))}
    upper = set.intersection(*[info[i]["avail"] for i in range(k)])
    jpool = {f for f in jin if not f.startswith("basinmap")}
    rec.check(lower <= jpool, "join/features/missing-common",
              lambda: f"features {sorted(lower - jpool)} are stored in the earliest input "
                      f"and available in every other input but not in the output; inputs "
                      f"(joined order): {[sorted(info[i]['feats']) for i in order]}")
    rec.check(jpool <= upper, "join/features/not-common",
              lambda: f"output features {sorted(jpool - upper)} are not available in "
                      f"every input: {[sorted(info[i]['feats']) for i in order]}")
    # ---- values
    for f in sorted(jpool & upper):
        got = _read(dj, f)
        segs = [ref[i]["data"][f] for i in order]
        if f == "index":
            rec.check(eqnan(got, np.arange(1, ntot + 1)), "join/index",
                      lambda: f"index of the joined file: {got.tolist()}")
        elif f == "time":
            if not order_ok:
                rec.skip("join:time-not-checked-wrong-order")
                continue
            exp = np.concatenate([
                s + float(info[i]["T"] - first["T"]) for s, i in zip(segs, order)])
            ok = got.shape == exp.shape
            if ok:
                dev = np.abs(got - exp)
                if dev.size:
                    STATS["time_dev"] = max(STATS["time_dev"], float(np.max(dev)))
                ok = bool(np.all(dev <= TIME_ATOL))
            rec.check(ok, "join/time-offset",
                      lambda: f"time {got.tolist()} != inputs + acquisition offsets "
                              f"{[float(info[i]['T'] - first['T']) for i in order]} = "
                              f"{exp.tolist()}")
        elif f == "frame":
            if not order_ok:
                rec.skip("join:frame-not-checked-wrong-order")
                continue
            g = got.astype(np.int64)
            for j, (s, i) in enumerate(zip(segs, order)):
                seg = g[starts[j]:starts[j + 1]]
                x = (info[i]["T"] - first["T"]) * fractions.Fraction(spec["fr"])
                lo = x.numerator // x.denominator
                fracp = x - lo
                cands = {lo if fracp < fractions.Fraction(1, 2) else lo + 1}
                if abs(fracp - fractions.Fraction(1, 2)) < fractions.Fraction(1, 1000):
                    cands = {lo, lo + 1}
                    rec.skip("join:frame-offset-rounding-tie-both-accepted")
                off = set((seg - s.astype(np.int64)).tolist())
                rec.check(len(off) == 1 and off <= cands, "join/frame-offset",
                          lambda: f"frame of source #{j + 1}: offsets {sorted(off)} "
                                  f"expected {sorted(cands)} (dt={float(info[i]['T'] - first['T'])}"
                                  f" s, frame rate {spec['fr']})")
        elif f == "index_online":
            g = got.astype(np.int64)
            offs = []
            okc = True
            for j, s in enumerate(segs):
                o = set((g[starts[j]:starts[j + 1]] - s.astype(np.int64)).tolist())
                okc &= len(o) == 1
                offs.append(sorted(o))
            rec.check(okc and offs[0] == [0], "join/index_online/offset",
                      lambda: f"index_online is not input + constant per source "
                              f"(first: 0): offsets {offs}")
            rec.check(bool(np.all(np.diff(g) > 0)), "join/index_online/increasing",
                      lambda: f"index_online not strictly increasing: {g.tolist()}")
        else:
            exp = _cat(f, segs)
            how = ("computed" if any(f not in info[i]["feats"] for i in order)
                   else "stored")
            rec.check(_same(f, got, exp), f"join/values/{fclass(f)}/{how}",
                      lambda: f"feature {f}: got {_brief(f, got)}, expected concatenation "
                              f"{_brief(f, exp)} (order {order})")
    # ---- logs
    jlogs = _logs(dj)
    for j, i in enumerate(order):
        for name, lines in ref[i]["logs"].items():
            got = jlogs.get(f"src-#{j + 1}_{name}")
            rec.check(got is not None and list(got) == lines,
                      "join/logs/first-source" if j == 0 else "join/logs/later-source",
                      lambda: f"log {name!r} of source #{j + 1} not retained: {got!r} "
                              f"!= {lines!r}; logs: {sorted(jlogs)}")
        cfg = jlogs.get(f"src-#{j + 1}_cfg")
        rec.check(cfg is not None and f"sample = sample-{i}" in list(cfg),
                  "join/logs/cfg",
                  lambda: f"configuration log of source #{j + 1} missing or of another "
                          f"source: {cfg!r}")
    # ---- metadata
    je = dj.config["experiment"]
    rec.check(je.get("event count") == len(dj), "join/metadata/event-count",
              lambda: f"event count {je.get('event count')} != {len(dj)}")
    rec.check(je.get("date") == first["date"] and je.get("time") == first["time"],
              f"join/metadata/earliest/{ordtag}",
              lambda: f"output date/time {je.get('date')} {je.get('time')} != first "
                      f"joined source {first['date']} {first['time']}")
