"""C07 — basin-provided features equal the origin's data for the mapped events.

History-driven and model-based.  The spec is an origin dataset plus a *program*
of file-producing steps

    ref     write a referrer with ``RTDCWriter.store_basin`` (unmapped / mapped
            with arbitrary uint64 maps / internal many-to-one basins, feature
            restriction, own copies of basin features, absolute / relative /
            both locations, sub-directory layouts)
    export  ``export.hdf5(basins=True)`` from a file or from a hierarchy child
            (depth 1-2) of a file, filtered or not, storing none / the innate /
            picked (also basin-provided) features
    copy    ``rtdc_copy(include_basins=True)`` with all / scalar / no features

and optionally one *move* (after a chosen step the whole directory tree is
copied elsewhere and the old one deleted; later steps work in the new place).

Every step takes any earlier file as its source, so chains (basins of basins)
of depth 1..5 arise.  A from-scratch model keeps for every file its own
feature arrays and its list of basin links (target, composed index map,
feature restriction, stored locations) and derives for every feature the set
of admissible arrays with ``numpy.take`` only.  All files are then re-opened
with dclab and every feature is read through several access routes (integer,
slice with step, boolean mask, ``[:]``, ``np.asarray``) and compared exactly.
"""
import os
import pathlib
import shutil
import zlib

import h5py
import numpy as np
from hypothesis import strategies as st

from .. import boot
from ..common import meta, quiet, chunk_bytes, boundary_n

import dclab
from dclab import RTDCWriter
from dclab.rtdc_dataset import rtdc_copy

ID = "C07"
RULE = ("Hypothesis-generated origin dataset + program of 1..5 file-producing steps "
        "(referrers written with store_basin: unmapped / mapped / internal, "
        "restricted feature lists, own copies of basin features, abs/rel locations; "
        "export.hdf5(basins=True) of files and hierarchy children, filtered or not, "
        "with none/innate/picked stored features; rtdc_copy; directory move), every "
        "file re-read by >=2 access routes against a numpy-take model.  Non-trivial = "
        "a non-scalar feature was compared by >=2 routes on a file that reaches it "
        "through a non-monotonic or repeating map or through >=2 basin hops; "
        "distinct = sha1 of the canonical JSON spec")
BUDGET = {"quick": 960, "thorough": 12000}
MAX_ROUNDS = 3   # re-runs after a violation (each finds one more signature)
ESSENTIAL = ["ref:mapped", "ref:same", "ref:internal", "ref:own-copy",
             "ref:restricted", "map:repeating", "map:non-monotonic",
             "export:file", "export:child", "export:unfiltered",
             "export:features-none", "export:features-picked",
             "depth>=2", "depth>=3", "moved", "copy",
             "route:int", "route:slice", "route:mask", "route:full",
             "route:asarray", "kind:nd", "kind:scalar"]
ASSUMPTIONS = [
    "version shim so that files written by the untagged build re-open",
    "origin data are taken as written (the writer round trip is property C01)",
    "when several basins of one file provide the same feature with different data "
    "(own copies upstream), any of them is accepted except that internal basins "
    "precede file basins (documented lookup order); counted as 'ambiguous'",
    "integer-array (fancy) indexing is not used: h5py restricts it for stored "
    "non-scalar features; routes are integer, slice (step>=1), boolean mask, [:], "
    "np.asarray",
    "a basin whose stored locations all dangle after the move is expected to be "
    "ignored; features listed by a restricted basin that its target cannot "
    "deliver any more are skipped (counted)"]

FLOAT_SC = ["deform", "area_um", "userdef1"]
INT_SC = ["fl1_max", "frame"]
ND = ["image", "image_bg", "qpi_pha"]
OTHER = ["mask", "contour", "trace"]
ORIGIN_POOL = ["area_um", "userdef1", "fl1_max", "frame", "image", "image",
               "mask", "qpi_pha", "contour", "trace", "image_bg"]
TRACES = ["fl1_raw", "fl2_median"]
IMG = (6, 9)
QPI = (4, 5)
NSAMP = 11

def sg(sub, cls, *rest):
    """failure signature <sub-check>/<feature kind>/<basin route class>/..."""
    return "/".join([sub] + [str(r) for r in rest[:1]] + [cls]
                    + [str(r) for r in rest[1:]])


def kind_of(f):
    if f in ND:
        return "nd"
    if f in OTHER:
        return f
    return "scalar"


# ------------------------------------------------------------------ strategy

BITS = st.lists(st.booleans(), min_size=1, max_size=24)
IDX = st.lists(st.integers(0, 63), min_size=1, max_size=48)


@st.composite
def st_map(draw):
    k = draw(st.sampled_from(["list", "list", "list", "list", "perm", "repeat",
                              "stride", "cross", "identity", "one", "samelen",
                              "samelen"]))
    if k == "samelen":
        # as long as the origin, same first and last entry as the identity, but not
        # the identity (monotone with repetitions, or a permutation of the interior)
        return {"k": "samelen", "seed": draw(st.integers(0, 999)),
                "mono": draw(st.booleans())}
    if k == "list":
        return {"k": "list", "idx": draw(IDX),
                "sort": draw(st.sampled_from([False, False, True])),
                "uniq": draw(st.sampled_from([False, False, True]))}
    if k == "perm":
        return {"k": "perm", "seed": draw(st.integers(0, 999))}
    if k == "repeat":
        return {"k": "repeat", "r": draw(st.integers(2, 3)), "bits": draw(BITS)}
    if k == "stride":
        return {"k": "stride", "s": draw(st.integers(2, 4)),
                "o": draw(st.integers(0, 3))}
    if k == "one":
        return {"k": "list", "idx": [draw(st.integers(0, 63))], "sort": False,
                "uniq": False}
    return {"k": k}


@st.composite
def st_internal(draw):
    return {"m": draw(st.integers(1, 5)),
            "k": draw(st.sampled_from(["mono", "rand", "rand", "reuse"])),
            "seed": draw(st.integers(0, 999)),
            "feats": draw(st.sampled_from([["image_bg"], ["image_bg", "userdef2"],
                                           ["userdef2"]]))}


@st.composite
def st_step(draw, pos):
    if pos == 0:
        op = draw(st.sampled_from(["ref", "ref", "ref", "export", "export", "copy"]))
    else:
        op = draw(st.sampled_from(["ref", "ref", "export", "export", "export",
                                   "export", "copy"]))
    src = draw(st.sampled_from([0, 0, 0, 0, 0, 1, 1, 2, 3, 9]))
    sub = draw(st.sampled_from([False, False, True]))
    if op == "ref":
        return {"op": "ref", "src": src, "sub": sub,
                "map": draw(st.one_of(st.none(), st_map(), st_map())),
                "restrict": draw(st.one_of(st.none(), st.none(), BITS, BITS)),
                "own": draw(st.one_of(st.just([]), st.just([]), BITS)),
                "loc": draw(st.sampled_from(["both", "both", "abs", "rel"])),
                "idext": draw(st.booleans()),
                "basin_first": draw(st.booleans()),
                # documented forms of `basin_map`: integer array (any integer dtype)
                # or the tuple (mapping feature name, array)
                "mapform": draw(st.sampled_from(["u64", "u64", "i64", "i32", "u16",
                                                 "tuple"])),
                "internal": draw(st.one_of(st.none(), st.none(), st_internal())),
                "seed": draw(st.integers(0, 999))}
    if op == "export":
        nlev = draw(st.sampled_from([1, 1, 1, 2, 2, 3]))
        return {"op": "export", "src": src, "sub": sub,
                "masks": [draw(BITS) for _ in range(nlev)],
                "filtered": draw(st.sampled_from([True, True, True, False])),
                "feats": draw(st.sampled_from(["innate", "none", "none", "pick",
                                               "pick"])),
                "pick": draw(BITS)}
    if op == "copy":
        return {"op": "copy", "src": src, "sub": sub,
                "features": draw(st.sampled_from(["all", "scalar", "none"]))}
    raise ValueError(op)


@st.composite
def st_route(draw):
    r = draw(st.sampled_from(["int", "int", "slice", "slice", "mask", "mask",
                              "full", "asarray"]))
    if r == "int":
        return {"r": "int", "i": draw(st.integers(-64, 63)),
                "np": draw(st.booleans())}
    if r == "slice":
        return {"r": "slice",
                "a": draw(st.one_of(st.none(), st.integers(-50, 50))),
                "b": draw(st.one_of(st.none(), st.integers(-50, 50))),
                "s": draw(st.sampled_from([None, 1, 2, 3, 7]))}
    if r == "mask":
        return {"r": "mask", "bits": draw(BITS)}
    return {"r": r}


@st.composite
def st_spec(draw):
    feats = draw(st.lists(st.sampled_from(ORIGIN_POOL), min_size=1, max_size=5,
                          unique=True))
    origin = {"n": draw(boundary_n(10, 48)), "seed": draw(st.integers(0, 999)),
              "feats": sorted(set(feats + ["deform"])),
              "internal": draw(st.one_of(st.none(), st.none(), st_internal()))}
    nsteps = draw(st.sampled_from([1, 2, 2, 3, 3, 4, 5]))
    return {"chunk": draw(st.sampled_from([100, 100, None])),
            "origin": origin,
            "steps": [draw(st_step(k)) for k in range(nsteps)],
            # the directory tree is moved after step `move_at` (clipped)
            "move_at": draw(st.one_of(st.none(), st.none(), st.integers(1, 5))),
            "acc": draw(st.lists(st_route(), min_size=2, max_size=4))}


def strategy(tier):
    return st_spec()


def sample_view(spec):
    return spec


# --------------------------------------------------------------- data + model

def make(name, n, seed):
    """deterministic feature data (pure function of name, n, seed)"""
    r = np.random.default_rng([int(seed), zlib.crc32(name.encode())])
    if name in FLOAT_SC or name in ("userdef0", "userdef2"):
        a = r.normal(size=n) * 10
        if n > 2:
            bad = r.integers(0, n, size=max(1, n // 8))
            a[bad] = r.choice([np.nan, np.inf, -np.inf, -0.0], size=bad.size)
        return a
    if name == "fl1_max":
        return r.integers(0, 2**20, size=n).astype(np.uint32)
    if name == "frame":
        return np.cumsum(r.integers(0, 5, size=n)).astype(np.uint64)
    if name in ("image", "image_bg"):
        return r.integers(0, 256, size=(n,) + IMG, dtype=np.uint8)
    if name == "qpi_pha":
        return r.normal(size=(n,) + QPI).astype(np.float32)
    if name == "mask":
        return r.integers(0, 2, size=(n,) + IMG).astype(bool)
    if name == "contour":
        return [r.integers(0, 9, size=(int(k), 2)) for k in r.integers(1, 7, size=n)]
    if name == "trace":
        return {t: r.integers(-2000, 2000, size=(n, NSAMP)).astype(np.int16)
                for t in TRACES}
    raise ValueError(name)


def take(a, idx):
    if idx is None:
        return a
    if isinstance(a, dict):
        return {k: v[idx] for k, v in a.items()}
    if isinstance(a, list):
        return [a[int(i)] for i in idx]
    return a[idx]


def length(a):
    if isinstance(a, dict):
        return len(a[sorted(a)[0]])
    return len(a)


def equal(a, b):
    """exact equality (NaN == NaN) of arrays / ragged lists / scalars"""
    if isinstance(a, (list, tuple)) or isinstance(b, (list, tuple)):
        if not (isinstance(a, (list, tuple)) and isinstance(b, (list, tuple))):
            return False
        return len(a) == len(b) and all(equal(x, y) for x, y in zip(a, b))
    a = np.asarray(a)
    b = np.asarray(b)
    if a.shape != b.shape:
        return False
    if a.dtype.kind in "fc" or b.dtype.kind in "fc":
        return bool(np.array_equal(a, b, equal_nan=True))
    return bool(np.array_equal(a, b))


class MF:
    """model of one file"""

    def __init__(self, name, path, n):
        self.name, self.path, self.n = name, pathlib.Path(path), n
        self.own = {}        # feature -> data
        self.basins = []     # list of MB
        self.taint = {}      # feature -> known-defect class (none at present)
        self.born = ""       # how it was made (for messages)


class MB:
    """model of one basin link"""

    def __init__(self, kind, target, bmap, feats, locs):
        self.kind = kind        # "file" | "internal"
        self.target = target    # MF
        self.map = None if bmap is None else np.asarray(bmap, dtype=np.int64)
        self.feats = None if feats is None else sorted(feats)
        self.locs = [str(x) for x in locs]


def alive(f, b):
    """independent re-statement of the documented location rule: a stored
    location counts when it exists as given or relative to the referrer"""
    if b.kind == "internal":
        return bool(b.feats)
    for loc in b.locs:
        p = pathlib.Path(loc)
        for cand in ([p] if p.is_absolute() else [f.path.parent / p]):
            if cand.exists() and cand.resolve() == b.target.path.resolve():
                return True
    return False


class Model:
    def __init__(self):
        self.files = []
        self._memo = {}

    def reset(self):
        self._memo = {}

    def listed(self, f, _seen=()):
        """feature names a file lists as basin features"""
        key = ("listed", id(f))
        if key not in self._memo:
            out = set()
            for b in f.basins:
                if alive(f, b):
                    out |= self.blisted(b)
            self._memo[key] = out
        return self._memo[key]

    def blisted(self, b):
        if b.feats is not None:
            return set(b.feats)
        return set(b.target.own) | self.listed(b.target)

    def names(self, f):
        return set(f.own) | self.listed(f)

    def cands(self, f, feat):
        """admissible data of `feat` in file `f`:
        list of (data, via, taint, hops, weird)"""
        key = ("c", id(f), feat)
        if key in self._memo:
            return self._memo[key]
        if feat in f.own:
            out = [(f.own[feat], "own", f.taint.get(feat), 0, False)]
        else:
            out = []
            for tier in ("internal", "file"):
                for b in f.basins:
                    if b.kind != tier or not alive(f, b):
                        continue
                    if feat not in self.blisted(b):
                        continue
                    for (a, via, t, hops, weird) in self.cands(b.target, feat):
                        if b.map is not None:
                            via2 = "mapped"
                            w2 = weird or bool(np.any(np.diff(b.map) <= 0))
                        else:
                            via2 = "mapped" if via == "mapped" else "same"
                            w2 = weird
                        new = (take(a, b.map), via2, t or f.taint.get(feat),
                               hops + 1, w2)
                        for i, old in enumerate(out):
                            if equal_data(old[0], new[0]):
                                # keep the most informative labels
                                out[i] = (old[0],
                                          "mapped" if "mapped" in (old[1], via2) else old[1],
                                          old[2] or new[2], max(old[3], new[3]),
                                          old[4] or new[4])
                                break
                        else:
                            out.append(new)
                if out:
                    break
        self._memo[key] = out
        return out


def equal_data(a, b):
    if isinstance(a, dict):
        return isinstance(b, dict) and sorted(a) == sorted(b) and \
            all(equal(a[k], b[k]) for k in a)
    if isinstance(b, dict):
        return False
    return equal(a, b)


# ------------------------------------------------------------------- helpers

def bits_mask(bits, n, need_true=True):
    m = np.array([bits[i % len(bits)] for i in range(n)], dtype=bool)
    if need_true and not m.any():
        m[0] = True
    return m


def build_map(ms, nsrc, c=10):
    k = ms["k"]
    if k == "list":
        idx = [int(v) % nsrc for v in ms["idx"]]
        if ms["uniq"]:
            idx = list(dict.fromkeys(idx))
        if ms["sort"]:
            idx = sorted(idx)
    elif k == "perm":
        idx = np.random.default_rng(ms["seed"]).permutation(nsrc).tolist()
    elif k == "repeat":
        base = np.flatnonzero(bits_mask(ms["bits"], nsrc))
        idx = np.repeat(base, ms["r"]).tolist()
    elif k == "stride":
        idx = list(range(ms["o"] % nsrc, nsrc, ms["s"]))
    elif k == "cross":
        idx = [i for i in (c - 1, c, c + 1, 2 * c - 1, 2 * c, 0, c, c - 1,
                           3 * c, 3 * c - 1) if i < nsrc] or [0]
    elif k == "identity":
        idx = list(range(nsrc))
    elif k == "samelen":
        r = np.random.default_rng(ms["seed"])
        if nsrc < 4:
            idx = list(range(nsrc))
        elif ms["mono"]:
            inner = np.sort(r.integers(0, nsrc, size=nsrc - 2)).tolist()
            idx = [0] + inner + [nsrc - 1]
        else:
            idx = [0] + (1 + r.permutation(nsrc - 2)).tolist() + [nsrc - 1]
    else:
        raise ValueError(k)
    return np.array(idx, dtype=np.uint64)


def store_features(hw, data):
    for f in sorted(data):
        if f == "contour":
            for c in data[f]:
                hw.store_feature("contour", c)
        else:
            hw.store_feature(f, data[f])


def internal_payload(ispec, nfile, filemap):
    """(internal data dict, map) of an internal basin"""
    m = ispec["m"]
    k = ispec["k"]
    if k == "reuse" and filemap is not None and len(filemap) == nfile:
        imap = np.asarray(filemap, dtype=np.uint64)
        m = int(imap.max()) + 1
    elif k == "mono":
        imap = (np.arange(nfile) * m // max(nfile, 1)).astype(np.uint64)
    else:
        imap = np.random.default_rng(ispec["seed"]).integers(
            0, m, size=nfile).astype(np.uint64)
    data = {f: make(f, m, ispec["seed"] + 7) for f in ispec["feats"]}
    return data, imap


def file_ident(path):
    with dclab.new_dataset(path) as ds:
        cfg = {sec: dict(ds.config[sec]) for sec in ("experiment", "imaging", "setup")
               if sec in ds.config}
        return cfg, ds.get_measurement_identifier()


# --------------------------------------------------------------- interpreter

class Run:
    def __init__(self, spec, rec, d):
        self.spec, self.rec, self.d = spec, rec, d
        self.model = Model()
        self.epoch = 0
        self.root = d / "e0"
        (self.root / "sub").mkdir(parents=True)
        self.count = 0
        self.moved = False
        self.seen_nt = False

    # -- file bookkeeping
    def newpath(self, sub, tag):
        self.count += 1
        base = self.root / "sub" if sub else self.root
        return base / f"f{self.count}_{tag}.rtdc"

    def clean_files(self):
        return list(self.model.files)

    def pick_src(self, i, avoid_origin=False):
        """i counts backwards from the newest usable file (0 = newest), so
        that chains grow; 9 = the origin"""
        fl = self.clean_files()
        if i >= 9:
            return fl[0]
        if avoid_origin and len(fl) > 1:
            fl = fl[1:]
        return fl[len(fl) - 1 - (i % len(fl))]

    # -- steps
    def origin(self):
        o = self.spec["origin"]
        n = o["n"]
        path = self.root / "origin.rtdc"
        mf = MF("origin", path, n)
        own = {f: make(f, n, o["seed"]) for f in o["feats"]}
        with RTDCWriter(path) as hw:
            hw.store_metadata(meta())
            store_features(hw, own)
            if o["internal"]:
                feats = [f for f in o["internal"]["feats"] if f not in own]
                if feats:
                    isp = dict(o["internal"], feats=feats)
                    idata, imap = internal_payload(isp, n, None)
                    hw.store_basin(basin_name="int", basin_type="internal",
                                   basin_format="h5dataset",
                                   basin_locs=["basin_events"],
                                   internal_data=idata, basin_map=imap,
                                   basin_feats=sorted(idata))
                    tgt = MF("origin/internal", path, length(idata[sorted(idata)[0]]))
                    tgt.own = idata
                    mf.basins.append(MB("internal", tgt, imap, sorted(idata), []))
                    self.rec.cls("origin:internal")
        mf.own = own
        mf.born = "origin"
        self.model.files.append(mf)

    def step_ref(self, st_):
        rec = self.rec
        src = self.pick_src(st_["src"])
        self.model.reset()
        path = self.newpath(st_["sub"], "ref")
        cfg, rid = file_ident(src.path)
        bmap = None if st_["map"] is None else build_map(st_["map"], src.n)
        n = src.n if bmap is None else len(bmap)
        offered = sorted(self.model.names(src))
        obtainable = [f for f in offered if self.model.cands(src, f)]
        # restriction of the basin's feature list
        feats = None
        if st_["restrict"] is not None and obtainable:
            sel = bits_mask(st_["restrict"], len(obtainable))
            feats = [f for f, s in zip(obtainable, sel) if s]
        # own copies of basin features (precedence)
        own = {}
        if st_["own"]:
            pool = [f for f in obtainable if kind_of(f) in ("scalar", "nd", "mask")]
            sel = bits_mask(st_["own"], len(pool), need_true=False) if pool else []
            for f, s in list(zip(pool, sel))[:6]:
                if s and len(own) < 2:
                    own[f] = make(f, n, st_["seed"] + 13)
        if bmap is None or not own or st_["seed"] % 3:
            own["userdef0"] = make("userdef0", n, st_["seed"])
        if bmap is not None and st_["idext"]:
            cfg["experiment"]["run identifier"] = rid + "-r"
        else:
            cfg["experiment"]["run identifier"] = rid
        cfg["experiment"].pop("event count", None)
        loc = st_["loc"]
        if loc == "both":
            locs, verify = [str(src.path)], True
        elif loc == "abs":
            locs, verify = [str(src.path)], False
        else:
            rel = _relpath(src.path, path.parent)
            locs, verify = [rel], False
        mf = MF(path.name, path, n)
        with RTDCWriter(path) as hw:
            hw.store_metadata(cfg)
            if not st_["basin_first"]:
                store_features(hw, own)
            mform = st_.get("mapform", "u64")
            if bmap is None or mform == "u64":
                marg = bmap
            elif mform == "tuple":
                marg = (f"basinmap{st_['seed'] % 10}", bmap)
                rec.cls("ref:map-as-tuple")
            else:
                dt = {"i64": np.int64, "i32": np.int32, "u16": np.uint16}[mform]
                marg = bmap.astype(dt)
                rec.cls("ref:map-other-int-dtype")
            hw.store_basin(basin_name="b", basin_type="file", basin_format="hdf5",
                           basin_locs=locs, basin_map=marg, basin_feats=feats,
                           verify=verify)
            if verify:
                stored = [str(src.path.resolve())]
                if (str(src.path.parent) + os.sep).startswith(
                        str(path.parent) + os.sep):
                    stored.append(_relpath(src.path, path.parent))
            else:
                stored = locs
            mf.basins.append(MB("file", src, bmap, feats, stored))
            if st_["internal"]:
                ifeats = [f for f in st_["internal"]["feats"] if f not in own]
                if ifeats:
                    isp = dict(st_["internal"], feats=ifeats)
                    idata, imap = internal_payload(isp, n, bmap)
                    hw.store_basin(basin_name="int", basin_type="internal",
                                   basin_format="h5dataset",
                                   basin_locs=["basin_events"],
                                   internal_data=idata, basin_map=imap,
                                   basin_feats=sorted(idata))
                    tgt = MF(path.name + "/internal", path,
                             length(idata[sorted(idata)[0]]))
                    tgt.own = idata
                    mf.basins.append(MB("internal", tgt, imap, sorted(idata), []))
                    rec.cls("ref:internal")
                    if bmap is not None and equal(imap, bmap):
                        rec.cls("ref:internal-map-reused")
            if st_["basin_first"]:
                store_features(hw, own)
        mf.own = own
        mf.born = "ref"
        self.model.files.append(mf)
        rec.cls("ref:mapped" if bmap is not None else "ref:same")
        if feats is not None:
            rec.cls("ref:restricted")
        if any(f != "userdef0" for f in own):
            rec.cls("ref:own-copy")
        if bmap is not None:
            dm = np.diff(bmap.astype(np.int64))
            if np.any(dm == 0) or len(set(bmap.tolist())) < len(bmap):
                rec.cls("map:repeating")
            if np.any(dm < 0):
                rec.cls("map:non-monotonic")
            if len(bmap) > src.n:
                rec.cls("map:superset")
            c = 10
            if np.any((bmap[:-1] // c) != (bmap[1:] // c)):
                rec.cls("map:chunk-crossing")
        rec.cls(f"ref:loc-{loc}")

    def step_export(self, st_):
        rec = self.rec
        src = self.pick_src(st_["src"])
        self.model.reset()
        model = self.model
        path = self.newpath(st_["sub"], "exp")
        masks = st_["masks"]
        filtered = st_["filtered"]
        nchild = len(masks) - 1
        # model: selection in root coordinates
        sel = np.arange(src.n)
        for lvl, bits in enumerate(masks):
            m = bits_mask(bits, len(sel))
            if lvl < nchild or filtered:
                sel = sel[m]
        identity = (not filtered) and nchild == 0
        # which features are stored
        names = sorted(model.names(src))
        mode = st_["feats"]
        if mode == "innate":
            feats_arg, stored = None, sorted(src.own)
        elif mode == "none":
            feats_arg, stored = [], []
        else:
            pool = []
            for f in names:
                cs = model.cands(src, f)
                if len(cs) != 1:
                    continue  # not obtainable or ambiguous
                pool.append(f)
            pm = bits_mask(st_["pick"], len(pool), need_true=False) if pool else []
            stored = [f for f, s in zip(pool, pm) if s]
            feats_arg = list(stored)
            if not stored:
                mode = "none"
        upstream = [b for b in src.basins if b.kind == "file" and alive(src, b)]
        fastpath = nchild == 0 and (not filtered or len(sel) == src.n)
        with dclab.new_dataset(src.path) as ds:
            cur = ds
            keep = []
            for lvl, bits in enumerate(masks):
                cur.filter.manual[:] = bits_mask(bits, len(cur))
                cur.apply_filter()
                if lvl < nchild:
                    cur = dclab.new_dataset(cur)
                    keep.append(cur)
            cur.export.hdf5(path, features=feats_arg, filtered=filtered,
                            basins=True)
        mf = MF(path.name, path, len(sel))
        for f in stored:
            c = model.cands(src, f)[0]
            mf.own[f] = take(c[0], None if identity else sel)
        for b in upstream:
            bl = sorted(model.blisted(b))
            if identity:
                cmap = b.map
            elif b.map is None:
                cmap = sel
            else:
                cmap = b.map[sel]
            mf.basins.append(MB("file", b.target, cmap, bl,
                                [str(b.target.path)]))
        mf.basins.append(MB("file", src, None if identity else sel, None,
                            [str(src.path), src.path.name]))
        mf.born = "export"
        model.files.append(mf)
        rec.cls("export:child" if nchild else "export:file")
        if nchild > 1:
            rec.cls("export:grandchild")
        if nchild and upstream:
            rec.cls("export:child-with-upstream-basins")
        if any(b.feats is not None
               and set(b.feats) < {x for x in model.names(b.target)
                                   if model.cands(b.target, x)}
               for b in upstream):
            rec.cls("export:upstream-basin-restricted")
        if fastpath and any(f not in src.own and kind_of(f) == "nd"
                            and model.cands(src, f)[0][1] == "mapped"
                            for f in stored):
            rec.cls("export:fastpath-nd-from-mapped-basin")
        rec.cls("export:filtered" if filtered else "export:unfiltered")
        rec.cls(f"export:features-{'picked' if mode == 'pick' else mode}")
        if any(f not in src.own for f in stored):
            rec.cls("export:stored-basin-feature")

    def step_copy(self, st_):
        rec = self.rec
        src = self.pick_src(st_["src"], avoid_origin=st_["src"] < 9)
        self.model.reset()
        path = self.newpath(st_["sub"], "copy")
        mode = st_["features"]
        with h5py.File(src.path, "r") as h5s, RTDCWriter(path) as hw:
            rtdc_copy(src_h5file=h5s, dst_h5file=hw.h5file, features=mode,
                      include_basins=True)

        def selected(f):
            return mode == "all" or (mode == "scalar" and kind_of(f) == "scalar")

        mf = MF(path.name, path, src.n)
        mf.own = {f: v for f, v in src.own.items() if selected(f)}
        for b in src.basins:
            if b.kind == "internal":
                fs = [f for f in b.feats if selected(f)]
                if not fs:
                    continue
                tgt = MF(path.name + "/internal", path, b.target.n)
                tgt.own = {f: b.target.own[f] for f in fs}
                mf.basins.append(MB("internal", tgt, b.map, fs, []))
            else:
                mf.basins.append(MB("file", b.target, b.map, b.feats, b.locs))
        mf.born = "copy"
        self.model.files.append(mf)
        rec.cls("copy")
        rec.cls(f"copy:{mode}")
        if any(b.kind == "file" for b in mf.basins):
            rec.cls("copy:with-file-basin")
        if any(b.kind == "internal" for b in src.basins):
            rec.cls("copy:src-with-internal-basin")

    def step_move(self):
        if self.moved or len(self.model.files) < 2:
            self.rec.skip("move-ignored")
            return
        self.check_all("pre-move")
        self.moved = True
        self.epoch += 1
        new = self.d / f"e{self.epoch}"
        shutil.copytree(self.root, new)
        shutil.rmtree(self.root)
        for f in self.model.files:
            f.path = new / f.path.relative_to(self.root)
            for b in f.basins:
                if b.kind == "internal":
                    b.target.path = f.path
        self.root = new
        self.model.reset()
        self.rec.cls("moved")

    # -- oracle
    def check_all(self, phase):
        self.model.reset()
        for f in self.model.files[1:]:
            self.check_file(f, phase)

    def check_file(self, f, phase):
        rec, model = self.rec, self.model
        acc = self.spec["acc"]
        listed = model.listed(f)
        names = sorted(model.names(f))
        with dclab.new_dataset(f.path) as ds:
            rec.check(len(ds) == f.n, f"len/{f.born}",
                      lambda: f"len(ds)={len(ds)}, model {f.n} ({f.name}, {phase})")
            got_b = {x for x in ds.features_basin if not x.startswith("basinmap")}
            rec.check(got_b == {x for x in listed if not x.startswith("basinmap")},
                      f"features_basin/{f.born}",
                      lambda: f"features_basin={sorted(got_b)}, model "
                              f"{sorted(listed)} ({f.name}, {phase})")
            innate = set(ds.features_innate)
            for feat in names:
                cs = model.cands(f, feat)
                if not cs:
                    rec.skip("listed-not-obtainable")
                    continue
                kind = kind_of(feat)
                vias = sorted({c[1] for c in cs})
                via = "own" if vias == ["own"] else (
                    "mapped" if "mapped" in vias else "same")
                cls = via
                hops = max(c[3] for c in cs)
                weird = any(c[4] for c in cs)
                if len(cs) > 1:
                    rec.skip("ambiguous-basins")
                rec.cls(f"kind:{kind}")
                rec.cls(f"via:{via}")
                if hops >= 2:
                    rec.cls("depth>=2")
                if hops >= 3:
                    rec.cls("depth>=3")
                if hops >= 4:
                    rec.cls("depth>=4")
                where = f"{f.name} [{f.born}, {phase}] feature {feat} via {via} " \
                        f"({hops} hop(s))"
                rec.check(feat in ds, sg("contains", cls, kind),
                          lambda: f"{where}: `feat in ds` is False")
                rec.check((feat in innate) == (feat in f.own),
                          sg("innate", cls, kind),
                          lambda: f"{where}: in features_innate={feat in innate}, "
                                  f"model own={feat in f.own}")
                try:
                    obj = ds[feat]
                except Exception as e:  # noqa
                    rec.fail(sg("getitem-raises", cls, kind, type(e).__name__),
                             f"{where}: ds[feat] raised {type(e).__name__}: {e}")
                    continue
                nroutes = 0
                if kind == "trace":
                    tnames = sorted(cs[0][0])
                    subs = []
                    for t in tnames:
                        try:
                            subs.append((t, obj[t]))
                        except Exception as e:  # noqa
                            rec.fail(sg("raises", cls, "trace", "name-lookup",
                                        type(e).__name__),
                                     f"{where}: ds['trace'][{t!r}] raised "
                                     f"{type(e).__name__}: {e}")
                    for t, o in subs:
                        nroutes = self.routes(o, [(c[0][t],) + c[1:] for c in cs],
                                              "trace", cls, where + f"[{t}]", acc, f.n)
                else:
                    nroutes = self.routes(obj, cs, kind, cls, where, acc, f.n)
                if (kind != "scalar" and via != "own" and nroutes >= 2
                        and (hops >= 2 or weird)):
                    self.seen_nt = True

    def routes(self, obj, cs, kind, cls, where, acc, n):
        rec = self.rec
        done = 0
        # length and shape
        try:
            ln = len(obj)
            rec.check(ln == n, sg("len", cls, kind),
                      lambda: f"{where}: len(feature)={ln}, model {n}")
        except Exception as e:  # noqa
            rec.fail(sg("raises", cls, kind, "len", type(e).__name__),
                     f"{where}: len() raised {e}")
        if kind != "contour":
            try:
                shp = tuple(obj.shape)
                exp = np.asarray(cs[0][0]).shape
                rec.check(shp == exp, sg("shape", cls),
                          lambda: f"{where}: .shape={shp}, model {exp}")
            except Exception as e:  # noqa
                rec.fail(sg("raises", cls, kind, "shape", type(e).__name__),
                         f"{where}: .shape raised {e}")
        for r in acc:
            name = r["r"]
            if name == "asarray" and kind == "contour":
                rec.skip("asarray-on-ragged")
                continue
            rcls = name if kind != "contour" else ("int" if name == "int" else "non-int")
            if name == "int":
                i = r["i"] % n if r["i"] >= 0 else -((-r["i"] - 1) % n) - 1
                key = np.int64(i) if r["np"] else int(i)
                mkey = int(i)
            elif name == "slice":
                key = mkey = slice(r["a"], r["b"], r["s"])
            elif name == "mask":
                key = mkey = bits_mask(r["bits"], n)
            elif name == "full":
                key = mkey = slice(None)
            else:
                key = mkey = None
            try:
                if name == "asarray":
                    with quiet_warnings():
                        got = np.asarray(obj)
                else:
                    got = obj[key]
            except Exception as e:  # noqa
                rec.fail(sg("raises", cls, kind, rcls, type(e).__name__),
                         f"{where}: route {r} raised {type(e).__name__}: {e}")
                continue
            rec.cls(f"route:{name}")
            done += 1
            exps = []
            for c in cs:
                a = c[0]
                if name == "asarray":
                    exps.append(np.asarray(a))
                elif isinstance(a, list):
                    if name == "int":
                        exps.append(a[mkey])
                    else:
                        exps.append([a[j] for j in np.arange(n)[mkey]])
                else:
                    exps.append(a[mkey])
            if isinstance(got, np.ndarray) or np.isscalar(got) or \
                    isinstance(got, (list, tuple)):
                ok = any(equal(got, e) for e in exps)
            else:
                ok = any(equal(np.asarray(got), e) for e in exps)
            rec.check(ok, sg("value", cls, kind, rcls),
                      lambda: f"{where}: route {r}: got {_short(got)}, "
                              f"model {_short(exps[0])}")
        return done


class quiet_warnings:
    def __enter__(self):
        import warnings
        self._cm = warnings.catch_warnings()
        self._cm.__enter__()
        warnings.simplefilter("ignore")

    def __exit__(self, *a):
        self._cm.__exit__(*a)


def _short(x):
    try:
        a = np.asarray(x)
        return f"shape {a.shape} {a.ravel()[:8].tolist()}"
    except Exception:  # noqa
        return repr(x)[:120]


def _relpath(target, base):
    return os.path.relpath(str(target), str(base))


def enumerate_cases(tier):
    """large-index chains: index maps whose entries are large compared with the
    differences between two maps (origin with 3e5 scalar events, a first export
    that drops a few early events, a nested export of late events only)"""
    out = []
    for n, drop, late, sparse in ((300000, 1, 1500, False), (300000, 2, 700, False),
                                  (250000, 2, 40, True)):
        out.append({"kind": "bigindex", "n": n, "drop": drop, "late": late,
                    "sparse": sparse})
    return out


def _run_bigindex(spec, rec, d):
    import dclab
    from dclab import RTDCWriter
    from ..common import meta
    n, drop, late = spec["n"], spec["drop"], spec["late"]
    rec.cls("bigindex-chain")
    rec.nontrivial()
    area = np.arange(n, dtype=float) * 0.5 + 7
    deform = np.arange(n, dtype=float) % 977
    p0 = d / "origin.rtdc"
    with RTDCWriter(p0) as hw:
        hw.store_metadata(meta())
        hw.store_feature("deform", deform)
        hw.store_feature("area_um", area)
    # level 1: drops `drop` early events (and every 1000th event)
    keep1 = np.ones(n, dtype=bool)
    keep1[:drop] = False
    if spec.get("sparse"):
        keep1[::1000] = False
    p1 = d / "level1.rtdc"
    with dclab.new_dataset(p0) as ds:
        ds.filter.manual[:] = keep1
        ds.apply_filter()
        ds.export.hdf5(p1, features=["deform"], filtered=True, basins=True)
    map1 = np.flatnonzero(keep1)
    # level 2: only late events of level 1
    n1 = len(map1)
    keep2 = np.zeros(n1, dtype=bool)
    keep2[n1 - late:] = True
    keep2[n1 - late + 1::7] = False
    p2 = d / "level2.rtdc"
    with dclab.new_dataset(p1) as ds:
        rec.check(len(ds) == n1 and np.array_equal(ds["area_um"][:], area[map1]),
                  sg("value", "scalar", "mapped", "bigindex-level1"),
                  "level-1 export: basin feature differs from origin[map]")
        ds.filter.manual[:] = keep2
        ds.apply_filter()
        ds.export.hdf5(p2, features=["deform"], filtered=True, basins=True)
    map2 = map1[np.flatnonzero(keep2)]
    with dclab.new_dataset(p2) as ds:
        rec.check(len(ds) == len(map2), sg("len", "scalar", "mapped", "bigindex"),
                  f"{len(ds)} events, expected {len(map2)}")
        rec.check(np.array_equal(ds["deform"][:], deform[map2]),
                  sg("value", "scalar", "own", "bigindex"), "stored feature wrong")
        for acc, nm in ((slice(None), "full"), (slice(3, None, 5), "slice")):
            got = np.asarray(ds["area_um"][acc])
            rec.check(np.array_equal(got, area[map2][acc]),
                      sg("value", "scalar", "mapped", "bigindex-" + nm),
                      lambda: f"area_um through the basin chain: first wrong event "
                              f"{int(np.flatnonzero(got != area[map2][acc])[0]) if got.shape == area[map2][acc].shape else 'shape'}")
        rec.check(float(ds["area_um"][0]) == float(area[map2][0]),
                  sg("value", "scalar", "mapped", "bigindex-int"), "")


def run_case(spec, rec):
    d = boot.casedir()
    if spec.get("kind") == "bigindex":
        try:
            with quiet():
                _run_bigindex(spec, rec, d)
        finally:
            boot.rmcase(d)
        return
    try:
        with chunk_bytes(spec["chunk"]), quiet():
            run = Run(spec, rec, d)
            run.origin()
            mv = spec.get("move_at")
            if mv is not None:
                mv = min(mv, len(spec["steps"]))
            for k, st_ in enumerate(spec["steps"]):
                op = st_["op"]
                if op == "ref":
                    run.step_ref(st_)
                elif op == "export":
                    run.step_export(st_)
                elif op == "copy":
                    run.step_copy(st_)
                if mv == k + 1:
                    run.step_move()
            run.check_all("final")
            if run.seen_nt:
                rec.nontrivial()
    finally:
        boot.rmcase(d)
