"""C12 — statistics / KDE / quantiles / downsampling / tsv use exactly the
filtered events.

One case = a dataset with three scalar features (x, y and a filter feature z),
a filter configuration (manual mask, box filter, "remove invalid events",
"limit events", filters enabled/disabled), *poison* written onto excluded
events (NaN, +-inf, +-1e300, values that move min/max/bins) and a list of
analysis queries.  Every query is evaluated

  A  on the full dataset with the filter applied,
  B  on a dataset that holds only the selected events (no filter),
  R  by a reference written from the definition (where one exists).

Oracles
  meta/...      A == B (same exception class if both raise)
  def/...       statistics == definition on the finite selected values,
                downsampled points / tsv rows are selected events
  ref/...       density == reference estimator (histogram spline, Gaussian
                kernel, product kernel) on the selected events in the chosen scale
  contour/...   grid spans the valid selected events, contour vertices lie on
                the requested iso-level
  quantile/...  the reported level leaves the fraction q of the events below it
"""
import math

import numpy as np
from hypothesis import strategies as st
from scipy.interpolate import RectBivariateSpline

from .. import boot
from ..common import meta, st_float

import dclab
from dclab import RTDCWriter, kde_contours, statistics
from dclab import definitions as dfn
from dclab.cached import Cache

ID = "C12"
RULE = ("Hypothesis-generated dataset (3 scalar features; clustered / uniform / "
        "tie-heavy / lognormal / signed / integer data, n = 1..700 (thorough: "
        "3000), NaN/inf "
        "among the events) x filter (manual, box, remove-invalid, limit, "
        "disabled) x poison on excluded events x 2..5 analysis queries; a case "
        "is non-trivial when filtering is enabled, the filter excludes >= 1 "
        "poisoned event and selects >= 6 events; distinct = sha1 of the "
        "canonical JSON spec")
BUDGET = {"quick": 3200, "thorough": 48000}
#: blunt defects fail dozens of sub-checks; 3 find-and-shrink rounds per shard
#: are enough to name them and keep a failing run inside the time limit
MAX_ROUNDS = 3
TIMEOUT = {"quick": 1500}
ESSENTIAL = ["poisoned-excluded", "sel:6+", "sel:0", "sel:1-5",
             "filter:box", "filter:manual", "filter:invalid", "filter:limit",
             "filters-disabled", "fmt:hdf5", "selected-has-nonfinite",
             "q:scatter:histogram", "q:scatter:gauss", "q:scatter:multivariate",
             "q:contour:histogram", "q:contour:gauss", "q:contour:multivariate",
             "scale:log", "pos:explicit", "q:quantile", "q:contourlines",
             "q:downsample", "q:tsv", "ref:histogram", "ref:gauss",
             "ref:multivariate"]
ASSUMPTIONS = [
    "trusted base: numpy (histogram2d, percentile, log), scipy "
    "RectBivariateSpline, python float formatting; dclab.new_dataset on a "
    "dict, config['filtering'], filter.manual/apply_filter and "
    "definitions.get_feature_label are used to set up cases",
    "the selected events are computed by a stateless model of manual & box & "
    "remove-invalid (asserted against ds.filter.all); with 'limit events' the "
    "observed ds.filter.all is taken (must be a subset of the model of the "
    "right size)",
    "the memo cache (dclab.cached.Cache) is emptied before every dclab call so "
    "that each value is computed, not looked up (cache keys are C17's subject)",
    "reference estimators are skipped (counted) where the estimator is "
    "numerically or mathematically undefined: < 3 valid events, zero range, "
    "|correlation| ~ 1 for the Gaussian kernel, Doane bin number within 1e-6 "
    "of a rounding boundary",
    "finite values of selected events are bounded by 1e6 in magnitude and are "
    "0 or >= 1e-4 in magnitude (+-1e300 only as poison on excluded events)"]

FEATS = [["area_um", "deform", "bright_avg"],
         ["fl1_max", "fl2_max", "pos_x"],
         ["size_x", "aspect", "time"],
         ["userdef1", "userdef2", "userdef3"],
         ["pos_y", "area_cvx", "fl3_width"]]
DISTS = ["clustered", "clustered", "uniform", "ties", "ties", "lognormal",
         "signed", "nonpos", "ints"]
KDES = ["histogram", "gauss", "multivariate"]
METHODS = ["Mean", "Median", "Mode", "SD", "Events", "%-gated", "Flow rate"]
POISON = ["nan", "inf", "-inf", "1e300", "-1e300", "far", "near"]

# --------------------------------------------------------------- strategies

_seed = st.integers(0, 2**31 - 1)
_scale = st.sampled_from(["linear", "linear", "linear", "log"])


@st.composite
def st_data(draw, nmax=700):
    kind = draw(st.sampled_from(["explicit", "small", "medium", "medium",
                                 "medium", "medium", "medium", "large"]))
    if kind == "explicit":
        n = draw(st.integers(1, 9))
        # 4 decimals: no subnormal / 1e-300 magnitudes among the events
        el = st.one_of(st_float(0, -50, 300).map(lambda v: round(v, 4)),
                       st.integers(0, 12).map(lambda i: i / 4),
                       st.sampled_from([float("nan"), float("inf"),
                                        float("-inf"), -0.0, 0.0]))
        return {"kind": "explicit",
                "x": draw(st.lists(el, min_size=n, max_size=n)),
                "y": draw(st.lists(el, min_size=n, max_size=n)),
                "z": draw(st.lists(st.integers(0, 20).map(float),
                                   min_size=n, max_size=n))}
    n = {"small": st.integers(1, 14), "medium": st.integers(15, 260),
         "large": st.integers(261, nmax)}[kind]
    return {"kind": "recipe", "n": draw(n), "seed": draw(_seed),
            "dist": draw(st.sampled_from(DISTS)),
            "nanfrac": draw(st.sampled_from([0.0, 0.0, 0.05, 0.2])),
            "idtype": draw(st.sampled_from(["int64", "uint32"]))}


@st.composite
def st_filter(draw):
    manual = draw(st.one_of(
        st.just({"kind": "all"}),
        st.fixed_dictionaries({"kind": st.just("rand"), "seed": _seed,
                               "p": st.sampled_from([0.0, 0.1, 0.4, 0.6, 0.8, 0.8,
                                                     0.95])}),
        st.fixed_dictionaries({"kind": st.just("bits"),
                               "bits": st.lists(st.booleans(), min_size=1,
                                                max_size=12)})))
    box = None
    if draw(st.sampled_from([True, True, False])):
        lo = draw(st.sampled_from([-0.1, 0.0, 0.1, 0.25, 0.4]))
        wd = draw(st.sampled_from([0.05, 0.4, 0.6, 0.75, 0.9, 1.2]))
        box = {"feat": draw(st.sampled_from([0, 1, 2, 2])), "lo": lo,
               "hi": lo + wd}
    return {"manual": manual, "box": box,
            "invalid": draw(st.sampled_from([False, False, True])),
            "limit": draw(st.sampled_from([0, 0, 0, 0, 0, 0, 1, 7, 40, 40])),
            "enable": draw(st.sampled_from([True] * 7 + [False]))}


@st.composite
def st_query(draw):
    kind = draw(st.sampled_from(["scatter", "scatter", "scatter", "contour",
                                 "contour", "downsample", "tsv"]))
    if kind == "scatter":
        pos = draw(st.one_of(
            st.just({"kind": "own"}), st.just({"kind": "own"}),
            st.just({"kind": "sel"}),
            st.fixed_dictionaries({
                "kind": st.just("rand"), "seed": _seed,
                "m": st.sampled_from([1, 2, 3, 5, 17, 64]),
                "as_array": st.booleans()})))
        return {"q": "scatter", "kde": draw(st.sampled_from(KDES)),
                "xs": draw(_scale), "ys": draw(_scale), "pos": pos}
    if kind == "contour":
        acc = draw(st.one_of(
            st.none(), st.none(),
            st.lists(st.sampled_from([0.61, 0.37, 0.13, 0.07]), min_size=2,
                     max_size=2)))
        return {"q": "contour", "kde": draw(st.sampled_from(KDES)),
                "xs": draw(_scale), "ys": draw(_scale), "acc": acc,
                "quant": draw(st.lists(
                    st.sampled_from([0.05, 0.1, 0.25, 0.5, 0.75, 0.9, 0.95]),
                    min_size=1, max_size=3)),
                "normalize": draw(st.booleans()),
                "level": draw(st.sampled_from([0.2, 0.5, 0.8])),
                "closed": draw(st.booleans())}
    if kind == "downsample":
        return {"q": "downsample",
                "k": draw(st.one_of(
                    st.sampled_from(["0", "1", "half", "n-1", "n", "n+1", "2n"]),
                    st.integers(1, 300))),
                "xs": draw(_scale), "ys": draw(_scale),
                "rminv": draw(st.booleans())}
    return {"q": "tsv", "filtered": draw(st.sampled_from([True, True, False])),
            "feats": draw(st.lists(st.integers(0, 2), min_size=1, max_size=3,
                                   unique=True))}


@st.composite
def st_spec(draw, nmax=700):
    return {
        "fmt": draw(st.sampled_from(["dict", "dict", "dict", "hdf5"])),
        "feats": draw(st.integers(0, len(FEATS) - 1)),
        "data": draw(st_data(nmax)),
        "filter": draw(st_filter()),
        "poison": {"seed": draw(_seed),
                   "frac": draw(st.sampled_from([0.0, 0.3, 0.6, 1.0, 1.0, 1.0])),
                   "kinds": draw(st.lists(st.sampled_from(POISON), min_size=1,
                                          max_size=4, unique=True))},
        "stats": {"methods": draw(st.one_of(
            st.none(), st.lists(st.sampled_from(METHODS), min_size=1,
                                max_size=7, unique=True))),
            "feats": draw(st.lists(st.integers(0, 2), min_size=1, max_size=3,
                                   unique=True))},
        "queries": draw(st.lists(st_query(), min_size=2, max_size=5)),
    }


def strategy(tier):
    # the O(n * positions) python loops of the multivariate estimator bound n
    return st_spec(700 if tier == "quick" else 3000)


def sample_view(spec):
    s = dict(spec)
    d = dict(s["data"])
    for k in ("x", "y", "z"):
        if k in d and len(d[k]) > 6:
            d[k] = d[k][:6] + ["..."]
    s["data"] = d
    return s


# ------------------------------------------------------------ data expansion

def expand_data(d):
    """-> x, y, z (1d arrays), tie-heavy flag"""
    if d["kind"] == "explicit":
        return (np.array(d["x"], dtype=float), np.array(d["y"], dtype=float),
                np.array(d["z"], dtype=float), False)
    n = int(d["n"])
    r = np.random.default_rng(int(d["seed"]))
    dist = d["dist"]
    pick = r.random(n) < 0.6
    if dist == "clustered":
        x = np.where(pick, r.normal(100, 15, n), r.normal(170, 9, n))
        y = np.abs(np.where(pick, r.normal(0.08, 0.02, n),
                            r.normal(0.16, 0.03, n)))
    elif dist == "uniform":
        x = r.uniform(10, 200, n)
        y = r.uniform(0.001, 0.3, n)
    elif dist == "ties":
        x = np.round(r.normal(100, 12, n) / 4) * 4
        y = np.round(r.uniform(0, 0.3, n) * 20) / 20
    elif dist == "lognormal":
        x = np.exp(r.normal(3, 1, n))
        y = np.exp(r.normal(-3, 0.7, n))
    elif dist == "signed":
        x = r.normal(0, 5, n)
        y = r.normal(1, 2, n)
    elif dist == "nonpos":
        x = -np.abs(r.integers(0, 7, n)) / 2.0
        y = r.uniform(0.01, 0.2, n)
    elif dist == "ints":
        x = r.integers(0, 40, n)
        y = r.integers(1, 2000, n)
    else:
        raise ValueError(dist)
    z = r.normal(50, 10, n)
    if dist == "ints":
        return x.astype(np.int64), y.astype(np.int64), z, True
    nf = float(d.get("nanfrac", 0))
    if nf:
        for arr in (x, y):
            idx = np.flatnonzero(r.random(n) < nf)
            arr[idx] = r.choice([np.nan, np.nan, np.inf, -np.inf], size=idx.size)
    return x, y, z, dist in ("ties", "nonpos")


def _frange(a):
    a = np.asarray(a, dtype=float)
    f = a[np.isfinite(a)]
    f = f[np.abs(f) < 1e200]
    if f.size == 0:
        return 0.0, 1.0
    return float(f.min()), float(f.max())


def manual_mask(m, n):
    if m["kind"] == "all":
        return np.ones(n, dtype=bool)
    if m["kind"] == "rand":
        r = np.random.default_rng(int(m["seed"]))
        return r.random(n) < float(m["p"])
    bits = m["bits"]
    return np.array([bool(bits[i % len(bits)]) for i in range(n)], dtype=bool)


def box_limits(box, arrs):
    lo, hi = _frange(arrs[box["feat"]])
    rg = (hi - lo) or 1.0
    return lo + box["lo"] * rg, lo + box["hi"] * rg


def box_mask(data, lo, hi):
    data = np.asarray(data, dtype=float)
    with np.errstate(invalid="ignore"):
        return (~np.isnan(data)) & (lo <= data) & (data <= hi)


def apply_poison(p, arrs, targets, nf_targets, big=True):
    """write poison onto x / y of the target events; returns poisoned flags"""
    x, y = arrs[0], arrs[1]
    n = x.size
    r = np.random.default_rng(int(p["seed"]))
    flags = np.zeros(n, dtype=bool)
    isint = x.dtype.kind == "i"
    vals = {}
    for k, a in (("x", x), ("y", y)):
        lo, hi = _frange(a)
        rg = (hi - lo) or 1.0
        vals[k] = {"nan": np.nan, "inf": np.inf, "-inf": -np.inf,
                   "1e300": 1e300, "-1e300": -1e300,
                   "far": hi + 10 * rg, "near": lo - rg}
        if isint:
            # must fit uint32 (the writer stores fl?_max as uint32)
            vals[k] = {"nan": 4000000000, "inf": 4100000000, "-inf": 0,
                       "1e300": 4200000000, "-1e300": 1,
                       "far": int(hi + 10 * rg), "near": max(int(lo - rg), 0)}
    kinds = list(p["kinds"])
    if not big:
        # every event may end up selected: keep finite values moderate
        kinds = [{"1e300": "far", "-1e300": "near"}.get(k, k) for k in kinds]
        if isint:
            kinds = [{"nan": "far", "inf": "far", "-inf": "near"}.get(k, k)
                     for k in kinds]
    hit = r.random(n) < float(p["frac"])
    which = r.integers(0, 3, n)       # 0: x, 1: y, 2: both
    kidx = r.integers(0, len(kinds), n)
    nfk = [k for k in kinds if k in ("nan", "inf", "-inf")] or ["nan"]
    nfidx = r.integers(0, len(nfk), n)
    for i in range(n):
        if targets[i] and hit[i]:
            k = kinds[kidx[i]]
        elif nf_targets[i] and hit[i] and not isint:
            k = nfk[nfidx[i]]
        else:
            continue
        flags[i] = True
        if which[i] in (0, 2):
            x[i] = vals["x"][k]
        if which[i] in (1, 2):
            y[i] = vals["y"][k]
    return flags


# ------------------------------------------------------- reference estimators

def _finite(a):
    a = np.asarray(a, dtype=float)
    return ~(np.isnan(a) | np.isinf(a))


def scale_arr(a, scale):
    a = np.asarray(a, dtype=float)
    if scale == "log":
        with np.errstate(all="ignore"):
            return np.log(a)
    return a


def doane_k(a):
    """Doane's k = 1 + log2 n + log2(1 + |g1| / sigma_g1) for finite data `a`;
    None if undefined / numerically ambiguous"""
    n = a.size
    if n < 3:
        return None
    mean = math.fsum(a) / n
    dv = a - mean
    m2 = math.fsum(dv * dv) / n
    m3 = math.fsum(dv * dv * dv) / n
    if not m2 > (1e-6 * max(abs(mean), 1e-300)) ** 2:
        return None
    g1 = m3 / m2 ** 1.5
    sg = math.sqrt(6.0 * (n - 2) / ((n + 1.0) * (n + 3.0)))
    return 1 + math.log2(n) + math.log2(1 + abs(g1) / sg)


def doane_width(a):
    k = doane_k(a)
    if k is None:
        return None
    return float(a.max() - a.min()) / k


def doane_bins(a):
    """number of histogram bins max(5, Doane); None if ambiguous"""
    if a.size < 3 or a.max() == a.min():
        return 5
    k = doane_k(a)
    if k is None:
        return None
    rg = float(a.max() - a.min())
    num = rg / (rg / k)
    if abs((num % 1.0) - 0.5) < 1e-6:
        return None
    return max(5, int(np.round(num)))


def ref_histogram(ex, ey, px, py):
    bx, by = doane_bins(ex), doane_bins(ey)
    if bx is None or by is None:
        return None, "doane-ambiguous"
    hist, xe, ye = np.histogram2d(ex, ey, bins=(bx, by), density=True)
    xc = (xe[:-1] + xe[1:]) / 2
    yc = (ye[:-1] + ye[1:]) / 2
    spl = RectBivariateSpline(xc, yc, hist)
    d = spl.ev(px, py)
    d[d < 0] = 0
    return d, float(hist.max())


def ref_gauss(ex, ey, px, py):
    n = ex.size
    if n < 3:
        return None, "gauss-n<3"
    mx, my = math.fsum(ex) / n, math.fsum(ey) / n
    dx, dy = ex - mx, ey - my
    sxx = math.fsum(dx * dx) / (n - 1)
    syy = math.fsum(dy * dy) / (n - 1)
    sxy = math.fsum(dx * dy) / (n - 1)
    if not (sxx > 0 and syy > 0):
        return None, "gauss-zero-variance"
    if (sxx <= (1e-6 * max(abs(mx), 1e-300)) ** 2
            or syy <= (1e-6 * max(abs(my), 1e-300)) ** 2):
        return None, "gauss-tiny-variance"
    rho2 = sxy * sxy / (sxx * syy)
    if 1 - rho2 < 1e-6:
        return None, "gauss-collinear"
    f2 = float(n) ** (-1.0 / 3.0)            # Scott factor squared, d = 2
    a, b, c = sxx * f2, sxy * f2, syy * f2
    det = a * c - b * b
    ia, ib, ic = c / det, -b / det, a / det
    norm = 1.0 / (2 * math.pi * math.sqrt(det) * n)
    out = np.empty(px.size)
    step = max(1, int(2e6 // max(n, 1)))
    for s in range(0, px.size, step):
        ux = px[s:s + step, None] - ex[None, :]
        uy = py[s:s + step, None] - ey[None, :]
        e = ia * ux * ux + 2 * ib * ux * uy + ic * uy * uy
        out[s:s + step] = np.exp(-0.5 * e).sum(axis=1) * norm
    return out, norm


def ref_multivariate(ex, ey, px, py):
    n = ex.size
    if n < 3:
        return None, "multivariate-n<3"
    wx, wy = doane_width(ex), doane_width(ey)
    if wx is None or wy is None or not (wx > 0 and wy > 0):
        return None, "multivariate-no-bandwidth"
    hx, hy = wx / 2, wy / 2
    out = np.empty(px.size)
    step = max(1, int(2e6 // max(n, 1)))
    for s in range(0, px.size, step):
        ux = (px[s:s + step, None] - ex[None, :]) / hx
        uy = (py[s:s + step, None] - ey[None, :]) / hy
        out[s:s + step] = np.exp(-0.5 * (ux * ux + uy * uy)).sum(axis=1)
    norm = 1.0 / (2 * math.pi * n * hx * hy)
    return out * norm, norm


#: calibration aid: worst deviation / tolerance seen per estimator (this process)
_DEV = {}

REFS = {"histogram": ref_histogram, "gauss": ref_gauss,
        "multivariate": ref_multivariate}


def ref_density(kde, exs, eys, pxs, pys):
    """reference density at (pxs, pys) (already scaled; any shape) from the
    scaled events -> (array with NaN at invalid positions | None, why | scale
    of the estimator (for the absolute tolerance), number of valid positions)"""
    exs = np.asarray(exs, dtype=float).ravel()
    eys = np.asarray(eys, dtype=float).ravel()
    good = _finite(exs) & _finite(eys)
    ex, ey = exs[good], eys[good]
    shape = np.shape(pxs)
    px = np.asarray(pxs, dtype=float).ravel()
    py = np.asarray(pys, dtype=float).ravel()
    pgood = _finite(px) & _finite(py)
    npos = int(pgood.sum())
    if ex.size == 0:
        return None, "no-valid-events", npos
    out = np.full(px.size, np.nan)
    scale = 0.0
    if npos:
        d, why = REFS[kde](ex, ey, px[pgood], py[pgood])
        if d is None:
            return None, why, npos
        out[pgood] = d
        scale = why
    return out.reshape(shape), scale, npos


def close_density(got, ref, scale):
    """-> (ok, worst deviation in units of the tolerance
    1e-9 * |ref| + 1e-12 * max(|ref|, scale of the estimator))"""
    got = np.asarray(got, dtype=float)
    ref = np.asarray(ref, dtype=float)
    if got.shape != ref.shape:
        return False, float("inf")
    nr, ng = np.isnan(ref), np.isnan(got)
    if not np.array_equal(nr, ng):
        return False, float("inf")
    if nr.all():
        return True, 0.0
    r, g = ref[~nr], got[~nr]
    if not np.all(np.isfinite(g)):
        return False, float("inf")
    tol = 1e-9 * np.abs(r) + 1e-12 * max(float(np.max(np.abs(r))), scale)
    tol = np.maximum(tol, 1e-300)
    dev = float(np.max(np.abs(g - r) / tol))
    return dev <= 1.0, dev


def same_result(a, b, rtol=1e-11):
    """A == B for (tuples of) arrays / floats; densities may differ by
    rounding noise only (identical inputs, identical code)"""
    if isinstance(a, (tuple, list)):
        return (isinstance(b, (tuple, list)) and len(a) == len(b)
                and all(same_result(u, v, rtol) for u, v in zip(a, b)))
    a, b = np.asarray(a), np.asarray(b)
    if a.shape != b.shape:
        return False
    if a.dtype.kind == "b" or b.dtype.kind == "b":
        return bool(np.array_equal(a, b))
    a = a.astype(float)
    b = b.astype(float)
    if np.array_equal(a, b, equal_nan=True):
        return True
    if rtol == 0:
        return False
    na, nb = np.isnan(a), np.isnan(b)
    if not np.array_equal(na, nb):
        return False
    fa, fb = a[~na], b[~na]
    inf = np.isinf(fa) | np.isinf(fb)
    if not np.array_equal(fa[inf], fb[inf]):
        return False
    fa, fb = fa[~inf], fb[~inf]
    if fa.size == 0:
        return True
    sc = float(np.max(np.abs(fa)))
    return bool(np.all(np.abs(fa - fb) <= rtol * np.abs(fa) + 1e-3 * rtol * sc))


def bilinear(xg, yg, z, px, py):
    """bilinear interpolation on the rectilinear grid (xg, yg ascending);
    -> values, outside flags, near-border flags (numerically ambiguous)"""
    px = np.asarray(px, dtype=float)
    py = np.asarray(py, dtype=float)
    out = np.zeros(px.size)
    outside = (px < xg[0]) | (px > xg[-1]) | (py < yg[0]) | (py > yg[-1])
    amb = np.zeros(px.size, dtype=bool)
    for p, g in ((px, xg), (py, yg)):
        for bound in (g[0], g[-1]):
            amb |= (p != bound) & (np.abs(p - bound)
                                   <= 1e-11 * max(abs(bound), 1e-300))
    i = np.clip(np.searchsorted(xg, px, side="right") - 1, 0, xg.size - 2)
    j = np.clip(np.searchsorted(yg, py, side="right") - 1, 0, yg.size - 2)
    t = (px - xg[i]) / (xg[i + 1] - xg[i])
    u = (py - yg[j]) / (yg[j + 1] - yg[j])
    val = ((1 - t) * (1 - u) * z[i, j] + t * (1 - u) * z[i + 1, j]
           + (1 - t) * u * z[i, j + 1] + t * u * z[i + 1, j + 1])
    out[~outside] = val[~outside]
    return out, outside, amb


# ------------------------------------------------------------- the interpreter

def _call(fn):
    """-> ('ok', value) | ('exc', TypeName, message); cache emptied first"""
    Cache._cache = {}
    Cache._keys = []
    try:
        return ("ok", fn())
    except Exception as e:  # noqa  (dclab raising is compared, not trusted)
        return ("exc", type(e).__name__, f"{type(e).__name__}: {e}"[:300])


def _scl(q):
    return "log" if "log" in (q["xs"], q["ys"]) else "lin"


class Ctx:
    pass


def run_case(spec, rec):
    d = boot.casedir()
    try:
        _run(spec, rec, d)
    finally:
        boot.rmcase(d)


UINT_FEATS = ("fl1_max", "fl2_max")     # stored as uint32 by RTDCWriter


def _open(fmt, arrs, names, d):
    data = {nm: a for nm, a in zip(names, arrs)}
    if fmt == "hdf5":
        p = d / "A.rtdc"
        m = meta()
        m["experiment"]["event count"] = int(arrs[0].size)
        with RTDCWriter(p) as hw:
            hw.store_metadata(m)
            for nm in names:
                hw.store_feature(nm, data[nm])
        return dclab.new_dataset(p)
    return dclab.new_dataset(data)


def _run(spec, rec, d):
    names = FEATS[spec["feats"]]
    x, y, z, ties = expand_data(spec["data"])
    x, y, z = x.copy(), y.copy(), z.copy()
    n = x.size
    arrs = [x, y, z]
    flt = spec["filter"]
    enable = bool(flt["enable"])
    manual = manual_mask(flt["manual"], n)
    box = flt["box"]
    lim = None
    pre_excl = ~manual
    if box is not None:
        lim = box_limits(box, arrs)
        if not lim[0] < lim[1]:
            box, lim = None, None
        elif box["feat"] == 2:
            pre_excl = pre_excl | ~box_mask(z, *lim)
    nf_targets = np.zeros(n, dtype=bool)
    if flt["invalid"]:
        r = np.random.default_rng(int(spec["poison"]["seed"]) + 1)
        nf_targets = r.random(n) < 0.3
    poisoned = apply_poison(spec["poison"], arrs, pre_excl,
                            nf_targets & ~pre_excl, big=enable)

    fmt = spec["fmt"]
    isint = x.dtype.kind == "i"
    if isint and spec["data"].get("idtype") == "uint32":
        arrs[0], arrs[1] = x.astype(np.uint32), y.astype(np.uint32)
    if fmt == "hdf5" and not isint and any(nm in UINT_FEATS for nm in names):
        fmt = "dict"    # float data (NaN, negative) cannot be stored as uint32
    rec.cls(f"fmt:{fmt}")
    A = _open(fmt, arrs, names, d)
    try:
        # the data under test are what the dataset holds
        held = [np.array(A[nm][:]) for nm in names]
        for a, h in zip(arrs, held):
            if not np.array_equal(a.astype(float), h.astype(float), equal_nan=True):
                raise RuntimeError("harness: dataset does not hold the generated data")
        arrs = held
        x, y, z = arrs
        unsigned = x.dtype.kind == "u" and y.dtype.kind == "u"
        if unsigned:
            rec.cls("dtype:unsigned-pair")
        elif x.dtype.kind in "iu":
            rec.cls("dtype:int")
        # ---- configure the filter
        cfg = A.config["filtering"]
        A.filter.manual[:] = manual
        if box is not None:
            cfg[names[box["feat"]] + " min"] = lim[0]
            cfg[names[box["feat"]] + " max"] = lim[1]
        cfg["remove invalid events"] = bool(flt["invalid"])
        cfg["limit events"] = int(flt["limit"])
        cfg["enable filters"] = enable
        A.apply_filter()
        # ---- model of the selection
        model = manual.copy()
        if box is not None:
            model &= box_mask(arrs[box["feat"]], *lim)
        if flt["invalid"]:
            for ft in A.features_scalar:
                model &= _finite(A[ft][:])
        got_all = np.array(A.filter.all, dtype=bool)
        if not enable:
            sel = np.ones(n, dtype=bool)
            rec.check(bool(got_all.all()), "filter/disabled-selects-all",
                      "filters disabled but ds.filter.all has False entries")
            rec.cls("filters-disabled")
        elif flt["limit"] > 0 and model.sum() > flt["limit"]:
            sel = got_all
            ok = bool(np.all(model[sel])) and int(sel.sum()) == flt["limit"]
            rec.check(ok, "filter/limit-events",
                      lambda: f"limit {flt['limit']}: {int(sel.sum())} selected, "
                              f"subset of model: {bool(np.all(model[sel]))}")
            rec.cls("filter:limit")
        else:
            sel = model
            rec.check(bool(np.array_equal(got_all, model)), "filter/model",
                      lambda: f"ds.filter.all {got_all[:20].tolist()} != model "
                              f"{model[:20].tolist()}")
        nsel = int(sel.sum())
        # ---- classes
        rec.cls("sel:0" if nsel == 0 else "sel:1-5" if nsel < 6 else "sel:6+")
        npe = int((poisoned & ~sel).sum())
        if enable:
            if not manual.all():
                rec.cls("filter:manual")
            if box is not None:
                rec.cls("filter:box")
            if flt["invalid"]:
                rec.cls("filter:invalid")
            if npe:
                rec.cls("poisoned-excluded")
            if npe and nsel >= 6:
                rec.nontrivial()
        if ties:
            rec.cls("ties")
        xsel, ysel, zsel = x[sel], y[sel], z[sel]
        if nsel and not (_finite(xsel) & _finite(ysel)).all():
            rec.cls("selected-has-nonfinite")
        if n > 260:
            rec.cls("n>260")

        B = dclab.new_dataset({names[0]: xsel, names[1]: ysel, names[2]: zsel})
        B.apply_filter()
        c = Ctx()
        c.rec, c.A, c.B, c.names, c.sel, c.nsel, c.n = rec, A, B, names, sel, nsel, n
        c.arrs, c.selarrs, c.enable, c.dir = arrs, [xsel, ysel, zsel], enable, d
        c.fmt, c.unsigned = fmt, unsigned
        q_stats(c, spec["stats"])
        for k, q in enumerate(spec["queries"]):
            c.k = k
            {"scatter": q_scatter, "contour": q_contour,
             "downsample": q_downsample, "tsv": q_tsv}[q["q"]](c, q)
        huge = any(np.abs(np.asarray(a_, dtype=float)[_finite(a_)]).max(initial=0.0)
                   > 1e100 for a_ in (x, y, z))
        if enable and not sel.all() and huge:
            rec.skip("disabled-without-reapply:huge-poison-values-overflow-SD")
        if enable and not sel.all() and not huge:
            # "with filtering disabled all events are used": switch the filters
            # off *without* re-applying them (filter.all is stale) - statistics
            # must be those of the dataset holding all events
            rec.cls("disabled-without-reapply")
            A.config["filtering"]["enable filters"] = False
            allsel = np.ones(n, dtype=bool)
            Bf = dclab.new_dataset({names[0]: x, names[1]: y, names[2]: z})
            Bf.apply_filter()
            c2 = Ctx()
            c2.rec, c2.A, c2.B, c2.names, c2.sel, c2.nsel, c2.n = \
                rec, A, Bf, names, allsel, n, n
            c2.arrs, c2.selarrs, c2.enable, c2.dir = arrs, [x, y, z], False, d
            c2.fmt, c2.unsigned = fmt, unsigned
            # only the statistics of feature values: 'Events' and '%-gated'
            # describe the (stale, not re-applied) filter array itself
            s2 = dict(spec["stats"])
            m2 = [m for m in (s2["methods"] or []) if m in
                  ("Mean", "Median", "Mode", "SD")] or ["Mean", "Median", "SD"]
            s2["methods"] = m2
            q_stats(c2, s2)
    finally:
        A.close()


def _doane_width(v):
    """Doane's formula (bin width) on finite values, transcribed from the reference
    given in dclab's documentation"""
    v = np.asarray(v, dtype=float)
    n = v.size
    if n < 3:
        return float("nan")
    m = v.mean()
    s2 = np.mean((v - m) ** 2)
    if not s2 > 0:
        return float("nan")
    g1 = np.mean((v - m) ** 3) / s2 ** 1.5
    sg = math.sqrt(6 * (n - 2) / ((n + 1) * (n + 3)))
    k = 1 + math.log2(n) + math.log2(1 + abs(g1) / sg)
    return float(v.max() - v.min()) / k


def degenerate(exs, eys):
    """KDE input for which raising is accepted (the estimators / the grid are
    undefined): < 3 valid events (jointly or per axis) or a zero range"""
    exs = np.asarray(exs, dtype=float)
    eys = np.asarray(eys, dtype=float)
    fx, fy = _finite(exs), _finite(eys)
    good = fx & fy
    if good.sum() < 3 or fx.sum() < 3 or fy.sum() < 3:
        return True
    for a in (exs[good], eys[good], exs[fx], eys[fy]):
        if a.max() == a.min():
            return True
    return False


def both(c, fa, fb, sig, rtol=1e-11, may_raise=True):
    """evaluate on A and B; -> values (or None, None if one raised)"""
    ra = _call(fa)
    rb = _call(fb)
    if ra[0] == "exc" or rb[0] == "exc":
        if ra[0] == rb[0]:
            ok = ra[1] == rb[1]
            c.rec.check(ok, f"meta/{sig}/exception-class",
                        lambda: f"filtered: {ra[2]} | selected-only: {rb[2]}")
            if ok:
                c.rec.skip(f"both-raise:{sig.split('/')[0]}:{ra[1]}")
                c.rec.check(may_raise, f"def/{sig}/raises-on-regular-input",
                            lambda: f"{ra[2]} (>= 3 valid selected events, "
                                    f"non-zero ranges)")
        else:
            c.rec.check(False, f"meta/{sig}/raises-on-one-side",
                        lambda: f"filtered: {ra[1:]} | selected-only: {rb[1:]}"[:900])
        return (None, None)
    ok = same_result(ra[1], rb[1], rtol)
    c.rec.check(ok, f"meta/{sig}", lambda: _diffmsg(ra[1], rb[1]))
    return ra[1], rb[1]


def _diffmsg(a, b):
    def s(v):
        if isinstance(v, (tuple, list)):
            return "(" + ", ".join(s(u) for u in v) + ")"
        v = np.asarray(v)
        return f"shape{v.shape}:{v.ravel()[:8].tolist()}"
    return f"filtered dataset gives {s(a)}; selected-only dataset gives {s(b)}"[:1200]


# ---- statistics

def _mode_ok(vals, got):
    """`got` must be the centre of a most-populated Freedman-Diaconis bin"""
    nv = vals.size
    iqr = np.percentile(vals, 75) - np.percentile(vals, 25)
    bs = 2 * iqr / nv ** (1 / 3)
    if bs == 0:
        return np.isnan(got), "NaN (bin size 0)"
    if not np.isfinite(got):
        return False, f"a bin centre (bin size {bs!r})"
    pos = vals / bs
    k = np.round((got - bs / 2) / bs)
    if abs((k * bs + bs / 2) - got) > 1e-9 * max(abs(got), bs):
        return False, f"k*{bs!r}+{bs / 2!r} for an integer k"
    eps = 1e-9 * max(1.0, float(np.max(np.abs(pos))))
    loose = int(np.sum(np.abs(pos - k) <= 0.5 + eps))
    kk = np.round(pos)
    best = 0
    for cand in np.unique(kk):
        best = max(best, int(np.sum(np.abs(pos - cand) < 0.5 - eps)))
    return loose >= best, f"centre of a bin holding >= {best} values (holds {loose})"


def q_stats(c, s):
    rec = c.rec
    feats = [c.names[i] for i in s["feats"]]
    methods = s["methods"]
    ra = _call(lambda: statistics.get_statistics(c.A, methods=methods,
                                                 features=feats))
    rb = _call(lambda: statistics.get_statistics(c.B, methods=methods,
                                                 features=feats))
    if ra[0] == "exc" or rb[0] == "exc":
        rec.check(False, "def/stats/raises",
                  lambda: f"get_statistics raised: {ra[1:]} / {rb[1:]}"[:800])
        return
    (ha, va), (hb, vb) = ra[1], rb[1]
    mlist = methods if methods is not None else \
        ["Events", "%-gated", "Flow rate", "Mean", "Median", "Mode", "SD"]
    nofeat = [m for m in mlist if m in ("Events", "%-gated", "Flow rate")]
    wfeat = [m for m in mlist if m not in nofeat]
    exp_head = list(nofeat)
    for ft in feats:
        for m in wfeat:
            exp_head.append(f"{m} {dfn.get_feature_label(ft)}")
    if not rec.check(list(ha) == exp_head and len(va) == len(ha),
                     "def/stats/header",
                     lambda: f"header {ha} expected {exp_head}"):
        return
    flow = c.A.config["setup"].get("flow rate", np.nan) \
        if "flow rate" in c.A.config["setup"] else np.nan
    pos = 0
    for m in nofeat:
        got = float(va[pos])
        if m == "Events":
            exp = float(c.nsel)
        elif m == "%-gated":
            exp = 100.0 * c.nsel / c.n
        else:
            exp = float(flow)
        ok = (np.isnan(exp) and np.isnan(got)) or abs(got - exp) <= 1e-9 * abs(exp)
        rec.check(ok, f"def/stats/{m}/{_selcls(c)}",
                  lambda: f"{m} = {got!r}, definition gives {exp!r} "
                          f"({c.nsel} of {c.n} events selected)")
        if m == "Events" and c.nsel:
            rec.check(float(vb[pos]) == got, "meta/stats/Events",
                      lambda: f"filtered {got!r} vs selected-only {vb[pos]!r}")
        pos += 1
    for fi, ft in zip(s["feats"], feats):
        full = np.asarray(c.selarrs[fi], dtype=float)
        vals = full[_finite(full)]
        nf = "with-nonfinite" if vals.size != full.size else "finite"
        sc = float(np.max(np.abs(vals))) if vals.size else 0.0
        for m in wfeat:
            got = float(va[pos])
            gotb = float(vb[pos])
            rec.check((np.isnan(got) and np.isnan(gotb))
                      or abs(got - gotb) <= 1e-13 * max(sc, abs(got)),
                      f"meta/stats/{m}/{nf}",
                      lambda: f"{m}({ft}) filtered dataset {got!r}, "
                              f"selected-only dataset {gotb!r}")
            if vals.size == 0:
                rec.check(np.isnan(got), f"def/stats/{m}/no-finite-values",
                          lambda: f"{m}({ft}) = {got!r} with no finite selected value")
            elif m == "Mode":
                ok, what = _mode_ok(vals, got)
                rec.check(ok, f"def/stats/Mode/{nf}",
                          lambda: f"Mode({ft}) = {got!r}; expected {what}; "
                                  f"values {vals[:10].tolist()}")
            else:
                mean = math.fsum(vals) / vals.size
                if m == "Mean":
                    exp = mean
                elif m == "Median":
                    sv = np.sort(vals)
                    h = vals.size // 2
                    exp = float(sv[h]) if vals.size % 2 else \
                        float((sv[h - 1] + sv[h]) / 2)
                else:
                    exp = math.sqrt(math.fsum((vals - mean) ** 2) / vals.size)
                rec.check(abs(got - exp) <= 1e-12 * sc + 1e-300,
                          f"def/stats/{m}/{nf}",
                          lambda: f"{m}({ft}) = {got!r}, definition on the "
                                  f"{vals.size} finite selected values gives "
                                  f"{exp!r}; values {vals[:10].tolist()}")
            pos += 1


def _selcls(c):
    if not c.enable:
        return "filters-disabled"
    return "none-selected" if c.nsel == 0 else "some-selected"


# ---- KDE scatter

def _positions(c, p):
    if p["kind"] == "own":
        return None
    if p["kind"] == "sel":
        return (np.array(c.selarrs[0], dtype=float),
                np.array(c.selarrs[1], dtype=float))
    r = np.random.default_rng(int(p["seed"]))
    m = int(p["m"])
    out = []
    for a in c.selarrs[:2]:
        lo, hi = _frange(a)
        rg = (hi - lo) or 1.0
        out.append(r.uniform(lo - 0.2 * rg, hi + 0.2 * rg, m))
    if p.get("as_array"):
        return np.array(out)
    return tuple(out)


def q_scatter(c, q):
    rec = c.rec
    kde = q["kde"]
    fx, fy = c.names[0], c.names[1]
    rec.cls(f"q:scatter:{kde}")
    if "log" in (q["xs"], q["ys"]):
        rec.cls("scale:log")
    pos = _positions(c, q["pos"])
    pk = "own" if pos is None else "explicit"
    if pos is not None:
        rec.cls("pos:explicit")
    kw = dict(xax=fx, yax=fy, kde_type=kde, xscale=q["xs"], yscale=q["ys"])
    exs = scale_arr(c.selarrs[0], q["xs"])
    eys = scale_arr(c.selarrs[1], q["ys"])
    da, db = both(c, lambda: c.A.get_kde_scatter(positions=pos, **kw),
                  lambda: c.B.get_kde_scatter(positions=pos, **kw),
                  f"scatter/{kde}/{pk}", may_raise=degenerate(exs, eys))
    if da is None:
        return
    if c.nsel == 0:
        rec.check(np.size(da) == 0, f"def/scatter/{kde}/none-selected",
                  lambda: f"no event selected but density has shape {np.shape(da)}")
        return
    if pos is None:
        pxs, pys = exs, eys
    else:
        pxs, pys = scale_arr(pos[0], q["xs"]), scale_arr(pos[1], q["ys"])
    ref, why, npos = ref_density(kde, exs, eys, pxs, pys)
    if ref is None:
        rec.skip(f"ref-skipped:{why}")
        return
    rec.cls(f"ref:{kde}")
    ok, dev = close_density(da, ref, why)
    _DEV[kde] = max(_DEV.get(kde, 0.0), dev if np.isfinite(dev) else 0.0)
    disc = f"{pk}/{_scl(q)}"
    if kde == "multivariate" and pos is not None and npos == 2:
        disc = "explicit/two-valid-positions"
    elif (kde == "multivariate" and pos is None and c.unsigned
          and q["xs"] == q["ys"] == "linear"):
        disc = "own/unsigned-int-features"
    rec.check(ok, f"ref/scatter/{kde}/{disc}",
              lambda: f"get_kde_scatter({kde}, xscale={q['xs']}, yscale={q['ys']}, "
                      f"positions={pk}) differs from the reference estimator on "
                      f"the {c.nsel} selected events (deviation {dev:.3g} x "
                      f"tolerance): got {np.ravel(da)[:6].tolist()} reference "
                      f"{np.ravel(ref)[:6].tolist()}")


# ---- KDE contour, quantile levels, contour lines

def q_contour(c, q):
    rec = c.rec
    kde = q["kde"]
    fx, fy = c.names[0], c.names[1]
    rec.cls(f"q:contour:{kde}")
    if "log" in (q["xs"], q["ys"]):
        rec.cls("scale:log")
    exs = scale_arr(c.selarrs[0], q["xs"])
    eys = scale_arr(c.selarrs[1], q["ys"])
    good = _finite(exs) & _finite(eys)
    ex, ey = exs[good], eys[good]
    acc = q["acc"]
    if acc is None and kde != "histogram" and ex.size > 400:
        acc = [0.09, 0.13]          # bound the cost of O(n * grid) estimators
    xacc = yacc = None
    if acc is not None and ex.size:
        rx, ry = float(ex.max() - ex.min()), float(ey.max() - ey.min())
        if rx > 0 and ry > 0:
            xacc, yacc = acc[0] * rx, acc[1] * ry
    ak = "default-acc" if xacc is None else "explicit-acc"
    kw = dict(xax=fx, yax=fy, xacc=xacc, yacc=yacc, kde_type=kde,
              xscale=q["xs"], yscale=q["ys"])
    ra, rb = both(c, lambda: c.A.get_kde_contour(**kw),
                  lambda: c.B.get_kde_contour(**kw), f"contour/{kde}/{ak}",
                  may_raise=degenerate(exs, eys))
    if ra is None:
        return
    X, Y, Z = (np.asarray(v) for v in ra)
    if ex.size == 0 or Z.ndim != 2 or Z.size == 0:
        rec.skip("contour-degenerate")
        return
    ok = (X.shape == Z.shape == Y.shape
          and bool(np.all(X == X[:, :1])) and bool(np.all(Y == Y[:1, :])))
    if not rec.check(ok, f"contour/grid/rectilinear/{_scl(q)}",
                     lambda: f"X {X.shape} Y {Y.shape} Z {Z.shape} not an ij grid"):
        return
    xg, yg = X[:, 0], Y[0, :]
    # span = valid selected events (in the plot's own coordinates)
    for nm, g, e, s in (("x", xg, ex, q["xs"]), ("y", yg, ey, q["ys"])):
        lo, hi = float(e.min()), float(e.max())
        if s == "log":
            lo, hi = math.exp(lo), math.exp(hi)
        tol = 1e-12 * max(abs(lo), abs(hi), 1e-300)
        # (a one-point axis - accuracy coarser than the range - starts at lo)
        rec.check(abs(g[0] - lo) <= tol
                  and (g.size < 2 or abs(g[-1] - hi) <= tol),
                  f"contour/grid/span/{s}",
                  lambda: f"{nm} grid spans [{g[0]!r}, {g[-1]!r}], valid selected "
                          f"events span [{lo!r}, {hi!r}]")
    if xacc is not None:
        for nm, g, e, a in (("x", xg, ex, xacc), ("y", yg, ey, yacc)):
            ratio = float(e.max() - e.min()) / a
            if abs(ratio - round(ratio)) < 1e-9:
                rec.skip("contour-num-ambiguous")
                continue
            rec.check(g.size == int(math.ceil(ratio)), "contour/grid/accuracy",
                      lambda: f"{nm}: {g.size} grid points for range/accuracy = "
                              f"{ratio!r}")
    if xacc is None:
        # documented default: a fifth of Doane's bin width of the valid selected
        # events (in the plot's scale)
        # (dclab takes the width from the events that are valid on that axis and the
        # range from the events valid on both - both are "finite selected events")
        for nm, g, e, ax in (("x", xg, ex, exs[_finite(exs)]),
                             ("y", yg, ey, eys[_finite(eys)])):
            a = _doane_width(ax) / 5
            rng_ = float(e.max() - e.min())
            if not (np.isfinite(a) and a > 0 and rng_ > 0):
                rec.skip("contour-default-accuracy-undefined")
                continue
            ratio = rng_ / a
            if abs(ratio - round(ratio)) < 1e-6 or ratio > 1e6:
                rec.skip("contour-num-ambiguous")
                continue
            rec.cls("contour:default-accuracy-checked")
            if e.size < exs.size:
                rec.cls("contour:default-accuracy-with-invalid-events")
            rec.check(g.size == int(math.ceil(ratio)), "contour/grid/default-accuracy",
                      lambda: f"{nm}: {g.size} grid points, Doane's width of the "
                              f"{ax.size} valid selected events / 5 gives "
                              f"{int(math.ceil(ratio))} (range/accuracy = {ratio!r})")
    if xg.size < 2 or yg.size < 2:
        rec.skip("contour-grid<2")
        return
    ref, why, _ = ref_density(kde, exs, eys, scale_arr(X, q["xs"]),
                              scale_arr(Y, q["ys"]))
    if ref is None:
        rec.skip(f"ref-skipped:{why}")
    else:
        rec.cls(f"ref:{kde}")
        ok, dev = close_density(Z, ref, why)
        _DEV[kde] = max(_DEV.get(kde, 0.0), dev if np.isfinite(dev) else 0.0)
        rec.check(ok, f"ref/contour/{kde}/{_scl(q)}",
                  lambda: f"get_kde_contour({kde}, xscale={q['xs']}, yscale="
                          f"{q['ys']}) differs from the reference estimator on "
                          f"the selected events (deviation {dev:.3g} x tolerance)"
                          f": got {Z.ravel()[:5].tolist()} reference "
                          f"{ref.ravel()[:5].tolist()}")
    if not np.all(np.isfinite(Z)) or not Z.max() > 0:
        rec.skip("density-not-finite-or-zero")
        return
    if not (np.all(np.diff(xg) > 0) and np.all(np.diff(yg) > 0)):
        rec.skip("grid-not-ascending")
        return
    for g in (xg, yg):
        if float(g[-1] - g[0]) < 1e-5 * float(np.max(np.abs(g))):
            # interpolation weights would lose > 5 digits
            rec.skip("grid-range-tiny-vs-magnitude")
            return
    _quantiles(c, q, xg, yg, X, Y, Z)
    _contour_lines(c, q, xg, yg, X, Y, Z)


def _quantiles(c, q, xg, yg, X, Y, Z):
    rec = c.rec
    rec.cls("q:quantile")
    xp = np.array(c.selarrs[0], dtype=float)
    yp = np.array(c.selarrs[1], dtype=float)
    good = _finite(xp) & _finite(yp)
    if not good.any():
        rec.skip("quantile-no-valid-event")
        return
    qs = [float(v) for v in q["quant"]]
    norm = bool(q["normalize"])
    arg_q = qs if len(qs) > 1 else qs[0]
    r = _call(lambda: kde_contours.get_quantile_levels(
        density=Z.copy(), x=X.copy(), y=Y.copy(), xp=xp.copy(), yp=yp.copy(),
        q=arg_q, normalize=norm))
    if r[0] == "exc":
        with np.errstate(all="ignore"):
            # the function normalises each axis by its maximum
            zero = not (np.all(np.isfinite(xg / xg.max()))
                        and np.all(np.isfinite(yg / yg.max())))
        rec.check(False, "quantile/raises/" +
                  ("axis-max-zero" if zero else r[1]),
                  lambda: f"get_quantile_levels raised {r[2]} (x grid max "
                          f"{xg.max()!r}, y grid max {yg.max()!r})")
        return
    lev = np.atleast_1d(np.asarray(r[1], dtype=float))
    if not rec.check(lev.shape == (len(qs),), "quantile/shape",
                     lambda: f"{len(qs)} quantiles, result {np.shape(r[1])}"):
        return
    dens, outside, amb = bilinear(xg, yg, Z, xp[good], yp[good])
    zmax = float(Z.max())
    if norm:
        dens = dens / zmax
    top = 1.0 if norm else zmax
    eps = 1e-9 * top
    nev = dens.size
    nk = "normalized" if norm else "raw"
    for qq, lv in zip(qs, lev):
        if not rec.check(np.isfinite(lv), f"quantile/finite/{nk}",
                         lambda: f"level for q={qq} is {lv!r}"):
            continue
        below = int(np.sum((dens < lv - eps) & ~amb))
        atmost = int(np.sum((dens <= lv + eps) | amb))
        ok = below / nev <= qq + 1.0 / nev + 1e-12 and \
            atmost / nev >= qq - 1.0 / nev - 1e-12
        rec.check(ok, f"quantile/fraction/{nk}",
                  lambda: f"q={qq}: level {lv!r} has {below}/{nev} events "
                          f"strictly below and {atmost}/{nev} at or below")


def _contour_lines(c, q, xg, yg, X, Y, Z):
    rec = c.rec
    rec.cls("q:contourlines")
    level = float(q["level"])
    closed = bool(q["closed"])
    r = _call(lambda: kde_contours.find_contours_level(
        Z.copy(), X.copy(), Y.copy(), level, closed=closed))
    ck = "closed" if closed else "open"
    if r[0] == "exc":
        rec.check(False, f"contourline/raises/{r[1]}", r[2])
        return
    target = level * float(Z.max())
    nchk = 0
    worst = 0.0
    for cc in r[1]:
        cc = np.asarray(cc, dtype=float)
        if cc.ndim != 2 or cc.shape[1] != 2:
            rec.check(False, f"contourline/shape/{ck}", f"contour shape {cc.shape}")
            return
        px, py = cc[:, 0], cc[:, 1]
        inner = np.ones(px.size, dtype=bool)
        if closed:
            # vertices in the zero padding are clamped onto the border
            inner = (px > xg[0]) & (px < xg[-1]) & (py > yg[0]) & (py < yg[-1])
        if not inner.any():
            continue
        d, outside, _ = bilinear(xg, yg, Z, px[inner], py[inner])
        if outside.any():
            rec.check(False, f"contourline/outside-grid/{ck}",
                      "contour vertex outside the density grid")
            return
        nchk += int(inner.sum())
        worst = max(worst, float(np.max(np.abs(d - target))))
    if nchk == 0:
        rec.skip("contourline-no-vertex")
        return
    _DEV["contourline"] = max(_DEV.get("contourline", 0.0),
                              worst / (1e-9 * float(Z.max())))
    rec.check(worst <= 1e-9 * float(Z.max()), f"contourline/on-level/{ck}",
              lambda: f"contour vertices deviate from the iso-level {target!r} "
                      f"by {worst!r} (interpolated density, {nchk} vertices)")


# ---- downsampling

def q_downsample(c, q):
    rec = c.rec
    rec.cls("q:downsample")
    if "log" in (q["xs"], q["ys"]):
        rec.cls("scale:log")
    k = q["k"]
    ns = c.nsel
    if isinstance(k, str):
        k = {"0": 0, "1": 1, "half": ns // 2, "n-1": max(ns - 1, 0), "n": ns,
             "n+1": ns + 1, "2n": 2 * ns}[k]
    k = int(k)
    fx, fy = c.names[0], c.names[1]
    kw = dict(xax=fx, yax=fy, downsample=k, xscale=q["xs"], yscale=q["ys"],
              remove_invalid=bool(q["rminv"]), ret_mask=True)
    ra = _call(lambda: c.A.get_downsampled_scatter(**kw))
    rb = _call(lambda: c.B.get_downsampled_scatter(**kw))
    sc = _scl(q)
    if ra[0] == "exc" or rb[0] == "exc":
        if ra[0] == rb[0] and ra[1] == rb[1]:
            rec.skip(f"both-raise:downsample:{ra[1]}")
            # known to C16: more samples requested than valid events, or a
            # constant feature; anything else is reported here
            dxs = scale_arr(c.selarrs[0], q["xs"])
            dys = scale_arr(c.selarrs[1], q["ys"])
            good = _finite(dxs) & _finite(dys)
            okr = (k > good.sum() or good.sum() == 0
                   or dxs[good].max() == dxs[good].min()
                   or dys[good].max() == dys[good].min())
            rec.check(okr, f"def/downsample/{sc}/raises-on-regular-input",
                      lambda: f"{ra[2]} (downsample={k}, {int(good.sum())} valid "
                              f"selected events)")
        else:
            rec.check(False, f"meta/downsample/{sc}/raises-differently",
                      lambda: f"filtered: {ra[1:]} | selected-only: {rb[1:]}"[:900])
        return
    (xa, ya, ma), (xb, yb, mb) = ra[1], rb[1]
    ma = np.asarray(ma)
    rec.check(same_result((xa, ya), (xb, yb), 0), f"meta/downsample/{sc}/points",
              lambda: _diffmsg((xa, ya), (xb, yb)))
    okm = ma.shape == (c.n,) and ma.dtype == bool
    if rec.check(okm, f"def/downsample/{sc}/mask-shape",
                 lambda: f"mask shape {ma.shape} dtype {ma.dtype}, len(ds)={c.n}"):
        rec.check(not ma[~c.sel].any(), f"def/downsample/{sc}/mask-on-excluded",
                  "mask marks an excluded event")
        rec.check(bool(np.array_equal(ma[c.sel], np.asarray(mb))),
                  f"meta/downsample/{sc}/mask",
                  "mask differs from the mask on the selected-only dataset")
        rec.check(same_result((xa, ya), (c.arrs[0][ma], c.arrs[1][ma]), 0),
                  f"def/downsample/{sc}/points-are-masked-events",
                  lambda: f"returned points {np.asarray(xa)[:6].tolist()} are not "
                          f"ds[x][mask] {c.arrs[0][ma][:6].tolist()}")
    if sc == "log" and c.nsel:
        # "take the logarithm of the values before performing downsampling":
        # same selection as linear downsampling of the log-transformed values
        C = dclab.new_dataset({"userdef8": scale_arr(c.selarrs[0], q["xs"]),
                               "userdef9": scale_arr(c.selarrs[1], q["ys"])})
        C.apply_filter()
        kwc = dict(kw, xax="userdef8", yax="userdef9", xscale="linear",
                   yscale="linear")
        rc = _call(lambda: C.get_downsampled_scatter(**kwc))
        if rc[0] == "exc":
            rec.check(False, "def/downsample/log/scaled-dataset-raises", rc[2])
        else:
            rec.check(bool(np.array_equal(np.asarray(rc[1][2]), np.asarray(mb))),
                      "def/downsample/log/selection-in-log-space",
                      "events kept with xscale/yscale='log' differ from the "
                      "events kept by linear downsampling of the log values")


# ---- tsv export

def _read_tsv(path):
    names, rows = None, []
    with open(path, "r", encoding="utf-8-sig") as fd:
        lines = fd.read().split("\n")
    comments = [ln for ln in lines if ln.startswith("#")]
    rows = [ln for ln in lines if ln and not ln.startswith("#")]
    if len(comments) >= 2:
        names = comments[-2][2:].split("\t")
    return names, rows


def q_tsv(c, q):
    rec = c.rec
    rec.cls("q:tsv")
    feats = [c.names[i] for i in q["feats"]]
    filtered = bool(q["filtered"])
    pa = c.dir / f"a{c.k}.tsv"
    pb = c.dir / f"b{c.k}.tsv"
    ra = _call(lambda: c.A.export.tsv(pa, feats, filtered=filtered))
    fk = "filtered" if filtered else "unfiltered"
    if ra[0] == "exc":
        rec.check(False, f"def/tsv/{fk}/raises", ra[2])
        return
    names, rows = _read_tsv(pa)
    cols = sorted(feats)
    if not rec.check(names == cols, f"def/tsv/{fk}/columns",
                     lambda: f"column header {names}, expected {cols}"):
        return
    src = c.selarrs if filtered else c.arrs
    data = [np.asarray(src[c.names.index(ft)], dtype=float) for ft in cols]
    exp = ["\t".join("%.10e" % v for v in row) for row in zip(*data)]
    rec.check(rows == exp, f"def/tsv/{fk}/rows",
              lambda: f"{len(rows)} rows, expected {len(exp)} (the "
                      f"{'selected' if filtered else 'full'} events); first rows "
                      f"{rows[:3]} expected {exp[:3]}")
    if filtered:
        rb = _call(lambda: c.B.export.tsv(pb, feats, filtered=True))
        if rb[0] == "exc":
            rec.check(False, "def/tsv/selected-only/raises", rb[2])
            return
        nb, rowsb = _read_tsv(pb)
        rec.check(rows == rowsb and names == nb, "meta/tsv/rows",
                  lambda: f"filtered export has {len(rows)} rows, export of the "
                          f"selected-only dataset {len(rowsb)}")
