"""C10 — command-line tasks never leave a partial file at the output path.

Fault enumeration over the six CLI tasks (compress, condense, repack, join,
split, tdms2rtdc).

*Fault model.*  While a task runs, a harness-side injector wraps every
Python-level HDF5 mutation and file-system step it can perform
(``Group.create_dataset/create_group/require_group/__setitem__/__delitem__/
copy/move``, ``Dataset.__setitem__/resize``, ``AttributeManager.__setitem__/
create/__delitem__/modify``, ``h5o.copy``, ``File.__init__`` in a write mode,
``File.close/flush`` of a writable file, ``Path.rename/replace/unlink/mkdir/...``
and the ``os``/``shutil`` functions below them).  Only outermost calls on paths
inside the case directory are counted.  A golden (fault-free) run yields the
operation trace (K operations); a fault point is (mode, k):

``raise``    the k-th operation raises ``OSError(EIO)`` once (a failing close
             still releases the handle),
``persist``  the k-th and every later *data-writing* operation raise
             (disk full / device gone); close, rename, unlink keep working,
``kill``     the task runs in a forked child that ``os._exit``s immediately
             before the k-th operation (nothing flushed, no cleanup).

Every run starts from an identical, restored directory (inputs + optional
stale output / temp files), wall clock and uuid4 are frozen during task runs,
so a complete output is structurally identical to the golden output.

*Oracle* (file-system state after the fault): see `_judge`.
"""
import contextlib
import errno
import gc
import hashlib
import json
import os
import pathlib
import shutil
import sys
import time
import traceback
import uuid
import zipfile

import h5py
import hdf5plugin
import numpy as np
from hypothesis import strategies as st

from .. import boot
from ..common import meta, quiet, chunk_bytes, sha256
from ..runner import HarnessAbort

import dclab
from dclab import RTDCWriter
from dclab import cli

ID = "C10"
LEVEL = "fault_enumeration"
RULE = ("fixed configurations per task with stratified fault points (first/last operation "
        "of every kind, every open/close/flush/rename/unlink/mkdir; thorough: every k in "
        "every mode) plus Hypothesis-generated (task x options x input layout x stale "
        "output/temp state x fault points); a case is non-trivial when at least one fault "
        "point was executed against a golden run of the same initial state (fault fired, "
        "file system judged); distinct = sha1 of the canonical JSON spec")
BUDGET = {"quick": 176, "thorough": 3200}
EXHAUSTIVE = {"thorough": True}
TIMEOUT = {"quick": 1500, "thorough": 6 * 3600}
ESSENTIAL = [
    "task:compress", "task:condense", "task:repack", "task:join", "task:split",
    "task:tdms2rtdc", "mode:raise", "mode:kill", "mode:persist",
    "at:rename", "at:close", "at:open-w", "at:unlink", "at:create_dataset",
    "at:attr-set", "at:h5o-copy", "at:dset-write",
    "outcome:absent", "outcome:complete", "outcome:stale-kept",
    "stale:out-garbage", "stale:out-valid", "stale:temp", "rerun",
    "multi-output:some-complete-some-absent",
]
ASSUMPTIONS = [
    "version shim: dclab._version pre-seeded with 0.62.7 so that files written by the "
    "untagged build can be re-opened",
    "fault points are Python-level HDF5 / file-system operations; faults inside one HDF5 "
    "C call, and power loss (no fsync ordering), are not modelled",
    "time.strftime/time.gmtime (without explicit time) and uuid.uuid4 are frozen while a "
    "task runs, so that golden and faulted runs write identical logs / run identifiers",
    "a failing File.close still releases the handle (the harness closes it, then raises)",
    "a stale file that already sits at an output path may survive a failed run only if it "
    "is byte-identical to what was there before and either is a complete loadable .rtdc "
    "file or the task had not yet opened any file for writing",
    "split does not use setup_task_paths: it refuses a stale temp file (documented OSError "
    "of export.hdf5 without override) and keeps a stale output until the final rename; "
    "garbage stale outputs are therefore not generated for split",
    "tdms inputs: repository fixtures only",
]
LEVEL_NOTE = ASSUMPTIONS[1]

TASKS = ["compress", "condense", "repack", "join", "split", "tdms2rtdc"]
MODES = ["raise", "kill", "persist"]
#: operations that add data (these keep failing in `persist` mode)
DATA_KINDS = {"create_dataset", "create_group", "require_group", "require_dataset",
              "link-set", "group-copy", "group-move", "dset-write", "dset-resize",
              "attr-set", "attr-create", "attr-modify", "h5o-copy", "open-w", "open-a",
              "open-r+", "flush", "mkdir", "write-file", "copy-file"}
KIND_POOL = ["rename", "close", "open-w", "open-a", "unlink", "mkdir", "create_dataset",
             "attr-set", "h5o-copy", "dset-write", "link-set", "link-del", "require_group",
             "dset-resize", "attr-create"]
FROZEN_T = 1614859200  # 2021-03-04 12:00:00 UTC

TDMS_FAST = ["fmt-tdms_2fl-no-image_2017.zip", "fmt-tdms_shapein-2.0.1-no-image_2017.zip",
             "fmt-tdms_minimal_2016.zip"]

# --------------------------------------------------------------------------
# fault injector
# --------------------------------------------------------------------------

_ACTIVE = None


class Injector:
    def __init__(self, root, roles, mode="count", k=0, dump=None):
        self.root = os.path.abspath(str(root)) + os.sep
        self.roles = roles
        self.mode = mode
        self.k = k
        self.dump = dump
        self.trace = []       # [kind, role, "ok" | "fault"]
        self.depth = 0
        self.fired = None     # [kind, role] of the first injected fault

    def role(self, path):
        try:
            p = os.path.abspath(os.fspath(path))
        except TypeError:
            return None
        if isinstance(p, bytes):
            p = os.fsdecode(p)
        if not p.startswith(self.root):
            return None
        r = self.roles.get(p)
        if r is None:
            r = "tmp-other" if p.endswith("~") else "other"
        return r

    def hit(self, kind, path):
        role = self.role(path)
        if role is None:
            return
        idx = len(self.trace) + 1
        fault = False
        if self.mode == "kill" and idx == self.k:
            self.fired = [kind, role]
            if self.dump:
                with open(self.dump, "w") as fd:
                    json.dump({"trace": self.trace, "fired": self.fired}, fd)
            os._exit(77)
        if self.mode == "raise" and idx == self.k:
            fault = True
        if self.mode == "persist" and idx >= self.k and kind in DATA_KINDS:
            fault = True
        self.trace.append([kind, role, "fault" if fault else "ok"])
        if fault:
            if self.fired is None:
                self.fired = [kind, role]
            raise OSError(errno.EIO, f"injected I/O error at operation {idx} "
                                     f"({kind} on {role} file)")


def _fname_id(oid):
    return h5py.h5f.get_name(h5py.h5i.get_file_id(oid)).decode()


def _p_obj(self, *a, **kw):
    return _fname_id(self.id)


def _p_attr(self, *a, **kw):
    return _fname_id(self._id)


def _p_h5o(*a, **kw):
    dst = kw.get("dst_loc", a[2] if len(a) > 2 else None)
    return _fname_id(dst)


def _p_first(p, *a, **kw):
    return p


def _p_second(src, dst, *a, **kw):
    return dst


def _p_self(self, *a, **kw):
    return self


def _wrap(orig, kind, pathof):
    def wrapper(*a, **kw):
        inj = _ACTIVE
        if inj is None or inj.depth:
            return orig(*a, **kw)
        try:
            p = pathof(*a, **kw)
        except Exception:  # noqa
            p = None
        if p is not None:
            inj.hit(kind, p)
        inj.depth += 1
        try:
            return orig(*a, **kw)
        finally:
            inj.depth -= 1
    wrapper.__name__ = getattr(orig, "__name__", kind)
    wrapper.__wrapped__ = orig
    return wrapper


_ORIG_FILE_INIT = h5py.File.__init__
_ORIG_FILE_CLOSE = h5py.File.close
_ORIG_GMTIME = time.gmtime
_ORIG_STRFTIME = time.strftime
_ORIG_UUID4 = uuid.uuid4


def _file_init(self, name, mode="r", *a, **kw):
    inj = _ACTIVE
    if inj is None or inj.depth:
        return _ORIG_FILE_INIT(self, name, mode, *a, **kw)
    if mode in ("w", "a", "r+", "w-", "x") and isinstance(name, (str, bytes, os.PathLike)):
        inj.hit("open-" + ("w" if mode in ("w", "w-", "x") else mode), name)
    inj.depth += 1
    try:
        return _ORIG_FILE_INIT(self, name, mode, *a, **kw)
    finally:
        inj.depth -= 1


def _file_close(self):
    inj = _ACTIVE
    if inj is None or inj.depth:
        return _ORIG_FILE_CLOSE(self)
    fault = None
    try:
        if self.id and self.id.valid and self.mode == "r+":
            inj.hit("close", self.filename)
    except OSError as e:
        fault = e
    inj.depth += 1
    try:
        _ORIG_FILE_CLOSE(self)
    finally:
        inj.depth -= 1
    if fault is not None:
        raise fault


def _gmtime(secs=None):
    return _ORIG_GMTIME(FROZEN_T if secs is None else secs)


def _strftime(fmt, t=None):
    return _ORIG_STRFTIME(fmt, _ORIG_GMTIME(FROZEN_T) if t is None else t)


def _uuid4():
    return uuid.UUID(int=0x5eed5eed5eed4eed8eed5eed5eed5eed)


def _patch_table():
    G, D, A, F, P = h5py.Group, h5py.Dataset, h5py.AttributeManager, h5py.File, pathlib.Path
    tab = [
        (G, "create_dataset", "create_dataset", _p_obj),
        (G, "create_group", "create_group", _p_obj),
        (G, "require_group", "require_group", _p_obj),
        (G, "require_dataset", "require_dataset", _p_obj),
        (G, "create_dataset_like", "create_dataset", _p_obj),
        (G, "__setitem__", "link-set", _p_obj),
        (G, "__delitem__", "link-del", _p_obj),
        (G, "copy", "group-copy", _p_obj),
        (G, "move", "group-move", _p_obj),
        (D, "__setitem__", "dset-write", _p_obj),
        (D, "write_direct", "dset-write", _p_obj),
        (D, "resize", "dset-resize", _p_obj),
        (A, "__setitem__", "attr-set", _p_attr),
        (A, "__delitem__", "attr-del", _p_attr),
        (A, "create", "attr-create", _p_attr),
        (A, "modify", "attr-modify", _p_attr),
        (F, "flush", "flush", _p_obj),
        (h5py.h5o, "copy", "h5o-copy", _p_h5o),
        (P, "rename", "rename", _p_self),
        (P, "replace", "rename", _p_self),
        (P, "unlink", "unlink", _p_self),
        (P, "mkdir", "mkdir", _p_self),
        (P, "rmdir", "rmdir", _p_self),
        (P, "touch", "write-file", _p_self),
        (P, "write_bytes", "write-file", _p_self),
        (P, "write_text", "write-file", _p_self),
        (P, "symlink_to", "write-file", _p_self),
        (P, "hardlink_to", "write-file", _p_self),
        (os, "rename", "rename", _p_first),
        (os, "replace", "rename", _p_first),
        (os, "unlink", "unlink", _p_first),
        (os, "remove", "unlink", _p_first),
        (os, "mkdir", "mkdir", _p_first),
        (os, "makedirs", "mkdir", _p_first),
        (os, "rmdir", "rmdir", _p_first),
        (os, "link", "write-file", _p_second),
        (os, "symlink", "write-file", _p_second),
        (os, "truncate", "write-file", _p_first),
        (shutil, "move", "rename", _p_first),
        (shutil, "copy", "copy-file", _p_second),
        (shutil, "copy2", "copy-file", _p_second),
        (shutil, "copyfile", "copy-file", _p_second),
        (shutil, "rmtree", "rmdir", _p_first),
    ]
    out = []
    for owner, attr, kind, pathof in tab:
        if hasattr(owner, attr):
            orig = getattr(owner, attr)
            out.append((owner, attr, orig, _wrap(orig, kind, pathof)))
    out.append((F, "__init__", _ORIG_FILE_INIT, _file_init))
    out.append((F, "close", _ORIG_FILE_CLOSE, _file_close))
    out.append((time, "gmtime", _ORIG_GMTIME, _gmtime))
    out.append((time, "strftime", _ORIG_STRFTIME, _strftime))
    out.append((uuid, "uuid4", _ORIG_UUID4, _uuid4))
    return out


_PATCHES = _patch_table()


@contextlib.contextmanager
def injected(inj):
    """wrappers installed + injector live only inside this block"""
    global _ACTIVE
    for owner, attr, orig, new in _PATCHES:
        setattr(owner, attr, new)
    _ACTIVE = inj
    try:
        yield inj
    finally:
        _ACTIVE = None
        for owner, attr, orig, new in _PATCHES:
            setattr(owner, attr, orig)


# --------------------------------------------------------------------------
# strategies
# --------------------------------------------------------------------------

FLOATS = ["deform", "area_um", "bright_avg", "pos_x", "size_x", "userdef1"]
INTS = ["fl1_max", "nevents"]
SPECIAL = ["time", "frame", "index_online"]
NONSC = ["image", "mask", "contour", "trace"]
LOGLINES = [["a line"], ["x" * 120, "ü-line", ""], ["one", "two", "three"]]
LOGNAMES = ["acq-log", "cfg-ü", "dclab-compress", "dclab-condense"]
# "@in/..." = next to the first input, same stem, foreign suffix; upper-case suffix
OUTNAMES = ["out.rtdc", "out", "res.v1.rtdc", "@in/measa.zst", "OUT.RTDC"]


@st.composite
def st_ds(draw, feats=None):
    n = draw(st.sampled_from([1, 2, 5, 9, 10, 11, 21]))
    if feats is None:
        feats = draw(st.lists(st.sampled_from(FLOATS + INTS + SPECIAL), min_size=1,
                              max_size=4, unique=True))
        feats += draw(st.lists(st.sampled_from(NONSC), max_size=2, unique=True))
    return {
        "n": n, "feats": sorted(feats), "seed": draw(st.integers(0, 999)),
        "comp": draw(st.sampled_from(["zstd5", "zstd5", "none", "zstd1"])),
        "logs": draw(st.lists(st.sampled_from(LOGNAMES), max_size=2, unique=True)),
        "table": draw(st.booleans()),
        "basin": draw(st.sampled_from([None, None, "file", "internal"])),
        "zero_first": draw(st.sampled_from([False, False, True])),
    }


ST_POINT = st.one_of(
    st.tuples(st.sampled_from(MODES), st.just("k"), st.integers(0, 4000)),
    st.tuples(st.sampled_from(MODES), st.just("kind"), st.sampled_from(KIND_POOL),
              st.integers(-3, 3)),
    st.tuples(st.sampled_from(MODES), st.just("kind"),
              st.sampled_from(["rename", "close", "open-w", "open-a", "unlink"]),
              st.integers(-3, 3)),
).map(list)


@st.composite
def st_spec(draw, tier="quick"):
    task = draw(st.sampled_from(TASKS + ["split", "join"]))
    spec = {"task": task, "chunk": draw(st.sampled_from([None, 100])),
            "out": draw(st.sampled_from(OUTNAMES)), "opts": {}}
    if task == "tdms2rtdc":
        spec["inputs"] = draw(st.lists(st.sampled_from(TDMS_FAST), min_size=1, max_size=2,
                                       unique=True))
        spec["opts"] = {"dirmode": len(spec["inputs"]) > 1 or draw(st.booleans()),
                        "skip": draw(st.booleans())}
    elif task == "join":
        first = draw(st_ds())
        spec["inputs"] = [first] + [draw(st_ds(feats=first["feats"]))
                                    for _ in range(draw(st.sampled_from([1, 1, 2])))]
    else:
        spec["inputs"] = [draw(st_ds())]
    if task == "repack":
        spec["opts"] = {"strip_logs": draw(st.booleans()),
                        "strip_basins": draw(st.booleans())}
    elif task == "condense":
        spec["opts"] = {"anc": draw(st.booleans()), "basins": draw(st.booleans())}
    elif task == "join":
        # documented optional argument: metadata written to the joined file
        spec["opts"] = {"meta": draw(st.booleans())}
    elif task == "split":
        spec["opts"] = {"parts": draw(st.sampled_from([1, 2, 2, 3, 4])),
                        "skip": draw(st.booleans()),
                        "outdir": draw(st.sampled_from(["same", "out", "newdir/sub"]))}
    if task == "split":
        spec["stale"] = {"out": draw(st.sampled_from([None, None, "valid"])),
                         "temp": draw(st.sampled_from([None, None, None, None, "garbage"]))}
    else:
        spec["stale"] = {"out": draw(st.sampled_from([None, "garbage", "valid"])),
                         "temp": draw(st.sampled_from([None, "garbage"]))}
    npts = 5 if task == "tdms2rtdc" else 10
    spec["points"] = draw(st.lists(ST_POINT, min_size=3, max_size=npts))
    spec["rerun"] = draw(st.lists(st.booleans(), min_size=1, max_size=4))
    return spec


def strategy(tier):
    return st_spec(tier)


def _fixed_ds(n, feats, **kw):
    d = {"n": n, "feats": sorted(feats), "seed": 7, "comp": "zstd5", "logs": ["acq-log"],
         "table": True, "basin": None, "zero_first": False}
    d.update(kw)
    return d


def _fixed_configs():
    rich = ["deform", "area_um", "time", "frame", "image", "mask", "trace"]
    cfgs = []
    ds_a = _fixed_ds(12, rich)
    ds_b = _fixed_ds(11, ["deform", "area_um", "contour", "index_online"], comp="none",
                     logs=["dclab-compress", "dclab-condense"], basin="internal")
    for task, opts in (("compress", {}), ("repack", {"strip_logs": False,
                                                     "strip_basins": False}),
                       ("condense", {"anc": True, "basins": True})):
        cfgs.append({"task": task, "opts": opts, "inputs": [ds_a], "out": "out.rtdc",
                     "stale": {"out": None, "temp": None}})
        cfgs.append({"task": task, "opts": opts, "inputs": [ds_b], "out": "out",
                     "stale": {"out": "garbage", "temp": "garbage"}})
    j1 = _fixed_ds(5, ["deform", "time", "frame", "index_online", "image"])
    j2 = _fixed_ds(3, ["deform", "time", "frame", "index_online", "image"], seed=8)
    j3 = _fixed_ds(2, ["deform", "time", "frame", "index_online", "image"], seed=9,
                   table=False)
    cfgs.append({"task": "join", "opts": {}, "inputs": [j1, j2], "out": "out.rtdc",
                 "stale": {"out": None, "temp": None}})
    cfgs.append({"task": "join", "opts": {"meta": True}, "inputs": [j2, j3, j1],
                 "out": "res.v1.rtdc",
                 "stale": {"out": "valid", "temp": "garbage"}})
    cfgs.append({"task": "split", "opts": {"parts": 3, "skip": True, "outdir": "out"},
                 "inputs": [ds_a], "out": "out.rtdc", "stale": {"out": None, "temp": None}})
    cfgs.append({"task": "split", "opts": {"parts": 2, "skip": False, "outdir": "same"},
                 "inputs": [_fixed_ds(11, ["deform", "area_um", "contour"], basin="file")],
                 "out": "out.rtdc", "stale": {"out": "valid", "temp": None}})
    cfgs.append({"task": "tdms2rtdc", "opts": {"dirmode": False, "skip": True},
                 "inputs": [TDMS_FAST[1]], "out": "out.rtdc",
                 "stale": {"out": None, "temp": None}})
    cfgs.append({"task": "tdms2rtdc", "opts": {"dirmode": True, "skip": True},
                 "inputs": TDMS_FAST[:2], "out": "out.rtdc",
                 "stale": {"out": "garbage", "temp": "garbage"}})
    for c in cfgs:
        c["chunk"] = 100
        c["rerun"] = [False, False, False, True]
    return cfgs


def enumerate_cases(tier):
    """fixed configurations; quick: stratified points in 2 modes, thorough: every k in
    every mode; each configuration is cut into parts (round robin over k) so that the
    shards are balanced"""
    parts = {"quick": 2, "thorough": 16}[tier]
    for cfg in _fixed_configs():
        for i in range(parts):
            s = dict(cfg)
            s["points"] = {"plan": "stratified" if tier == "quick" else "all",
                           "part": [i, parts]}
            yield s


def sample_view(spec):
    return spec


# --------------------------------------------------------------------------
# input files
# --------------------------------------------------------------------------

def _rng(seed, name):
    return np.random.default_rng([int(seed), int(hashlib.sha1(name.encode()).hexdigest()[:8],
                                                    16)])


def _feature_data(name, n, seed, zero_first=False):
    r = _rng(seed, name)
    shape = (6, 8)
    if name in FLOATS:
        a = np.round(np.abs(r.normal(size=n)) * 10 + 1, 3)
        if name == "deform":
            a = np.round(r.random(n) * 0.3, 4)
        if n > 2:
            a[r.random(n) < 0.1] = np.nan
        return a
    if name in INTS:
        return r.integers(0, 1000, size=n)
    if name == "frame":
        return np.cumsum(r.integers(1, 30, size=n)).astype(np.uint64)
    if name == "time":
        return np.round(np.cumsum(r.random(n)) * 0.01, 6)
    if name == "index_online":
        return np.cumsum(r.integers(1, 4, size=n)) - 1
    if name == "image":
        im = r.integers(1, 255, size=(n,) + shape, dtype=np.uint8)
        if zero_first:
            im[0] = 0
        return im
    if name == "mask":
        m = np.zeros((n,) + shape, dtype=bool)
        for j in range(n):
            y0 = int(r.integers(1, shape[0] - 3))
            x0 = int(r.integers(1, shape[1] - 3))
            m[j, y0:y0 + 2 + int(r.integers(0, 2)), x0:x0 + 2 + int(r.integers(0, 2))] = True
        return m
    if name == "contour":
        return [r.integers(1, 6, size=(int(r.integers(3, 9)), 2)) for _ in range(n)]
    if name == "trace":
        return {t: _rng(seed, "trace" + t).integers(-50, 2000, size=(n, 7)).astype(np.int16)
                for t in ("fl1_raw", "fl2_median")}
    raise ValueError(name)


def _ckw(comp):
    if comp == "zstd5":
        return hdf5plugin.Zstd(clevel=5)
    if comp == "zstd1":
        return hdf5plugin.Zstd(clevel=1)
    return {}


def _write_ds(path, s, idx):
    """one .rtdc input from a DS spec (plus `<stem>_basin.rtdc` for a file basin)"""
    n = s["n"]
    m = meta(experiment={"time": f"12:{(idx * 7) % 60:02d}:0{idx % 10}",
                         # never 1: join overwrites it with its default metadata
                         "run index": idx + 2 + s["seed"] % 3,
                         "run identifier": f"vf-rid-{idx}"})
    if "trace" in s["feats"]:
        m["fluorescence"] = {"sample rate": 312500.0, "bit depth": 16,
                             "channel count": 2, "laser count": 2,
                             "channels installed": 2, "lasers installed": 2,
                             "laser 1 lambda": 488.0, "laser 1 power": 5.0,
                             "laser 2 lambda": 561.0, "laser 2 power": 5.0,
                             "signal max": 1.0, "signal min": -1.0,
                             "trace median": 0}
    extra = []
    with RTDCWriter(path, mode="reset", compression_kwargs=_ckw(s["comp"])) as hw:
        hw.store_metadata(m)
        for f in s["feats"]:
            hw.store_feature(f, _feature_data(f, n, s["seed"], s["zero_first"]))
        for i, name in enumerate(s["logs"]):
            hw.store_log(name, LOGLINES[(i + s["seed"]) % len(LOGLINES)])
        if s["table"]:
            tab = np.rec.fromarrays(
                [np.arange(4, dtype=float), np.arange(4, dtype=np.int32) * 3],
                names=["time", "count"])
            hw.store_table("sensor", tab)
        if s["basin"] == "internal":
            hw.store_basin(basin_name="int", basin_type="internal", basin_format="h5dataset",
                           basin_locs=["basin_events"], basin_map=np.arange(n) % 3,
                           internal_data={"userdef2": np.arange(3, dtype=float) * 1.5},
                           basin_feats=["userdef2"], verify=False)
        elif s["basin"] == "file":
            bpath = path.with_name(path.stem + "_basin.rtdc")
            with RTDCWriter(bpath, mode="reset") as hb:
                hb.store_metadata(m)
                hb.store_feature("userdef3", np.arange(n, dtype=float) + 0.5)
                hb.store_feature("deform", _feature_data("deform", n, s["seed"]))
            hw.store_basin(basin_name="up", basin_type="file", basin_format="hdf5",
                           basin_locs=[bpath.name], basin_feats=["userdef3"],
                           verify=False)
            extra.append(bpath)
    return extra


def _tiny_valid(path):
    with RTDCWriter(path, mode="reset") as hw:
        hw.store_metadata(meta(experiment={"run identifier": "vf-stale"}))
        hw.store_feature("deform", np.linspace(0.01, 0.2, 4))
        hw.store_feature("area_um", np.linspace(20, 80, 4))


# --------------------------------------------------------------------------
# file-system helpers
# --------------------------------------------------------------------------

def _listing(root):
    return sorted(str(p) for p in pathlib.Path(root).rglob("*") if p.is_file())


def _restore(base, work):
    shutil.rmtree(work, ignore_errors=True)
    shutil.copytree(base, work)


def _digest(v):
    a = np.asarray(v)
    if a.dtype.kind == "O":
        return hashlib.sha1(repr(a.tolist()).encode()).hexdigest()[:16]
    return hashlib.sha1(np.ascontiguousarray(a).tobytes()).hexdigest()[:16]


def _attrs(am):
    out = {}
    for k in sorted(am.keys()):
        v = am[k]
        a = np.asarray(v)
        out[k] = [str(a.dtype), list(a.shape), _digest(a)]
    return out


def fingerprint(path):
    """structural content of an HDF5 file: every group / dataset (dtype, shape, value
    digest) and every attribute"""
    out = {}
    with h5py.File(path, "r") as h5:
        out["/ @"] = _attrs(h5.attrs)

        def visit(name, obj):
            if isinstance(obj, h5py.Dataset):
                out[name] = ["D", str(obj.dtype), list(obj.shape), _digest(obj[()])]
            else:
                out[name] = ["G"]
            out[name + " @"] = _attrs(obj.attrs)
        h5.visititems(visit)
    return out


def _fp_diff(a, b):
    keys = sorted(set(a) | set(b))
    bad = [k for k in keys if a.get(k) != b.get(k)]
    return bad


def _loadable(path):
    """(ok, message): opens with dclab and every innate feature can be read in full"""
    try:
        with dclab.new_dataset(path) as ds:
            n = len(ds)
            cnt = ds.config["experiment"].get("event count", n)
            if cnt != n:
                return False, f"event count attribute {cnt} != {n} events"
            for f in ds.features_innate:
                if f == "trace":
                    for t in ds["trace"].keys():
                        if len(np.asarray(ds["trace"][t][:])) != n:
                            return False, f"trace {t} length"
                elif f == "contour":
                    for i in range(n):
                        np.asarray(ds["contour"][i])
                else:
                    if len(np.asarray(ds[f][:])) != n:
                        return False, f"feature {f} length"
            list(ds.logs.keys())
            list(ds.tables.keys())
        return True, ""
    except BaseException as e:  # noqa
        if isinstance(e, (KeyboardInterrupt, SystemExit, MemoryError)):
            raise
        return False, f"{type(e).__name__}: {str(e)[:200]}"


# --------------------------------------------------------------------------
# task driver
# --------------------------------------------------------------------------

class Setup:
    """paths of one case (identical for every run of the case)"""

    def __init__(self, spec, d):
        self.spec = spec
        self.task = spec["task"]
        self.base = d / "base"
        self.work = d / "work"
        self.aux = d / "aux"
        self.aux.mkdir()
        (self.base / "in").mkdir(parents=True)
        (self.base / "out").mkdir()
        self.inputs = []          # main inputs, relative to base
        self.stale = {}           # rel path -> ("garbage" | "valid", sha)
        self.outs = []            # expected output paths (work), known after golden
        self.temps = []
        self.out_arg = None
        self.first_part_skipped = False

    def w(self, rel):
        return self.work / rel


def _build(spec, su):
    task = su.task
    ind = su.base / "in"
    if task == "tdms2rtdc":
        mains = []
        for i, z in enumerate(spec["inputs"]):
            sub = ind / f"m{i}"
            with zipfile.ZipFile(pathlib.Path(boot.REPO, "tests", "data", z)) as arc:
                arc.extractall(sub)
            cands = sorted(p for p in sub.rglob("*.tdms")
                           if not p.name.endswith("_traces.tdms"))
            mains.append(cands[0])
        su.inputs = [p.relative_to(su.base) for p in mains]
    else:
        for i, s in enumerate(spec["inputs"]):
            p = ind / f"meas{chr(97 + i)}.rtdc"
            _write_ds(p, s, i)
            su.inputs.append(p.relative_to(su.base))
    # expected outputs (documented naming of setup_task_paths / split / tdms2rtdc)
    outs = []
    if task in ("compress", "condense", "repack", "join"):
        name = spec["out"]
        odir = pathlib.Path("out")
        if name.startswith("@in/"):
            odir, name = pathlib.Path("in"), name[4:]
        su.out_arg = odir / name
        outs = [odir / (name if name.endswith(".rtdc") else name + ".rtdc")]
    elif task == "tdms2rtdc":
        if spec["opts"]["dirmode"]:
            su.out_arg = pathlib.Path("out") / "conv"
            outs = [su.out_arg / p.relative_to("in").with_suffix(".rtdc")
                    for p in su.inputs]
        else:
            name = spec["out"].replace("@in/", "")
            su.out_arg = pathlib.Path("out") / name
            outs = [pathlib.Path("out") / (name if name.endswith(".rtdc")
                                           else name + ".rtdc")]
    elif task == "split":
        n = spec["inputs"][0]["n"]
        parts = max(1, min(spec["opts"]["parts"], n))
        su.split_events = -(-n // parts)
        nfiles = -(-n // su.split_events)
        od = spec["opts"]["outdir"]
        su.out_arg = None if od == "same" else pathlib.Path(od)
        odir = pathlib.Path("in") if od == "same" else pathlib.Path(od)
        outs = [odir / f"{su.inputs[0].stem}_{i + 1:04d}.rtdc" for i in range(nfiles)]
        ds0 = spec["inputs"][0]
        if (spec["opts"]["skip"] and ds0["zero_first"] and "image" in ds0["feats"]
                and su.split_events == 1):
            # documented boundary skipping: the first event (all-zero image) is removed;
            # a part that consisted of this event only has nothing to export
            outs = outs[1:]
            su.first_part_skipped = True
    su.outs = outs
    su.temps = [p.with_suffix(".rtdc~") for p in outs]
    # stale files
    st_ = spec["stale"]
    if st_.get("out") or st_.get("temp"):
        tiny = su.aux / "tiny.rtdc"
        _tiny_valid(tiny)
        raw = tiny.read_bytes()
        garbage = raw[: int(len(raw) * 0.6)]
        targets_out = outs if task != "split" else sorted({outs[0], outs[-1]} if outs else [])
        if st_.get("out"):
            for p in targets_out:
                (su.base / p).parent.mkdir(parents=True, exist_ok=True)
                (su.base / p).write_bytes(raw if st_["out"] == "valid" else garbage)
                su.stale[str(p)] = st_["out"]
        if st_.get("temp"):
            for p in su.temps[-1:] if task == "split" else su.temps:
                (su.base / p).parent.mkdir(parents=True, exist_ok=True)
                (su.base / p).write_bytes(garbage)
                su.stale[str(p)] = "temp"


def _call(su):
    spec, task, o = su.spec, su.task, su.spec["opts"]
    ins = [su.w(p) for p in su.inputs]
    if task == "compress":
        cli.compress(path_in=ins[0], path_out=su.w(su.out_arg))
    elif task == "repack":
        cli.repack(path_in=ins[0], path_out=su.w(su.out_arg), strip_logs=o["strip_logs"],
                   strip_basins=o["strip_basins"])
    elif task == "condense":
        cli.condense(path_in=ins[0], path_out=su.w(su.out_arg),
                     store_ancillary_features=o["anc"], store_basin_features=o["basins"])
    elif task == "join":
        kw = {}
        if o.get("meta"):
            kw["metadata"] = {"experiment": {"run index": 7, "sample": "vf joined"},
                              "setup": {"medium": "water"}}
        cli.join(paths_in=[str(p) for p in ins], path_out=str(su.w(su.out_arg)), **kw)
    elif task == "split":
        cli.split(path_in=ins[0],
                  path_out=None if su.out_arg is None else su.w(su.out_arg),
                  split_events=su.split_events,
                  skip_initial_empty_image=o["skip"], skip_final_empty_image=o["skip"])
    elif task == "tdms2rtdc":
        src = su.w("in") if o["dirmode"] else ins[0]
        cli.tdms2rtdc(path_tdms=src, path_rtdc=su.w(su.out_arg),
                      skip_initial_empty_image=o["skip"], skip_final_empty_image=o["skip"])
    else:
        raise ValueError(task)


def _roles(su):
    roles = {}
    for p in _listing(su.work):
        roles[p] = "in"
    for p in su.outs:
        roles[str(su.w(p))] = "out"
    for p in su.temps:
        roles[str(su.w(p))] = "temp"
    return roles


def _run_inproc(su, mode, k, keep_tb=False):
    """returns (injector, exception or None); the traceback is dropped (its frames
    would keep HDF5 handles of the task alive) unless `keep_tb`"""
    inj = Injector(su.work, _roles(su), mode, k)
    exc = None
    with quiet(), chunk_bytes(su.spec.get("chunk")):
        with injected(inj):
            try:
                _call(su)
            except Exception as e:  # noqa
                exc = e if keep_tb else e.with_traceback(None)
                del e
    gc.collect()
    return inj, exc


def _run_killed(su, k):
    """task in a forked child that dies before operation k; returns (trace, fired, status)"""
    dump = su.aux / "kill.json"
    err = su.aux / "kill.err"
    for p in (dump, err):
        if p.exists():
            p.unlink()
    inj = Injector(su.work, _roles(su), "kill", k, dump=str(dump))
    sys.stdout.flush()
    sys.stderr.flush()
    gc.collect()
    pid = os.fork()
    if pid == 0:
        code = 0
        try:
            try:
                with quiet(), chunk_bytes(su.spec.get("chunk")):
                    with injected(inj):
                        _call(su)
            except BaseException:  # noqa
                code = 3
                try:
                    err.write_text(traceback.format_exc()[-3000:])
                except BaseException:  # noqa
                    pass
        finally:
            os._exit(code)
    t0 = time.monotonic()
    while True:
        wpid, status = os.waitpid(pid, os.WNOHANG)
        if wpid == pid:
            break
        if time.monotonic() - t0 > 900:
            try:
                os.kill(pid, 9)
                os.waitpid(pid, 0)
            except OSError:
                pass
            raise HarnessAbort("C10: forked task did not finish within 900 s (inconclusive)")
        time.sleep(0.002)
    code = os.waitstatus_to_exitcode(status)
    if code == 77 and dump.exists():
        data = json.loads(dump.read_text())
        return data["trace"], data["fired"], "killed"
    if code == 0:
        return None, None, "completed"
    if code == 3:
        return None, None, "raised: " + (err.read_text() if err.exists() else "?")
    raise HarnessAbort(f"C10: forked task ended with status {code}")


# --------------------------------------------------------------------------
# oracle
# --------------------------------------------------------------------------

def _work_started(trace):
    return any(t[0].startswith("open-") and t[2] == "ok" for t in trace)


def _judge(rec, su, before, golden_fp, trace, tag, clean=False, exc=None):
    """file-system oracle after one run.

    before     {abs path: sha256} of every file in the restored work directory
    golden_fp  {rel output: fingerprint} of the golden run (None for the golden run itself)
    trace      operations that were carried out before / at the fault
    tag        signature discriminator '<task>/<mode>/at-<kind>-<role>'
    Returns the number of complete outputs."""
    after = set(_listing(su.work))
    task = su.task
    ncomplete = 0
    nabsent = 0
    fps = {}
    # (1) inputs are byte-identical
    for p, sha in before.items():
        rel = os.path.relpath(p, su.work)
        if rel in su.stale:
            continue
        if p not in after:
            rec.fail(f"input-missing/{tag}", f"input file {rel} vanished")
        else:
            rec.check(sha256(p) == sha, f"input-modified/{tag}",
                      f"input file {rel} is not byte-identical after the run")
    # (2) every requested output path: absent | complete | untouched stale
    for rel in su.outs:
        p = su.w(rel)
        srel = str(rel)
        if str(p) not in after:
            nabsent += 1
            rec.cls("outcome:absent")
            rec.check(not clean, f"missing-output/{task}",
                      f"fault-free run did not create {srel}")
            continue
        if srel in su.stale and not clean and sha256(p) == before.get(str(p)):
            kind = su.stale[srel]
            ok = kind == "valid" or not _work_started(trace)
            rec.cls("outcome:stale-kept")
            rec.check(ok, f"stale-output-kept/{tag}",
                      f"a stale non-loadable file is still at the output path {srel} "
                      f"although the task had started writing "
                      f"(error: {type(exc).__name__ if exc else None})")
            continue
        try:
            fp = fingerprint(p)
        except BaseException as e:  # noqa
            if isinstance(e, (KeyboardInterrupt, SystemExit, MemoryError)):
                raise
            fp = None
            why = f"not a readable HDF5 file ({type(e).__name__}: {str(e)[:120]})"
        if fp is not None and golden_fp is not None:
            bad = _fp_diff(golden_fp.get(srel, {}), fp)
            if bad:
                why = (f"differs from the result of the fault-free run in {len(bad)} "
                       f"objects, e.g. {bad[:4]}")
                fp = None
        if fp is not None and golden_fp is None:
            ok, msg = _loadable(p)
            if not ok:
                why = f"cannot be loaded with dclab: {msg}"
                fp = None
        if fp is None:
            rec.fail(f"partial-output/{tag}",
                     f"output path {srel} exists after the "
                     f"{'fault-free run' if clean else 'fault'} but is not a complete "
                     f"result: {why} (task error: "
                     f"{type(exc).__name__ if exc else None})")
        else:
            rec.checks += 1
            ncomplete += 1
            fps[srel] = fp
            rec.cls("outcome:complete")
    if not clean and len(su.outs) > 1 and ncomplete and nabsent:
        rec.cls("multi-output:some-complete-some-absent")
    # (3) nothing else appears, except under a temporary name
    known = {str(su.w(p)) for p in su.outs} | set(before)
    for p in sorted(after - known):
        rel = os.path.relpath(p, su.work)
        if clean:
            rec.check(False, f"temp-left/{task}/clean-run",
                      f"fault-free run left the extra file {rel}")
        else:
            rec.check(p.endswith(".rtdc~"), f"stray-file/{tag}",
                      f"new file {rel} is neither a requested output nor a '.rtdc~' "
                      f"temporary file")
    if clean:
        for rel in su.temps:
            rec.check(str(su.w(rel)) not in after, f"temp-left/{task}/clean-run",
                      f"fault-free run left the temporary file {rel}")
    return fps, ncomplete


def _resolve_points(points, trace, rerun_bits):
    """-> list of (mode, k, rerun) with 1 <= k <= K, duplicates removed"""
    K = len(trace)
    out, seen = [], set()

    def add(mode, k, rr):
        if K and (mode, k) not in seen:
            seen.add((mode, k))
            out.append((mode, k, rr))

    if isinstance(points, dict):
        i, m = points["part"]
        if points["plan"] == "all":
            cand = [(mode, k) for k in range(1, K + 1) for mode in MODES]
        else:
            ks = set()
            first, last = {}, {}
            for j, t in enumerate(trace):
                key = (t[0], t[1])
                first.setdefault(key, j + 1)
                last[key] = j + 1
                if t[0] in ("rename", "close", "unlink", "mkdir", "flush", "link-del",
                            "link-set") or t[0].startswith("open-"):
                    ks.add(j + 1)
            ks |= set(first.values()) | set(last.values()) | {1, K}
            ks |= {1 + (j * 7919) % K for j in range(8)}
            cand = []
            for k in sorted(ks):
                cand.append(("raise", k))
                cand.append(("kill", k))
                if trace[k - 1][0] in DATA_KINDS and k % 3 == 0:
                    cand.append(("persist", k))
        for j, (mode, k) in enumerate(cand):
            if j % m == i:
                add(mode, k, rerun_bits[(j // m + i) % len(rerun_bits)])
        return out
    for j, pt in enumerate(points):
        mode = pt[0]
        if not K:
            break
        if pt[1] == "k":
            k = 1 + int(pt[2]) % K
        else:
            idx = [n + 1 for n, t in enumerate(trace) if t[0] == pt[2]]
            if idx:
                k = idx[int(pt[3]) % len(idx)]
            else:
                k = 1 + (int(pt[3]) * 31 + len(pt[2])) % K
        add(mode, k, rerun_bits[j % len(rerun_bits)])
    return out


def run_case(spec, rec):
    d = boot.casedir()
    try:
        _run(spec, rec, d)
    finally:
        global _ACTIVE
        _ACTIVE = None
        boot.rmcase(d)


def _run(spec, rec, d):
    task = spec["task"]
    su = Setup(spec, d)
    with quiet(), chunk_bytes(spec.get("chunk")):
        _build(spec, su)
    rec.cls(f"task:{task}")
    if su.first_part_skipped:
        rec.cls("split:first-part-emptied-by-boundary-skip")
    for rel, kind in su.stale.items():
        rec.cls("stale:temp" if kind == "temp" else f"stale:out-{kind}")

    # ---- golden run
    _restore(su.base, su.work)
    before = {p: sha256(p) for p in _listing(su.work)}
    inj, exc = _run_inproc(su, "count", 0, keep_tb=True)
    trace = inj.trace
    K = len(trace)
    if exc is not None:
        refused = (task == "split" and spec["stale"].get("temp")
                   and isinstance(exc, OSError) and "already exists" in str(exc))
        if not refused:
            raise exc
        # documented refusal (export.hdf5 without override): the property still applies
        rec.cls("split:stale-temp-refused")
        _judge(rec, su, before, {}, trace, f"{task}/refused/stale-temp", exc=exc)
        return
    golden_fp, _ = _judge(rec, su, before, None, trace, f"{task}/clean", clean=True)
    if len(golden_fp) != len(su.outs):
        return  # already reported
    rec.cls(f"goldenK-sum:{task}", K)
    rec.cls(f"golden-runs:{task}")

    # ---- fault points
    pts = _resolve_points(spec["points"], trace, spec.get("rerun") or [False])
    done = set()
    for mode, k, rerun in pts:
        if mode == "persist":
            # the first failing operation is the first data-writing one at or after k
            nxt = [j + 1 for j in range(k - 1, K) if trace[j][0] in DATA_KINDS]
            if not nxt:
                rec.skip("persist-point-without-later-write")
                continue
            k = nxt[0]
        if (mode, k) in done:
            continue
        done.add((mode, k))
        kind, role, _ = trace[k - 1]
        tag = f"{task}/{mode}/at-{kind}-{role}"
        _restore(su.base, su.work)
        if mode == "kill":
            tr, fired, status = _run_killed(su, k)
            fexc = None
            if status != "killed":
                # the golden trace was not reproduced (should not happen: deterministic)
                rec.skip(f"kill-point-not-reached:{status[:9]}")
                tr = trace
        else:
            finj, fexc = _run_inproc(su, mode, k)
            tr, fired = finj.trace, finj.fired
            if fired is None:
                rec.skip("fault-point-not-reached")
            elif fired != [kind, role]:
                rec.skip("trace-differs-from-golden")
                tag = f"{task}/{mode}/at-{fired[0]}-{fired[1]}"
        rec.cls(f"mode:{mode}")
        rec.cls(f"at:{kind}")
        rec.cls(f"points:{task}:{mode}")
        rec.nontrivial()
        _judge(rec, su, before, golden_fp, tr, tag, exc=fexc)
        if rerun:
            # fault sequence "crash, then run the task again on what the crash left"
            rec.cls("rerun")
            state = {p: sha256(p) for p in _listing(su.work)}
            keep = {p: s for p, s in state.items() if p in before and
                    os.path.relpath(p, su.work) not in su.stale}
            rinj, rexc = _run_inproc(su, "count", 0)
            rtag = f"{task}/rerun-after-{mode}"
            if rexc is not None:
                refused = (task == "split" and isinstance(rexc, OSError)
                           and "already exists" in str(rexc))
                if refused:
                    rec.skip("rerun-refused-by-split(stale temp)")
                    _judge_rerun_failed(rec, su, keep, rtag)
                else:
                    rec.fail(f"rerun-fails/{rtag}/{type(rexc).__name__}",
                             f"running the task again after a {mode} fault at {kind} "
                             f"({role}) fails: {type(rexc).__name__}: {str(rexc)[:300]}")
                continue
            after = set(_listing(su.work))
            for p, sha in keep.items():
                rec.check(p in after and sha256(p) == sha, f"input-modified/{rtag}",
                          f"{os.path.relpath(p, su.work)} changed in the second run")
            for rel in su.outs:
                p = su.w(rel)
                ok = str(p) in after
                why = "missing"
                if ok:
                    try:
                        bad = _fp_diff(golden_fp[str(rel)], fingerprint(p))
                        ok, why = not bad, f"differs from the fault-free result in {bad[:4]}"
                    except Exception as e:  # noqa
                        ok, why = False, f"unreadable ({type(e).__name__})"
                rec.check(ok, f"partial-output/{rtag}",
                          f"output {rel} after crash + complete second run: {why}")
            for rel in su.temps:
                rec.check(str(su.w(rel)) not in after, f"temp-left/{rtag}",
                          f"temporary file {rel} still there after a successful second run")


def _judge_rerun_failed(rec, su, keep, rtag):
    after = set(_listing(su.work))
    for p, sha in keep.items():
        rec.check(p in after and sha256(p) == sha, f"input-modified/{rtag}",
                  f"{os.path.relpath(p, su.work)} changed in the second run")
