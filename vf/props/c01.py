"""C01 — data written through the writer API is read back exactly.

Model-based, history-driven: the spec is a *program* (sessions of a writer in
append / replace / reset mode with their own chunk-size configuration, each a
list of store_feature / store_log / store_table / store_metadata calls); the
interpreter executes it against `RTDCWriter` and against an in-memory model
(append -> concatenate, replace -> replace, reset -> forget).  After an
automatic completion phase (every feature is brought to the same length N) the
file is re-opened with dclab and with raw h5py and compared with the model.
"""
import numpy as np
import h5py
from hypothesis import strategies as st

from .. import boot
from ..common import chunk_bytes, eqnan, rng_array, st_float

import dclab
from dclab import RTDCWriter
from dclab.rtdc_dataset import feat_temp

ID = "C01"
RULE = ("Hypothesis-generated writer programs (sessions x modes x chunk configs x "
        "interleaved feature/log/table/metadata calls, events split arbitrarily over "
        "calls); non-trivial = a non-scalar feature written with >=2 calls of which one "
        "crosses an HDF5 chunk boundary, or >=2 appends to one log, or a writer "
        "re-open/mode change between feature calls; distinct = sha1 of the spec")
BUDGET = {"quick": 1920, "thorough": 30000}
ESSENTIAL = ["mode:append", "mode:replace", "mode:reset", "kind:image",
             "kind:contour", "kind:trace", "kind:mask", "kind:usershaped",
             "chunk-crossing-call", "log-append", "table", "reopen",
             "final-session:replace", "final-append-session"]
ASSUMPTIONS = [
    "version shim so that files written by the untagged build re-open",
    "tables are written once per name and file (a second write raises by design)",
    "log lines exclude NUL characters (not representable in fixed-length HDF5 strings)",
    "one dtype per feature across calls; integer features hold values inside the stored "
    "type's range"]

FLOAT_SC = ["deform", "area_um", "time", "userdef0", "bright_avg"]
INT_SC = ["fl1_max", "frame", "nevents", "index_online"]
NONSC = ["image", "image_bg", "mask", "contour", "trace", "qpi_pha", "vf_vec"]
ALLF = FLOAT_SC + INT_SC + NONSC + ["index"]
TRACES = ["fl1_raw", "fl2_median", "fl3_raw"]
IMG = (6, 9)        # 54 bytes/event
VEC = 7
NSAMP = 11

META_POOL = [
    ("experiment", "sample", ["s1", "Probe ü", "x y"]),
    ("experiment", "run index", [1, 7]),
    ("experiment", "date", ["2020-01-02", "2023-11-30"]),
    ("experiment", "time", ["12:00:01", "23:59:59.25"]),
    ("experiment", "run identifier", ["rid-a", "rid-b"]),
    ("imaging", "pixel size", [0.34, 0.265]),
    ("imaging", "frame rate", [2000.0, 3600.5]),
    ("imaging", "flash device", ["LED", "laser"]),
    ("imaging", "roi position x", [0, 160]),
    ("setup", "channel width", [20.0, 30.0]),
    ("setup", "flow rate", [0.04, 0.16]),
    ("setup", "medium", ["CellCarrier", "water", "other"]),
    ("setup", "chip region", ["channel", "Reservoir"]),
    # a version chain taken over from an old measurement; the writer appends its brand
    ("setup", "software version", ["ShapeIn 2.0.2 | dclab 0.35.0", "ShapeIn 2.4.0"]),
    ("imaging", "roi size x", [9, 250]),
    ("imaging", "roi size y", [6, 80]),
    ("online_contour", "no absdiff", [True, False]),
    ("online_contour", "bin area min", [10, 55]),
    ("fluorescence", "laser count", [1, 2]),
    # documented: only *added* by the writer if not present
    ("fluorescence", "channel count", [2, 3]),
    ("fluorescence", "sample rate", [312500, 1000000]),
    ("user", "operator", ["anna", "björn"]),
    ("user", "value", [1.5, -2.0]),
    ("user", "count", [3, 0]),
    ("user", "flag", [True, False]),
]
META_TYPES = {"sample": str, "run index": int, "date": str, "time": str,
              "run identifier": str, "pixel size": float, "frame rate": float,
              "flash device": str, "roi position x": int, "channel width": float,
              "flow rate": float, "medium": str, "chip region": str,
              "roi size x": int, "roi size y": int,
              "no absdiff": bool, "bin area min": int, "laser count": int, "channel count": int,
              "sample rate": int}

LINE = st.text(alphabet=st.characters(blacklist_categories=("Cs", "Cc")),
               max_size=40)
LONGLINE = st.builds(lambda c, k: c * k, st.sampled_from(["x", "ü", "€", "a b"]),
                     st.integers(90, 160))


@st.composite
def st_op(draw, feats):
    kind = draw(st.sampled_from(["feat"] * 7 + ["log", "log", "table", "meta", "bad"]))
    if kind == "bad":
        # a call that is rejected as a whole (documented ValueError); the writer
        # is used again afterwards
        return {"op": "bad", "what": draw(st.sampled_from(
            ["meta-key", "meta-section", "feature-name", "empty", "contour-batch"])),
            "f": draw(st.sampled_from(feats)), "seed": draw(st.integers(0, 2**16))}
    if kind == "feat":
        f = draw(st.sampled_from(feats))
        op = {"op": "feat", "f": f, "k": draw(st.sampled_from(
            [1, 1, 2, 3, 5, 9, 10, 11, 12, 13, 19, 20, 21, 23, 31])),
            "seed": draw(st.integers(0, 2**16)),
            "variant": draw(st.integers(0, 3))}
        if f in FLOAT_SC:
            op["vals"] = draw(st.lists(st_float(0.3), min_size=1, max_size=6))
        elif f in INT_SC:
            hi = 2**32 - 1 if f != "frame" else 2**53
            op["vals"] = draw(st.lists(st.one_of(
                st.integers(0, 300), st.just(hi), st.integers(0, hi)),
                min_size=1, max_size=6))
        return op
    if kind == "log":
        return {"op": "log", "name": draw(st.sampled_from(["l0", "l1", "ü-log"])),
                # documented input forms: str lines, bytes lines, a single str/bytes
                "enc": draw(st.sampled_from([0, 0, 1, 2])),
                "lines": draw(st.one_of(
                    st.lists(st.one_of(LINE, LINE, LONGLINE), min_size=1, max_size=4),
                    LINE.filter(lambda s: True)))}
    if kind == "table":
        return {"op": "table", "name": draw(st.sampled_from(["t0", "t1"])),
                "route": draw(st.sampled_from(["dict", "rec", "h5"])),
                "rows": draw(st.integers(1, 6)),
                "seed": draw(st.integers(0, 2**16))}
    picks = draw(st.lists(st.integers(0, len(META_POOL) - 1), min_size=1,
                          max_size=5, unique=True))
    return {"op": "meta", "items": [[i, draw(st.integers(0, 1)),
                                    draw(st.integers(0, 2))] for i in picks]}


@st.composite
def st_spec(draw):
    feats = draw(st.lists(st.sampled_from(ALLF), min_size=1, max_size=6,
                          unique=True))
    nsess = draw(st.integers(1, 4))
    sessions = []
    for i in range(nsess):
        mode = draw(st.sampled_from(["append", "append", "append", "replace",
                                     "reset"]))
        sessions.append({
            "mode": mode, "chunk": draw(st.sampled_from([None, 100, 100, 1000])),
            "complete": draw(st.booleans()),
            "ops": draw(st.lists(st_op(feats), max_size=8))})
    return {"n": draw(st.sampled_from([1, 2, 9, 10, 11, 19, 20, 21, 25, 31, 40])),
            "feats": sorted(feats), "sessions": sessions,
            "fin_chunk": draw(st.sampled_from([None, 100])),
            "fin_split": draw(st.integers(0, 40)),
            "fin_seed": draw(st.integers(0, 2**16))}


def strategy(tier):
    return st_spec()


def _mi(sec, key):
    return [i for i, (s_, k_, _) in enumerate(META_POOL) if (s_, k_) == (sec, key)][0]


def enumerate_cases(tier):
    """deterministic members of classes that random mixing reaches too rarely"""
    out = []
    # stored float64 time + frame + frame rate under software-version chains of
    # an old measurement (readers decide from the chain whether `time` is trusted)
    for vi in (0, 1):
        for reopen in (False, True):
            meta_op = {"op": "meta", "items": [[_mi("setup", "software version"), vi, 0],
                                               [_mi("imaging", "frame rate"), 0, 0]]}
            f_time = {"op": "feat", "f": "time", "k": 9, "seed": 3, "variant": 0,
                      "vals": [0.0, 0.37, 1.91, 2.5, 7.25, 9.0]}
            f_frame = {"op": "feat", "f": "frame", "k": 9, "seed": 4, "variant": 0,
                       "vals": [11, 410, 3000, 3001, 9000, 20000]}
            s1 = {"mode": "append", "chunk": None, "complete": not reopen,
                  "ops": [meta_op, f_time, f_frame]}
            sessions = [s1] + ([{"mode": "append", "chunk": 100, "complete": True,
                                 "ops": [f_time, f_frame]}] if reopen else [])
            out.append({"n": 12, "feats": ["deform", "frame", "time"],
                        "sessions": sessions, "fin_chunk": None, "fin_split": 2,
                        "fin_seed": 5})
    return out


# ------------------------------------------------------------ data generation

def gen_data(f, k, op, names=None):
    """(what is passed to store_feature, what must be read back) for k events"""
    seed = op["seed"]
    var = op.get("variant", 0)
    if f in FLOAT_SC:
        v = op["vals"]
        a = np.array([v[i % len(v)] for i in range(k)], dtype=np.float64)
        passed = a if var != 1 else a.tolist()
        if k == 1 and var == 2:
            passed = float(a[0])
        return passed, a
    if f in INT_SC:
        v = op["vals"]
        a = np.array([v[i % len(v)] for i in range(k)], dtype=np.uint64)
        passed = a if var != 1 else a.astype(np.int64)
        return passed, a
    if f == "index":
        return np.zeros(k), None
    if f in ("image", "image_bg"):
        a = rng_array(seed, (k,) + IMG, "u8")
        if var == 1:
            passed = [x for x in a]
        elif var == 2 and k == 1:
            passed = a[0]
        else:
            passed = a
        return passed, a
    if f == "mask":
        b = rng_array(seed, (k,) + IMG, "bool")
        if var == 1:
            passed = b.astype(np.uint8) * 255
        elif var == 2 and k == 1:
            passed = b[0]
        elif var == 3:
            passed = [x for x in b]
        else:
            passed = b
        return passed, b
    if f == "qpi_pha":
        a = rng_array(seed, (k,) + IMG, "f8")
        passed = a if var != 2 or k != 1 else a[0]
        return passed, a.astype(np.float32)
    if f == "contour":
        r = np.random.default_rng(seed)
        cs = [r.integers(0, 250, size=(int(r.integers(1, 15)), 2)) for _ in range(k)]
        passed = cs if not (k == 1 and var == 2) else cs[0]
        return passed, cs
    if f == "trace":
        r = np.random.default_rng(seed)
        if names is None:
            names = [t for i, t in enumerate(TRACES) if (var + i) % 3 != 2]
        d = {t: r.integers(-2000, 2000, size=(k, NSAMP)).astype(np.int16)
             for t in names}
        passed = d if not (k == 1 and var == 3) else {t: d[t][0] for t in d}
        return passed, d
    if f == "vf_vec":
        a = rng_array(seed, (k, VEC), "f8")
        return a, a
    raise ValueError(f)


class Model:
    def __init__(self):
        self.reset()

    def reset(self):
        self.feat = {}      # name -> array | list (contour) | dict (trace)
        self.logs = {}
        self.tables = {}
        self.meta = {}

    def length(self, f):
        d = self.feat.get(f)
        if d is None:
            return 0
        if f == "trace":
            return max((len(v) for v in d.values()), default=0)
        if f == "index":
            return d
        return len(d)

    def store(self, f, exp, k, mode):
        if f == "index":
            self.feat[f] = k if mode == "replace" else self.feat.get(f, 0) + k
        elif f == "contour":
            if mode == "replace":
                self.feat[f] = list(exp)
            else:
                self.feat[f] = self.feat.get(f, []) + list(exp)
        elif f == "trace":
            cur = self.feat.setdefault(f, {})
            for t, a in exp.items():
                if mode == "replace" or t not in cur:
                    cur[t] = a
                else:
                    cur[t] = np.concatenate([cur[t], a])
        else:
            if mode == "replace" or f not in self.feat:
                self.feat[f] = exp
            else:
                self.feat[f] = np.concatenate([self.feat[f], exp])


def _table_data(op):
    r = np.random.default_rng(op["seed"])
    rows = op["rows"]
    cols = ["time", "temp_c", "flow"][: 1 + op["seed"] % 3]
    return {c: r.normal(size=rows) for c in cols}


def run_case(spec, rec):
    d = boot.casedir()
    try:
        _run(spec, rec, d)
    finally:
        boot.rmcase(d)


def _run(spec, rec, d):
    feat_temp.register_temporary_feature("vf_vec", is_scalar=False)
    path = d / "w.rtdc"
    side = d / "side.h5"
    N = spec["n"]
    feats = spec["feats"]
    model = Model()
    calls = {f: [] for f in feats}     # (offset, k, chunk_events, session)
    log_appends = {}
    width = {}                         # log name -> byte width frozen at creation
    truncated_logs = set()
    sessions = list(spec["sessions"])
    prev_mode = None
    reopen_between = False
    any_feat_call = False
    for si, sess in enumerate(sessions):
        mode = sess["mode"]
        rec.cls(f"mode:{mode}")
        if si > 0:
            rec.cls("reopen")
        with chunk_bytes(sess["chunk"]):
            hw = RTDCWriter(path, mode=mode)
            if mode == "reset":
                model.reset()
                calls = {f: [] for f in feats}
                log_appends, width = {}, {}
                truncated_logs = set()
            wrote_any = False
            for op in sess["ops"]:
                if op["op"] == "feat":
                    f = op["f"]
                    cur = model.length(f)
                    if mode == "replace":
                        k = cur if cur > 0 else min(op["k"], N)
                    else:
                        k = min(op["k"], N - cur)
                    if k <= 0:
                        continue
                    names = None
                    have = model.feat.get("trace") if f == "trace" else None
                    if have:
                        if mode == "replace":
                            # replace a subset of the existing traces (same length)
                            names = [t for i, t in enumerate(sorted(have))
                                     if (op["variant"] + i) % 2 == 0] or sorted(have)[:1]
                        else:
                            names = sorted(have)   # append to every trace
                    passed, exp = gen_data(f, k, op, names)
                    kw = {}
                    if f == "vf_vec":
                        kw["shape"] = (VEC,)
                    _store(hw, f, passed, kw)
                    if si > 0 and any_feat_call and not wrote_any:
                        reopen_between = True
                    wrote_any = True
                    any_feat_call = True
                    ce = _chunk_events(f, sess["chunk"])
                    calls[f] = ([] if mode == "replace" else calls[f]) + [
                        (0 if mode == "replace" else cur, k, ce, si)]
                    model.store(f, exp, k, mode)
                    rec.cls("kind:" + _kind(f))
                elif op["op"] == "log":
                    lines = op["lines"]
                    enc = op.get("enc", 0)
                    if enc and isinstance(lines, str):
                        passed_lines = lines.encode("utf-8")
                    elif enc:
                        passed_lines = [x.encode("utf-8") if (enc == 1 or i % 2 == 0)
                                        else x for i, x in enumerate(lines)]
                        rec.cls("log-bytes-lines")
                    else:
                        passed_lines = lines
                    hw.store_log(op["name"], passed_lines)
                    ll = [lines] if isinstance(lines, str) else list(lines)
                    nm = op["name"]
                    if mode == "replace" or nm not in model.logs:
                        model.logs[nm] = ll
                        width[nm] = max([100] + [len(x.encode()) for x in ll])
                        log_appends[nm] = 1
                    else:
                        if any(len(x.encode()) > width[nm] for x in ll):
                            truncated_logs.add(nm)
                        model.logs[nm] = model.logs[nm] + ll
                        log_appends[nm] = log_appends.get(nm, 1) + 1
                        rec.cls("log-append")
                elif op["op"] == "bad":
                    what = op["what"]
                    if what == "empty" and (mode == "replace"
                                            or _kind(op["f"]) != "scalar"):
                        continue
                    if what == "contour-batch":
                        # a batch whose last item is not an array: the call raises
                        # after the leading contours were stored; whatever the writer
                        # keeps of them, later contours must follow on consecutively
                        cur = model.length("contour") if "contour" in feats else N
                        if mode == "replace" or N - cur < 1:
                            continue
                        kgood = min(2, N - cur)
                        passed, exp = gen_data("contour", kgood, {
                            "seed": op.get("seed", 0), "variant": 0}, None)
                        try:
                            hw.store_feature("contour", list(passed) + [[[1, 2], [3]]])
                        except (ValueError, TypeError, AttributeError):
                            rec.cls("rejected-call:contour-batch")
                        else:
                            rec.skip("rejected-call-accepted:contour-batch")
                            continue
                        grp = hw.h5file["events"].get("contour", {})
                        kept = len(grp) - cur
                        if not rec.check(kept in (0, kgood),
                                         "rejected-call/contour-batch/kept",
                                         lambda: f"{len(grp)} contours stored after a "
                                                 f"batch of {kgood}+1 failed on {cur}"):
                            return
                        if kept:
                            calls["contour"] = calls["contour"] + [
                                (cur, kgood, _chunk_events("contour", sess["chunk"]), si)]
                            model.store("contour", exp, kgood, mode)
                            wrote_any = True
                            any_feat_call = True
                        continue
                    marker = "vf-must-not-appear"
                    try:
                        if what == "meta-key":
                            hw.store_metadata({"experiment": {"sample": marker},
                                               "setup": {"no such key": 1}})
                        elif what == "meta-section":
                            hw.store_metadata({"experiment": {"sample": marker},
                                               "no such section": {"flow rate": 1}})
                        elif what == "feature-name":
                            hw.store_feature("vf_not_a_feature", np.arange(3.0))
                        else:
                            hw.store_feature(op["f"], np.zeros(0))
                    except ValueError:
                        rec.cls("rejected-call:" + what)
                    else:
                        rec.skip("rejected-call-accepted:" + what)
                        continue
                    rec.check(hw.h5file.attrs.get("experiment:sample") != marker
                              and "vf_not_a_feature" not in hw.h5file.get("events", {}),
                              f"rejected-call/partial-write/{what}",
                              "a call that raised ValueError left part of its "
                              "arguments in the file")
                elif op["op"] == "table":
                    nm = op["name"]
                    if nm in model.tables:
                        continue
                    data = _table_data(op)
                    attrs = {}
                    if op["route"] == "dict":
                        hw.store_table(nm, data)
                    elif op["route"] == "rec":
                        dt = np.dtype({"names": list(data), "formats":
                                       [np.float64] * len(data)})
                        arr = np.zeros(op["rows"], dtype=dt)
                        for c in data:
                            arr[c] = data[c]
                        arr = arr.view(np.recarray)
                        hw.store_table(nm, arr)
                    else:
                        dt = np.dtype({"names": list(data), "formats":
                                       [np.float64] * len(data)})
                        arr = np.zeros(op["rows"], dtype=dt)
                        for c in data:
                            arr[c] = data[c]
                        with h5py.File(side, "a") as hs:
                            if nm in hs:
                                del hs[nm]
                            dsx = hs.create_dataset(nm, data=arr)
                            attrs = {"COLOR_a": "#ff0000", "num": 3}
                            for k_, v_ in attrs.items():
                                dsx.attrs[k_] = v_
                            hw.store_table(nm, dsx)
                    model.tables[nm] = (data, attrs)
                    rec.cls("table")
                else:
                    m = {}
                    for i, vi, _ in op["items"]:
                        sec, key, vals = META_POOL[i]
                        m.setdefault(sec, {})[key] = vals[vi % len(vals)]
                    hw.store_metadata(m)
                    for sec, dd in m.items():
                        for k_, v_ in dd.items():
                            if k_ == "chip region":
                                v_ = v_.lower()    # documented lower-case string
                            model.meta.setdefault(sec, {})[k_] = v_
                    rec.cls("meta")
            if mode != "replace" and sess.get("complete"):
                _complete(spec, rec, hw, model, calls, feats, N, sess["chunk"], si)
            hw.__exit__(None, None, None)
        prev_mode = mode
    # ---- completion phase (only when a feature is still shorter than N)
    if any(model.length(f) != N for f in feats):
        rec.cls("final-append-session")
        with chunk_bytes(spec["fin_chunk"]):
            with RTDCWriter(path, mode="append") as hw:
                _complete(spec, rec, hw, model, calls, feats, N,
                          spec["fin_chunk"], len(sessions))
    else:
        rec.cls("final-session:" + sessions[-1]["mode"])
    # ---- non-triviality
    nt = reopen_between
    for f, cl in calls.items():
        if _kind(f) in ("image", "mask", "trace", "usershaped", "qpi") and len(cl) >= 2:
            if any((o % c) or (k % c) for o, k, c, _ in cl if (o + k) > c or o):
                rec.cls("chunk-crossing-call")
                nt = True
    if any(v >= 2 for v in log_appends.values()):
        nt = True
    if nt:
        rec.nontrivial()
    _verify(spec, rec, path, model, N, truncated_logs)



def _complete(spec, rec, hw, model, calls, feats, N, cb, si):
    """bring every feature to N events through the (append-mode) writer hw"""
    for j, f in enumerate(feats):
        cur = model.length(f)
        rest = N - cur
        if cur > N:
            raise AssertionError("harness: model longer than N")
        parts = []
        if rest > 0:
            s = spec["fin_split"] % (rest + 1)
            parts = [p for p in (s, rest - s) if p > 0]
        for pi, k in enumerate(parts):
            op = {"seed": spec["fin_seed"] + 31 * j + pi + 7 * si, "variant": 0,
                  "vals": [0.5, float("nan"), -1.25, 3.0] if f in FLOAT_SC
                  else [1, 2, 70000]}
            names = sorted(model.feat["trace"]) if (
                f == "trace" and model.feat.get("trace")) else None
            passed, exp = gen_data(f, k, op, names)
            kw = {"shape": (VEC,)} if f == "vf_vec" else {}
            off = model.length(f)
            _store(hw, f, passed, kw)
            calls[f].append((off, k, _chunk_events(f, cb), si))
            model.store(f, exp, k, "append")
            rec.cls("kind:" + _kind(f))


def _has_events(hw):
    try:
        return "events" in hw.h5file and len(hw.h5file["events"]) > 0
    except Exception:
        return False


def _store(hw, f, passed, kw):
    hw.store_feature(f, passed, **kw)


def _kind(f):
    if f in FLOAT_SC or f in INT_SC or f == "index":
        return "scalar"
    return {"image": "image", "image_bg": "image", "mask": "mask",
            "contour": "contour", "trace": "trace", "qpi_pha": "qpi",
            "vf_vec": "usershaped"}[f]


def _chunk_events(f, cb):
    cb = cb or 1024**2
    size = {"image": 54, "image_bg": 54, "mask": 54, "qpi_pha": 54 * 8,
            "trace": NSAMP * 2, "vf_vec": VEC * 8}.get(f, 8)
    return max(10, int(cb // size))


# ------------------------------------------------------------------ the oracle

def _verify(spec, rec, path, model, N, truncated_logs):
    if not model.feat:
        rec.skip("no-feature-written")
        return
    acc_i = [0, N - 1, -1, N // 2]
    sl = slice(1, None, 2)
    bm = np.arange(N) % 3 != 1
    with dclab.new_dataset(path) as ds:
        rec.check(len(ds) == N, "len/dataset", f"len(ds)={len(ds)} expected {N}")
        rec.check(ds.config["experiment"]["event count"] == N, "len/event-count",
                  f"event count {ds.config['experiment'].get('event count')} != {N}")
        idx = np.asarray(ds["index"][:])
        rec.check(eqnan(idx, np.arange(1, N + 1)), "index/enumeration",
                  f"index {idx[:8]}...")
        for f, exp in sorted(model.feat.items()):
            kind = _kind(f)
            if f == "index":
                continue
            rec.check(f in ds.features_innate, f"feature-missing/{kind}",
                      f"{f} not among innate features")
            if f not in ds.features_innate:
                continue
            if kind == "scalar":
                got = ds[f][:]
                rec.check(eqnan(got, exp), f"values/{kind}/whole",
                          lambda: f"{f}: {np.asarray(got)[:6]} vs {exp[:6]}")
                for i in acc_i:
                    rec.check(eqnan(ds[f][i], exp[i]), f"values/{kind}/int", f)
                rec.check(eqnan(ds[f][sl], exp[sl]), f"values/{kind}/slice", f)
                rec.check(eqnan(ds[f][bm], exp[bm]), f"values/{kind}/mask", f)
            elif kind in ("image", "mask", "qpi", "usershaped"):
                obj = ds[f]
                got = np.asarray(obj[:])
                ok = eqnan(got, exp)
                rec.check(ok, f"values/{kind}/whole",
                          lambda: f"{f}: first differing event "
                                  f"{_firstdiff(got, exp)} of {N}")
                for i in acc_i:
                    rec.check(eqnan(obj[i], exp[i]), f"values/{kind}/int", f)
                rec.check(eqnan(obj[sl], exp[sl]), f"values/{kind}/slice", f)
                rec.check(eqnan(obj[bm], exp[bm]), f"values/{kind}/mask", f)
                rec.check(len(obj) == N, f"len/{kind}", f)
                if kind == "mask":
                    rec.check(np.asarray(obj[0]).dtype == bool, "dtype/mask", "")
            elif kind == "contour":
                obj = ds["contour"]
                rec.check(len(obj) == N, "len/contour", f"{len(obj)}")
                ok = all(eqnan(obj[i], exp[i]) for i in range(N))
                rec.check(ok, "values/contour/int", "contour mismatch")
                part = obj[sl]
                rec.check(len(part) == len(exp[sl]) and all(
                    eqnan(a, b) for a, b in zip(part, exp[sl])),
                    "values/contour/slice", "")
                rec.check(eqnan(obj[-1], exp[-1]), "values/contour/negative", "")
            elif kind == "trace":
                obj = ds["trace"]
                rec.check(sorted(obj.keys()) == sorted(exp), "trace/names",
                          f"{sorted(obj.keys())} vs {sorted(exp)}")
                for t in exp:
                    if t not in obj:
                        continue
                    got = np.asarray(obj[t][:])
                    rec.check(eqnan(got, exp[t]), "values/trace/whole",
                              lambda: f"{t}: first diff {_firstdiff(got, exp[t])}")
                    rec.check(eqnan(obj[t][sl], exp[t][sl]), "values/trace/slice", t)
                    rec.check(eqnan(obj[t][N - 1], exp[t][N - 1]),
                              "values/trace/int", t)
        # logs
        for nm, lines in sorted(model.logs.items()):
            if not lines:
                continue
            rec.check(nm in ds.logs, "log/missing", nm)
            if nm not in ds.logs:
                continue
            got = ds.logs[nm]
            sig = ("log/append-longer-than-width" if nm in truncated_logs
                   else "log/lines")
            rec.check(got == lines, sig,
                      lambda: f"log {nm!r}: {[x[:30] for x in got]} vs "
                              f"{[x[:30] for x in lines]} "
                              f"(lengths {[len(x) for x in got]} vs "
                              f"{[len(x) for x in lines]})")
        # tables
        for nm, (data, attrs) in sorted(model.tables.items()):
            rec.check(nm in ds.tables, "table/missing", nm)
            if nm not in ds.tables:
                continue
            tab = ds.tables[nm]
            arr = tab[:]
            rec.check(sorted(arr.dtype.names) == sorted(data), "table/columns",
                      f"{arr.dtype.names}")
            for c in data:
                if c in (arr.dtype.names or ()):
                    rec.check(eqnan(np.ravel(arr[c]), data[c]), "table/cells", c)
            for k_, v_ in attrs.items():
                rec.check(k_ in tab.attrs and tab.attrs[k_] == v_, "table/attrs",
                          f"{k_}")
        # metadata
        for sec, dd in sorted(model.meta.items()):
            for key, val in sorted(dd.items()):
                if (sec, key) in (("experiment", "event count"),):
                    continue
                if key.startswith("roi size") and (
                        "image" in model.feat or "mask" in model.feat):
                    continue    # overwritten from the image shape (checked below)
                got = ds.config[sec].get(key)
                if key == "software version":
                    rec.check(isinstance(got, str) and got.startswith(val)
                              and got.endswith("dclab 0.62.7"), "meta/software-version",
                              lambda: f"software version {got!r} for given {val!r}")
                    continue
                typ = META_TYPES.get(key)
                ok = got == val and (typ is None or isinstance(got, typ)) \
                    and not (typ in (int, float) and isinstance(got, bool))
                if sec == "user":
                    ok = bool(got == val) and (not isinstance(val, str)
                                               or isinstance(got, str))
                rec.check(ok, f"meta/{sec}",
                          lambda: f"[{sec}] {key}: {got!r} ({type(got).__name__}) "
                                  f"expected {val!r}")
        if "image" in model.feat or "mask" in model.feat:
            rec.check(ds.config["imaging"].get("roi size x") == IMG[1]
                      and ds.config["imaging"].get("roi size y") == IMG[0],
                      "meta/roi-size", "")
        if "trace" in model.feat:
            rec.check(ds.config["fluorescence"].get("samples per event") == NSAMP,
                      "meta/samples-per-event", "")
    # ---- raw h5py (independent reader)
    with h5py.File(path, "r") as h5:
        ev = h5["events"]
        for f, exp in sorted(model.feat.items()):
            kind = _kind(f)
            if f == "index":
                rec.check(eqnan(ev["index"][:], np.arange(1, N + 1)),
                          "raw/index", "")
                rec.check(ev["index"].dtype == np.uint32, "raw/dtype/index", "")
            elif kind == "scalar":
                rec.check(ev[f].shape == (N,), "raw/shape/scalar",
                          f"{f} {ev[f].shape}")
                want = {"fl1_max": np.uint32, "nevents": np.uint32,
                        "frame": np.uint64}.get(f)
                if want:
                    rec.check(ev[f].dtype == want, "raw/dtype/scalar",
                              f"{f} {ev[f].dtype}")
                rec.check(eqnan(ev[f][:], exp), "raw/values/scalar", f)
            elif kind in ("image", "qpi", "usershaped"):
                rec.check(eqnan(ev[f][:], exp), f"raw/values/{kind}", f)
            elif kind == "mask":
                rec.check(ev[f].dtype == np.uint8, "raw/dtype/mask", "")
                rec.check(eqnan(ev[f][:] != 0, exp), "raw/values/mask", "")
            elif kind == "contour":
                rec.check(len(ev[f]) == N, "raw/len/contour", f"{len(ev[f])}")
                rec.check(all(str(i) in ev[f] and eqnan(ev[f][str(i)][:], exp[i])
                              for i in range(N)), "raw/values/contour", "")
            elif kind == "trace":
                for t in exp:
                    rec.check(t in ev[f] and eqnan(ev[f][t][:], exp[t]),
                              "raw/values/trace", t)
        rec.check(h5.attrs.get("experiment:event count") == N, "raw/event-count",
                  f"{h5.attrs.get('experiment:event count')}")


def _firstdiff(a, b):
    a, b = np.asarray(a), np.asarray(b)
    if a.shape != b.shape:
        return f"shape {a.shape} vs {b.shape}"
    for i in range(len(a)):
        if not eqnan(a[i], b[i]):
            return i
    return None
