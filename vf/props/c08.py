"""C08 — compress / repack / condense / tdms2rtdc preserve dataset content.

Generator (LAYOUT): the input ``.rtdc`` file is written with *raw h5py* in the
storage layouts the copier branches on (contiguous / chunked / chunk larger
than the data / gzip / lzf / Zstd 1-5-9 / fletcher32 / resizable), with
variable- and fixed-length string logs (also empty, also > 100 bytes with
multi-byte characters), compound tables with attributes, file / mapped /
internal basins (definitions written in three string layouts), software
version strings that trigger the defective-feature rules, an unknown extra
dataset and a registered temporary feature, x task (compress, repack with
strip options, condense with/without ancillary and basin features) x optional
second application of the task to its own output.  tdms2rtdc: every tdms
fixture of the repository x {compute features} x {include boundary images}
(enumerated).

Oracle (h5equiv): raw h5py walk (values bit-identical, dtype, shape, dataset
attributes, decoded log lines, compound tables, root attributes modulo the
documented additions, basin JSON, internal basin data) + comparison through
dclab (innate and basin-provided features of input view == output view) +
condense: every scalar feature of the input view (innate, rapid, basin,
ancillary according to the options) is available in the output with the same
values and nothing non-scalar / unrequested is stored + sha256 of every input
file unchanged + task(task(x)) compared with task(x) by the same comparer.
"""
import hashlib
import json
import pathlib
import zipfile

import h5py
import hdf5plugin
import numpy as np
from hypothesis import strategies as st

from .. import boot
from ..common import quiet, sha256
from ..runner import classify_exception

import dclab
from dclab import RTDCWriter, cli
from dclab import definitions as dfn
from dclab.rtdc_dataset import feat_temp
from dclab.rtdc_dataset.feat_anc_core import FEATURES_RAPID

ID = "C08"
RULE = ("Hypothesis-generated HDF5 layouts x task options (+ the 7 tdms fixtures x 4 option "
        "sets, enumerated); a case is non-trivial when the input holds >= 1 dataset that "
        "takes the re-chunk branch (not Zstd>=5: contiguous, chunked, chunk larger than the "
        "data), the string re-encode branch (variable-length log) or the basin-rewrite "
        "branch (condense of an internal basin with non-scalar features), or when it is a "
        "tdms conversion; distinct = sha1 of the canonical JSON spec")
BUDGET = {"quick": 288, "thorough": 5000}
ESSENTIAL = ["task:compress", "task:repack", "task:condense", "task:tdms2rtdc",
             "branch:contig", "branch:rechunk", "branch:oversize", "branch:asis",
             "log:vlen", "log:fixed", "log:empty", "log:long-multibyte", "table",
             "table:attrs", "basin:file", "basin:mapped", "basin:internal",
             "basin:internal-rewrite", "defect-marker-hit", "unknown-dataset",
             "temp-feature", "second-application", "opt:strip-logs",
             "opt:strip-basins", "opt:no-ancillary", "opt:no-basin-features",
             "kind:image", "kind:contour", "kind:trace", "kind:mask"]
#: rounds after a violation (each round re-runs the remaining budget with the
#: signatures found so far excluded); 3 keeps runs against broken trees short
MAX_ROUNDS = 3
ASSUMPTIONS = [
    "version shim (dclab._version pre-seeded with 0.62.7)",
    "the defective-feature rules are transcribed from the docstrings of feat_defect.py for "
    "the fixed list of software-version strings the generator uses",
    "datasets that are not dclab features (unknown names) are outside the statement: "
    "nothing is asserted about them",
    "condense drops an older dclab-condense log when the renamed name already exists "
    "(documented in the code): dclab-condense* logs are not compared for condense",
    "log lines exclude NUL / control characters (not representable in HDF5 strings)",
    "tdms inputs: repository fixtures only; the tdms reader is trusted (source side of the "
    "comparison), events are limited to the smallest common feature length as documented "
    "in export.hdf5",
]

# ------------------------------------------------------------------ constants

FLOATS = ["deform", "circ", "area_cvx", "area_msd", "area_um", "bright_avg",
          "pos_x", "pos_y", "size_x", "size_y", "userdef1", "aspect", "time",
          "volume", "inert_ratio_cvx", "inert_ratio_raw", "inert_ratio_prnc",
          "tilt", "temp"]
INTS = {"frame": "u8", "nevents": "i4", "fl1_max": "i2", "fl2_max": "i2",
        "index_online": "u4"}
NONSC = ["image", "image_bg", "mask", "contour", "trace", "qpi_pha"]
TRACES = ["fl1_raw", "fl1_median", "fl2_raw"]
DEFECTABLE = ["aspect", "time", "volume", "inert_ratio_cvx", "inert_ratio_raw",
              "inert_ratio_prnc", "tilt"]
for _f in FLOATS + list(INTS) + NONSC + ["userdef2", "userdef3", "fl3_max"]:
    assert dfn.feature_exists(_f), _f

#: software version strings -> (first element, last dclab version or None)
SW = [
    ("ShapeIn 2.4.1", None),
    ("ShapeIn 2.0.6", None),
    ("ShapeIn 2.0.7", None),
    ("ShapeIn 2.0.4 | dclab 0.30.1", (0, 30, 1)),
    ("ShapeIn 2.0.5 | dclab 0.47.0", (0, 47, 0)),
    ("dclab 0.36.0", (0, 36, 0)),
    ("ChipStream 0.1.0 | dclab 0.48.1", (0, 48, 1)),
    ("2.5.1 | dclab 0.48.2", (0, 48, 2)),
    ("ShapeIn 2.2.2 | dclab 0.62.7", (0, 62, 7)),
    (None, None),
]
#: (feature, index into SW, needs a wide ROI) - combinations for which the
#: documented rules call the stored feature defective
DEFECT_COMBOS = [("aspect", 1, False), ("aspect", 2, False), ("volume", 3, False),
                 ("volume", 5, False), ("time", 3, False), ("time", 4, False),
                 ("inert_ratio_prnc", 6, True), ("tilt", 7, True),
                 ("inert_ratio_raw", 5, True), ("inert_ratio_cvx", 3, True),
                 ("inert_ratio_cvx", 7, True)]
SPECIAL = [float("nan"), float("inf"), float("-inf"), -0.0, 5e-324, 1e300, -1e300]
COMPS = ["none", "gzip", "lzf", "zstd1", "zstd5", "zstd9", "shuffle-gzip"]
CHUNKS = ["1", "3", "10", "L-1", "L", "L+1", "2L", "100"]
TABCOLS = [("time", "<f8"), ("temp", "<f4"), ("count", "<i4"), ("flag", "u1"),
           ("pressure", "<f8")]
LOGNAMES = ["log0", "cfg-ü", "M1_para.ini", "dclab-compress", "dclab-condense",
            "dclab-compress-warnings", "dclab_issue_141", "shapein-acquisition",
            "dclab-condense_abc"]
RID = "vf-rid-1"
#: features the writer documents as stored unsigned (writer.FEATURES_UINT32)
UINT32_FEATS = ["fl1_max", "fl1_npeaks", "fl2_max", "fl2_npeaks", "fl3_max",
                "fl3_npeaks", "index", "ml_class", "nevents"]


# ------------------------------------------------------------------ strategies

@st.composite
def st_layout(draw, vlen=False):
    k = draw(st.sampled_from(["contig", "chunk", "chunk", "chunk", "over"]))
    if k == "contig":
        return {"k": "contig"}
    lay = {"k": "chunk",
           "ce": draw(st.sampled_from(CHUNKS[:5] if k == "chunk" else CHUNKS[5:])),
           "comp": draw(st.sampled_from(["none", "gzip"] if vlen else COMPS)),
           "fl": False if vlen else draw(st.booleans()),
           "rs": draw(st.booleans()),
           "half": draw(st.booleans())}
    return lay


LINE = st.text(alphabet=st.characters(blacklist_categories=("Cs", "Cc")),
               max_size=30)
LONGLINE = st.builds(lambda c, k: c * k, st.sampled_from(["x", "ü", "€", "a ü"]),
                     st.integers(40, 130))


@st.composite
def st_feat(draw, name):
    f = {"f": name, "lay": draw(st_layout()), "seed": draw(st.integers(0, 2**16)),
         "at": draw(st.integers(0, 3))}
    if name in FLOATS or name in ("vf_tmp", "vf_unknown"):
        f["dt"] = draw(st.sampled_from(["f8", "f8", "f4"]))
        f["sp"] = draw(st.lists(st.tuples(st.integers(0, 60),
                                          st.integers(0, len(SPECIAL) - 1)),
                                max_size=4))
        f["allnan"] = draw(st.sampled_from([False] * 9 + [True]))
    if name == "trace":
        f["names"] = draw(st.lists(st.sampled_from(TRACES), min_size=1,
                                   max_size=3, unique=True))
        f["samples"] = draw(st.sampled_from([1, 2, 7, 20]))
    return f


@st.composite
def st_log(draw, name):
    enc = draw(st.sampled_from(["vlen", "vlen", "fixed", "fixed", "empty"]))
    lg = {"name": name, "enc": enc, "lay": draw(st_layout(vlen=True)),
          "lines": [], "pad": 0}
    if enc == "empty":
        lg["kind"] = draw(st.sampled_from(["vlen", "fixed"]))
        if lg["kind"] == "fixed":
            lg["lay"] = draw(st_layout())
        return lg
    if enc == "fixed":
        lg["lay"] = draw(st_layout())
        lg["pad"] = draw(st.sampled_from([0, 0, 1, 50, 100]))
    lg["lines"] = draw(st.lists(st.one_of(LINE, LINE, LONGLINE), min_size=1,
                                max_size=5))
    return lg


@st.composite
def st_table(draw, name):
    return {"name": name, "rows": draw(st.sampled_from([0, 1, 1, 2, 3, 5, 11])),
            "cols": draw(st.lists(st.integers(0, len(TABCOLS) - 1), min_size=1,
                                  max_size=4, unique=True)),
            "seed": draw(st.integers(0, 2**16)),
            "attrs": draw(st.booleans()),
            "lay": draw(st_layout())}


@st.composite
def st_basin(draw):
    kind = draw(st.sampled_from(["file", "mapped", "int-sc", "int-mixed",
                                 "int-mixed", "int-nonsc"]))
    return {"kind": kind, "seed": draw(st.integers(0, 2**16)),
            "enc": draw(st.sampled_from(["fixed-zstd1", "fixed-zstd1", "vlen",
                                         "fixed-zstd5", "fixed-contig"])),
            "restrict": draw(st.booleans()),
            # internal basin that also lists a feature the file stores itself
            "overlap": draw(st.sampled_from([False, False, False, True])),
            "image": draw(st.booleans()),
            "m": draw(st.integers(1, 12))}


@st.composite
def st_spec(draw):
    n = draw(st.one_of(
        st.sampled_from([1, 2, 3, 9, 10, 11, 19, 20, 21, 31]),
        st.integers(1, 40)))
    if draw(st.integers(0, 30)) == 17:
        n = 0      # file without events (kept rare: the tasks raise, see known findings)
    nsc = draw(st.lists(st.sampled_from(FLOATS + list(INTS)), min_size=1,
                        max_size=6, unique=True))
    # defect-prone features are drawn more often together with their triggers
    if draw(st.booleans()):
        nsc = sorted(set(nsc) | set(draw(st.lists(
            st.sampled_from(DEFECTABLE + ["frame"]), min_size=1, max_size=3))))
    nons = draw(st.lists(st.sampled_from(NONSC + ["mask", "contour", "image"]),
                         max_size=3, unique=True))
    # ... and in a third of the cases one complete trigger combination
    # (feature, software version[, wide ROI, frame + frame rate]) is forced
    combo = draw(st.one_of(st.none(), st.none(), st.sampled_from(DEFECT_COMBOS)))
    if combo is not None:
        nsc = sorted(set(nsc) | {combo[0]} | ({"frame"} if combo[0] == "time" else set()))
        if combo[2]:
            nons = [x for x in nons if x not in ("image", "mask")]
    names = sorted(set(nsc)) + sorted(nons)
    if draw(st.integers(0, 4)) == 0:
        names.append("vf_unknown")
    if draw(st.integers(0, 4)) == 0:
        names.append("vf_tmp")
    feats = [draw(st_feat(nm)) for nm in names]
    lognames = draw(st.lists(st.sampled_from(LOGNAMES), max_size=3, unique=True))
    tabnames = draw(st.lists(st.sampled_from(["tab0", "src_tab", "tab-ü"]),
                             max_size=2, unique=True))
    nb = draw(st.sampled_from([0, 0, 1, 1, 1, 1, 1, 1, 2, 3]))
    task = draw(st.sampled_from(["compress", "repack", "condense", "condense"]))
    spec = {
        "n": n,
        "sw": draw(st.integers(0, len(SW) - 1)) if combo is None else combo[1],
        "roi_x": draw(st.sampled_from([None, 250, 600, 600]))
        if combo is None or not combo[2] else 600,
        "framerate": draw(st.sampled_from([2000.0, 2000.0, 0.0, None]))
        if combo is None else 2000.0,
        "hw": [draw(st.integers(5, 8)), draw(st.integers(6, 11))],
        "feats": feats,
        "logs": [draw(st_log(nm)) for nm in lognames],
        "tables": [draw(st_table(nm)) for nm in tabnames],
        "basins": [draw(st_basin()) for _ in range(nb)],
        "task": task,
        "opts": {"strip_logs": draw(st.booleans()),
                 "strip_basins": draw(st.booleans()),
                 "anc": draw(st.booleans()),
                 "bas": draw(st.booleans())},
        "second": draw(st.booleans()),
    }
    return spec


def strategy(tier):
    return st_spec()


def enumerate_cases(tier):
    names = sorted(p.name for p in
                   pathlib.Path(boot.REPO, "tests", "data").glob("fmt-tdms_*.zip"))
    out = []
    for nm in names:
        for cf in (False, True):
            for skip in (True, False):
                out.append({"tdms": nm, "cf": cf, "skip": skip})
    return out


def sample_view(spec):
    if "tdms" in spec:
        return spec
    return {"n": spec["n"], "task": spec["task"], "opts": spec["opts"],
            "second": spec["second"], "sw": SW[spec["sw"]][0],
            "feats": [[f["f"], f["lay"]] for f in spec["feats"]],
            "logs": [[lg["name"], lg["enc"], len(lg["lines"])] for lg in spec["logs"]],
            "tables": [[t["name"], t["rows"]] for t in spec["tables"]],
            "basins": [b["kind"] for b in spec["basins"]]}


# ------------------------------------------------------------------ writing

def comp_kwargs(c):
    if c == "none":
        return {}
    if c == "gzip":
        return {"compression": "gzip", "compression_opts": 4}
    if c == "shuffle-gzip":
        return {"compression": "gzip", "shuffle": True}
    if c == "lzf":
        return {"compression": "lzf"}
    return dict(hdf5plugin.Zstd(clevel=int(c[4:])))


def chunk_events(lay, L):
    return {"1": 1, "3": 3, "10": 10, "L-1": max(1, L - 1), "L": max(1, L),
            "L+1": L + 1, "2L": max(2, 2 * L), "100": 100}[lay["ce"]]


def branch_of(lay, L):
    """which branch of h5ds_copy a dataset of length L in this layout takes"""
    if L == 0:
        return "empty"
    if lay["k"] == "contig":
        return "contig"
    ok = lay["comp"] in ("zstd5", "zstd9")
    over = chunk_events(lay, L) > L
    if ok:
        return "asis"
    return "oversize" if over else "rechunk"


def mk(group, name, data, lay, dtype=None):
    """create a dataset in the given layout (`data`: array, or list of str
    together with a string `dtype`)"""
    if isinstance(data, list):
        shape = (len(data),)
    else:
        data = np.asarray(data)
        shape = tuple(data.shape)
    L = shape[0]
    kw = {}
    if lay["k"] != "contig":
        ce = chunk_events(lay, L)
        inner = list(shape[1:])
        if lay.get("half") and inner:
            inner[0] = max(1, (inner[0] + 1) // 2)
        kw["chunks"] = (ce,) + tuple(inner)
        if lay["rs"] or ce > L or L == 0:
            kw["maxshape"] = (None,) + shape[1:]
        kw["fletcher32"] = bool(lay["fl"])
        kw.update(comp_kwargs(lay["comp"]))
    if L == 0:
        return group.create_dataset(
            name, shape=shape, dtype=dtype if dtype is not None else data.dtype, **kw)
    if dtype is not None:
        return group.create_dataset(name, data=data, dtype=dtype, **kw)
    return group.create_dataset(name, data=data, **kw)


def scalar_data(f, n):
    r = np.random.default_rng(f["seed"])
    nm = f["f"]
    if nm in INTS:
        dt = np.dtype(INTS[nm])
        if nm == "frame":
            a = np.cumsum(r.integers(1, 50, size=n)).astype(dt)
        else:
            a = r.integers(0, 30000, size=n).astype(dt)
        return a
    a = r.normal(size=n) * 10 ** int(r.integers(-2, 4))
    if nm in ("area_cvx", "area_msd", "size_x", "size_y", "circ", "pos_x", "pos_y"):
        a = np.abs(a) + 0.1
    for pos, si in f.get("sp", []):
        if n:
            a[pos % n] = SPECIAL[si]
    if f.get("allnan"):
        a[:] = np.nan
    return a.astype(np.dtype(f.get("dt", "f8")))


def rects(seed, n, hw):
    r = np.random.default_rng(seed + 77)
    H, W = hw
    out = []
    for _ in range(n):
        x0 = int(r.integers(1, W - 3))
        y0 = int(r.integers(1, H - 3))
        w = int(r.integers(2, W - x0))
        h = int(r.integers(2, H - y0))
        out.append((x0, y0, w, h))
    return out


def rect_contour(x0, y0, w, h):
    pts = [(x, y0) for x in range(x0, x0 + w)]
    pts += [(x0 + w - 1, y) for y in range(y0 + 1, y0 + h)]
    pts += [(x, y0 + h - 1) for x in range(x0 + w - 2, x0 - 1, -1)]
    pts += [(x0, y) for y in range(y0 + h - 2, y0, -1)]
    return np.array(pts, dtype=np.int32)


def attr_payload(mode, arr=None):
    at = {}
    if mode in (2, 3):
        at["vf_note"] = "nöte"
        at["CLASS"] = np.bytes_("IMAGE")
        at["vf_vec"] = np.array([1.5, -2.0, np.nan])
        at["vf_int"] = np.int32(7)
    return at


def write_input(path, spec, d, info):
    """write the input file with raw h5py; fills `info` (branches, expectations)"""
    n = spec["n"]
    hw = spec["hw"]
    sw, _ = SW[spec["sw"]]
    names = [f["f"] for f in spec["feats"]]
    with h5py.File(path, "w") as h5:
        at = h5.attrs
        at["experiment:sample"] = "vf sämple"
        at["experiment:run index"] = 1
        at["experiment:date"] = "2021-03-04"
        at["experiment:time"] = "12:00:00"
        at["experiment:run identifier"] = RID
        at["experiment:event count"] = n
        at["imaging:pixel size"] = 0.34
        at["imaging:flash device"] = "LED"
        at["setup:channel width"] = 20.0
        at["setup:flow rate"] = 0.04
        at["setup:medium"] = "CellCarrier"
        at["setup:chip region"] = "channel"
        at["setup:identifier"] = "ZMDD-AcC-8ecba5-cd57e2"
        at["user:operator"] = "björn"
        at["user:levels"] = np.array([1, 2, 3])
        if spec["framerate"] is not None:
            at["imaging:frame rate"] = spec["framerate"]
        if sw is not None:
            at["setup:software version"] = sw
        has_img = any(nm in names for nm in ("image", "mask"))
        if has_img and n:
            at["imaging:roi size x"] = hw[1]
            at["imaging:roi size y"] = hw[0]
        elif spec["roi_x"] is not None:
            at["imaging:roi size x"] = spec["roi_x"]
            at["imaging:roi size y"] = 80
        ev = h5.create_group("events")
        rc = rects(spec["feats"][0]["seed"], n, hw)
        for f in spec["feats"]:
            nm, lay = f["f"], f["lay"]
            if nm == "contour":
                g = ev.create_group("contour")
                for i in range(n):
                    c = rect_contour(*rc[i])
                    dsi = mk(g, str(i), c, lay)
                    if f["at"] in (2, 3) and i == 0:
                        dsi.attrs["vf_note"] = "c0"
                info["branch"][nm] = branch_of(lay, 4) if n else "empty"
                continue
            if nm == "trace":
                g = ev.create_group("trace")
                r = np.random.default_rng(f["seed"])
                for t in sorted(f["names"]):
                    a = r.integers(-2000, 2000, size=(n, f["samples"])).astype(np.int16)
                    dst = mk(g, t, a, lay)
                    for k, v in attr_payload(f["at"]).items():
                        dst.attrs[k] = v
                if n:
                    at["fluorescence:samples per event"] = f["samples"]
                info["branch"][nm] = branch_of(lay, n)
                continue
            if nm in ("image", "image_bg"):
                a = np.random.default_rng(f["seed"]).integers(
                    0, 256, size=(n, hw[0], hw[1])).astype(np.uint8)
                if nm == "image" and n and f["seed"] % 3 == 0:
                    a[0] = 0   # Shape-In style empty first frame
            elif nm == "mask":
                a = np.zeros((n, hw[0], hw[1]), dtype=np.uint8)
                for i, (x0, y0, w, h) in enumerate(rc):
                    a[i, y0:y0 + h, x0:x0 + w] = 255
            elif nm == "qpi_pha":
                a = np.random.default_rng(f["seed"]).normal(
                    size=(n, hw[0], hw[1])).astype(np.float32)
            else:
                a = scalar_data(f, n)
            dst = mk(ev, nm, a, lay)
            if f["at"] in (1, 3) and a.ndim == 1 and n:
                dst.attrs["min"] = np.nanmin(a)
                dst.attrs["max"] = np.nanmax(a)
                dst.attrs["mean"] = np.nanmean(a)
            for k, v in attr_payload(f["at"]).items():
                dst.attrs[k] = v
            info["branch"][nm] = branch_of(lay, n)
        # logs
        if spec["logs"]:
            lg_grp = h5.create_group("logs")
        for lg in spec["logs"]:
            enc = lg["enc"]
            if enc == "empty":
                dt = h5py.string_dtype() if lg["kind"] == "vlen" else "S100"
                mk(lg_grp, lg["name"], np.zeros(0, dtype="S1"), lg["lay"], dtype=dt)
            elif enc == "vlen":
                mk(lg_grp, lg["name"], list(lg["lines"]), lg["lay"],
                   dtype=h5py.string_dtype())
            else:
                bl = [ln.encode("utf-8") for ln in lg["lines"]]
                width = max(1, max(len(b) for b in bl) + lg["pad"])
                mk(lg_grp, lg["name"], np.array(bl, dtype=f"S{width}"), lg["lay"])
        # tables
        if spec["tables"]:
            tb_grp = h5.create_group("tables")
        for tb in spec["tables"]:
            dt = np.dtype([TABCOLS[i] for i in sorted(tb["cols"])])
            r = np.random.default_rng(tb["seed"])
            a = np.zeros(tb["rows"], dtype=dt)
            for cn in dt.names:
                a[cn] = (r.normal(size=tb["rows"]) * 100).astype(dt[cn])
            t = mk(tb_grp, tb["name"], a, tb["lay"])
            if tb["attrs"]:
                t.attrs["COLOR_" + dt.names[0]] = "#ff0000"
                t.attrs["vf_scale"] = 2.5
        # basins
        write_basins(h5, spec, d, info)


def basin_lines(bdict):
    return json.dumps(bdict, indent=2).split("\n")


def write_basins(h5, spec, d, info):
    n = spec["n"]
    names = [f["f"] for f in spec["feats"]]
    kmap = 0
    info["basin_files"] = []
    info["basin_kinds"] = []
    info["internal_feats"] = []
    for bi, b in enumerate(spec["basins"]):
        kind = b["kind"]
        r = np.random.default_rng(b["seed"])
        if kind in ("file", "mapped"):
            bp = d / f"basin{bi}.rtdc"
            m = n if kind == "file" else b["m"]
            if m == 0:
                continue
            bfeats = {"userdef2": r.normal(size=m),
                      "fl3_max": r.integers(0, 999, size=m).astype(float)}
            if b["image"] and "image_bg" not in names:
                bfeats["image_bg"] = r.integers(
                    0, 255, size=(m, spec["hw"][0], spec["hw"][1])).astype(np.uint8)
            with RTDCWriter(bp) as hw:
                hw.store_metadata({
                    "experiment": {"run identifier": RID if kind == "file"
                                   else RID[:6], "sample": "vf", "run index": 1},
                    "imaging": {"pixel size": 0.34},
                    "setup": {"channel width": 20.0, "flow rate": 0.04}})
                for k in sorted(bfeats):
                    hw.store_feature(k, bfeats[k])
            info["basin_files"].append(bp)
            bd = {"description": "vf bäsin", "format": "hdf5", "name": f"b{bi}",
                  "type": "file",
                  "features": (sorted(bfeats)[:2] if b["restrict"] else None),
                  "mapping": "same", "paths": [str(bp), bp.name]}
            if kind == "mapped":
                bd["mapping"] = f"basinmap{kmap}"
                bmap = r.integers(0, m, size=n).astype(np.uint64)
                mk(h5["events"], f"basinmap{kmap}", bmap,
                   spec["feats"][0]["lay"])
                kmap += 1
        else:
            m = b["m"]
            grp = h5.require_group("basin_events")
            ifeats = {}
            if kind == "int-nonsc" and ("image_bg" in names or "image_bg" in grp):
                kind = "int-sc"
            if kind != "int-nonsc":
                # (int-nonsc: an internal basin with non-scalar features only, as
                # written by segmentation pipelines; condense has nothing to keep)
                if "userdef3" in grp:
                    continue
                ifeats["userdef3"] = r.normal(size=m)
                ov = [f for f in ("deform", "circ", "area_um", "userdef1", "pos_x")
                      if f in names and f not in grp]
                if b.get("overlap") and ov:
                    # stored innately *and* offered by the internal basin (the
                    # innate data take precedence and must survive the copy)
                    ifeats[ov[0]] = r.normal(size=m)
                    info.setdefault("overlap", []).append(ov[0])
            if kind in ("int-mixed", "int-nonsc") and "image_bg" not in names \
                    and "image_bg" not in grp:
                ifeats["image_bg"] = r.integers(
                    0, 255, size=(m, spec["hw"][0], spec["hw"][1])).astype(np.uint8)
            elif kind == "int-mixed":
                kind = "int-sc"
            for k in sorted(ifeats):
                mk(grp, k, ifeats[k], spec["feats"][-1]["lay"])
            bmap = r.integers(0, m, size=n).astype(np.uint64)
            mk(h5["events"], f"basinmap{kmap}", bmap, spec["feats"][0]["lay"])
            bd = {"description": None, "format": "h5dataset", "name": f"b{bi}",
                  "type": "internal", "features": sorted(ifeats),
                  "mapping": f"basinmap{kmap}", "paths": ["basin_events"]}
            kmap += 1
            info["internal_feats"] += sorted(ifeats)
        lines = basin_lines(bd)
        # dataset name of the definition: any unique string will do; it must
        # not depend on the scratch path (determinism of the case)
        key = hashlib.md5(f"vf-basin-{bi}-{b['seed']}-{kind}".encode()).hexdigest()
        g = h5.require_group("basins")
        enc = b["enc"]
        if enc == "vlen":
            g.create_dataset(key, data=lines, dtype=h5py.string_dtype())
        else:
            bl = np.array([ln.encode("utf-8") for ln in lines])
            bl = bl.astype(f"S{max(100, bl.dtype.itemsize)}")
            if enc == "fixed-contig":
                g.create_dataset(key, data=bl)
            else:
                g.create_dataset(key, data=bl, chunks=True, maxshape=(None,),
                                 fletcher32=True,
                                 **hdf5plugin.Zstd(clevel=int(enc[-1])))
        info["basin_kinds"].append(kind)


# ------------------------------------------------------------------ model

def ver_lt(v, ref):
    return v is not None and v < ref


def expected_defective(feat, spec, names, lognames, time_f4, emptylogs=()):
    """own transcription of the documented rules of feat_defect.py
    (None = the rules do not say: marker log present but empty, ...)"""
    sw, last = SW[spec["sw"]]
    if spec.get("_branded"):
        # input of a second application of compress / condense: the first
        # run appended the current dclab version to the version string
        sw, last = brand(sw), (0, 62, 7)
    sw = sw or ""
    first = sw.split("|")[0].strip()
    if feat == "aspect":
        return sw in ("ShapeIn 2.0.6", "ShapeIn 2.0.7")
    if feat == "time":
        if "frame" not in names or not spec["framerate"]:
            return False
        if time_f4:
            return True
        if "ShapeIn" not in sw:
            return False
        return ver_lt(last, (0, 47, 6))
    if feat == "volume":
        if "dclab_issue_141" in emptylogs:
            return None
        if "dclab_issue_141" in lognames:
            return False
        return ver_lt(last, (0, 37, 0))
    if feat in ("inert_ratio_prnc", "tilt", "inert_ratio_cvx", "inert_ratio_raw"):
        wide = (spec["_roi_x"] or 0) > 500
        base = wide and ver_lt(last, (0, 48, 3))
        if feat in ("inert_ratio_prnc", "tilt") or not base:
            return base
        if first.startswith("ShapeIn"):
            siv = tuple(int(x) for x in first.split()[1].split("."))
        elif "shapein-acquisition" in emptylogs:
            return None
        elif "shapein-acquisition" in lognames:
            try:
                siv = tuple(int(x) for x in first.split("."))
            except ValueError:
                # acquisition log of Shape-In but a first version element that
                # is no Shape-In version number: not a realistic file
                return None
        else:
            return True
        return not siv >= (2, 0, 5)
    return False


def brand(sw):
    chain = [v.strip() for v in (sw or "").split("|") if v.strip()]
    cur = "dclab 0.62.7"
    if not chain or chain[-1] != cur:
        chain.append(cur)
    return " | ".join(chain)


#: calibration: largest observed |complemented mean - float64 mean| / max|x|
CAL = {"f4": 0.0, "f8": 0.0}

RECTIFY_KEYS = {"experiment:event count", "fluorescence:samples per event",
                "fluorescence:channel count", "imaging:roi size x",
                "imaging:roi size y"}


# ------------------------------------------------------------------ comparer

def dec_lines(dset):
    out = []
    for x in dset[:] if dset.shape[0] else []:
        if isinstance(x, bytes):
            x = x.decode("utf-8", errors="replace")
        out.append(str(x))
    return out


def attr_eq(a, b):
    if isinstance(a, (bytes, np.bytes_)) != isinstance(b, (bytes, np.bytes_)):
        return False
    if isinstance(a, (str, bytes, np.bytes_, np.str_)):
        return type(a) is type(b) and a == b
    a, b = np.asarray(a), np.asarray(b)
    if a.shape != b.shape or a.dtype != b.dtype:
        return False
    return a.tobytes() == b.tobytes()


def n_distinct(a):
    a = np.asarray(a, dtype=np.float64)
    return len(np.unique(a[np.isfinite(a)]))


def zstd_level(dset):
    fa = dset.id.get_create_plist().get_filter_by_id(32015)
    if fa is None:
        return None
    return fa[1][0] if len(fa[1]) else 0


class Cmp:
    """structural comparison src -> dst (dst must contain src)"""

    def __init__(self, rec, pre, task):
        self.rec = rec
        self.pre = pre
        self.task = task

    def ck(self, cond, sig, msg):
        return self.rec.check(cond, self.pre + sig, msg)

    def dataset(self, src, dst, what, tag, values_only=False):
        ok = self.ck(isinstance(dst, h5py.Dataset), f"{what}/type/{tag}",
                     lambda: f"{src.name}: output object is {type(dst)}")
        if not ok:
            return
        ok = self.ck(src.shape == dst.shape, f"{what}/shape/{tag}",
                     lambda: f"{src.name}: shape {src.shape} -> {dst.shape}")
        if ok and not values_only:
            self.ck(src.dtype == dst.dtype, f"{what}/dtype/{tag}",
                    lambda: f"{src.name}: dtype {src.dtype} -> {dst.dtype}")
        if ok and src.size:
            a, b = src[()], dst[()]
            same = (a.tobytes() == b.tobytes()) if a.dtype == b.dtype else \
                bool(np.array_equal(a, b))
            self.ck(same, f"{what}/values/{tag}",
                    lambda: f"{src.name}: values differ "
                            f"(first rows {a[:3].tolist()} vs {b[:3].tolist()})")
        if not values_only:
            self.attrs(src, dst, f"{what}/attrs/{tag}")

    def attrs(self, src, dst, sig):
        for k in src.attrs:
            self.ck(k in dst.attrs and attr_eq(src.attrs[k], dst.attrs[k]), sig,
                    lambda: f"{src.name}: attribute {k!r} "
                            f"{src.attrs[k]!r} -> {dst.attrs.get(k, '<missing>')!r}")

    def tree(self, src, dst, what, tag):
        """feature stored as dataset or group (contour / trace)"""
        if isinstance(src, h5py.Dataset):
            self.dataset(src, dst, what, tag)
            return
        ok = self.ck(isinstance(dst, h5py.Group), f"{what}/type/{tag}",
                     lambda: f"{src.name}: output object is {type(dst)}")
        if not ok:
            return
        ks, kd = sorted(src.keys()), sorted(dst.keys())
        self.ck(ks == kd, f"{what}/members/{tag}",
                lambda: f"{src.name}: members {ks[:8]} -> {kd[:8]} "
                        f"({len(ks)} vs {len(kd)})")
        for k in ks:
            if k in dst:
                self.dataset(src[k], dst[k], what, tag)


def feat_kind(nm):
    if nm in ("image", "image_bg", "qpi_pha"):
        return "image" if nm != "qpi_pha" else "qpi"
    if nm in ("mask", "contour", "trace"):
        return nm
    if nm.startswith("basinmap"):
        return "basinmap"
    if nm == "vf_tmp":
        return "temp"
    return "scalar"


def view_data(ds, feat):
    """feature data through dclab as plain python/numpy objects"""
    if feat == "contour":
        return [np.asarray(ds["contour"][i]) for i in range(len(ds))]
    if feat == "trace":
        return {k: np.asarray(ds["trace"][k][:]) for k in sorted(ds["trace"].keys())}
    return np.asarray(ds[feat][:])


def view_eq(a, b):
    if isinstance(a, list):
        return isinstance(b, list) and len(a) == len(b) and \
            all(x.shape == y.shape and np.array_equal(x, y) for x, y in zip(a, b))
    if isinstance(a, dict):
        return isinstance(b, dict) and sorted(a) == sorted(b) and \
            all(view_eq(a[k], b[k]) for k in a)
    if a.shape != b.shape:
        return False
    if a.dtype.kind == "f" or b.dtype.kind == "f":
        return bool(np.array_equal(a.astype(np.float64), b.astype(np.float64),
                                   equal_nan=True))
    return bool(np.array_equal(a, b))


# ------------------------------------------------------------------ interpreter

def run_case(spec, rec):
    d = boot.casedir()
    try:
        with quiet():
            if "tdms" in spec:
                run_tdms(spec, rec, d)
            else:
                run_layout(spec, rec, d)
    finally:
        boot.rmcase(d)


def call_task(rec, task, opts, pin, pout, cls, pre=""):
    try:
        if task == "compress":
            cli.compress(path_in=pin, path_out=pout)
        elif task == "repack":
            cli.repack(path_in=pin, path_out=pout,
                       strip_basins=opts["strip_basins"],
                       strip_logs=opts["strip_logs"])
        else:
            cli.condense(path_in=pin, path_out=pout,
                         store_ancillary_features=opts["anc"],
                         store_basin_features=opts["bas"])
        return True
    except Exception as e:  # noqa
        isd, where = classify_exception(e, boot.REPO)
        if not isd:
            raise
        sig = f"raises/{type(e).__name__}/{where}/{cls}"
        if cls == "zero-events":
            # one signature per task for the class "file without events"
            sig = f"raises/zero-events/{task}"
        rec.fail(pre + sig,
                 f"dclab-{task} raised {type(e).__name__} in {where}: {str(e)[:300]}")
        return False


def run_layout(spec, rec, d):
    n = spec["n"]
    task = spec["task"]
    opts = spec["opts"]
    names = [f["f"] for f in spec["feats"]]
    if "vf_tmp" in names:
        feat_temp.register_temporary_feature("vf_tmp", is_scalar=True)
        rec.cls("temp-feature")
    if "vf_unknown" in names:
        rec.cls("unknown-dataset")
    pin = d / "in.rtdc"
    info = {"branch": {}}
    write_input(pin, spec, d, info)
    with h5py.File(pin) as h5:
        spec = dict(spec, _roi_x=h5.attrs.get("imaging:roi size x"))
    # ---- classes
    rec.cls(f"task:{task}")
    for nm, br in info["branch"].items():
        rec.cls(f"branch:{br}")
        if nm in NONSC:
            rec.cls(f"kind:{nm}")
    nt = any(br in ("contig", "rechunk", "oversize")
             for br in info["branch"].values())
    for lg in spec["logs"]:
        rec.cls(f"log:{lg['enc']}")
        if lg["enc"] == "vlen":
            nt = True
        if any(len(ln.encode()) > 100 and len(ln) < len(ln.encode())
               for ln in lg["lines"]):
            rec.cls("log:long-multibyte")
    for tb in spec["tables"]:
        rec.cls("table")
        if tb["attrs"]:
            rec.cls("table:attrs")
    for k in info["basin_kinds"]:
        rec.cls({"file": "basin:file", "mapped": "basin:mapped"}.get(
            k, "basin:internal"))
    if info.get("overlap"):
        rec.cls("basin:internal-overlaps-innate")
    nbas = len(info["basin_kinds"])
    if nbas >= 2:
        rec.cls("basin:multi")
    if task == "condense" and "int-mixed" in info["basin_kinds"]:
        rec.cls("basin:internal-rewrite")
        nt = True
    if task == "condense" and "int-nonsc" in info["basin_kinds"]:
        rec.cls("basin:internal-dropped")
        if info["basin_kinds"][-1] != "int-nonsc" or nbas >= 2:
            rec.cls("basin:internal-dropped+others")
        nt = True
    if task == "repack":
        if opts["strip_logs"]:
            rec.cls("opt:strip-logs")
        if opts["strip_basins"]:
            rec.cls("opt:strip-basins")
    if task == "condense":
        if not opts["anc"]:
            rec.cls("opt:no-ancillary")
        if not opts["bas"]:
            rec.cls("opt:no-basin-features")
    if n == 0:
        rec.cls("zero-events")
    if nt and n:
        rec.nontrivial()
    cls = "zero-events" if n == 0 else ("multi-basin" if nbas >= 2 else "general")

    shas = {p: sha256(p) for p in [pin] + info["basin_files"]}
    pout = d / "out.rtdc"
    ok = call_task(rec, task, opts, pin, pout, cls)
    for p, s in shas.items():
        rec.check(sha256(p) == s, f"input-modified/{task}",
                  f"{p.name} changed on disk while running dclab-{task}")
    if not ok:
        return
    rec.check(pout.exists(), f"no-output/{task}", "task returned without output file")
    compare(rec, spec, info, pin, pout, task, opts, cls, pre="", first=True)
    if spec["second"] and cls != "zero-events":
        rec.cls("second-application")
        s1 = sha256(pout)
        pout2 = d / "out2.rtdc"
        ok = call_task(rec, task, opts, pout, pout2, cls, pre="again/")
        rec.check(sha256(pout) == s1, f"again/input-modified/{task}",
                  f"first output changed on disk while running dclab-{task} on it")
        if ok:
            compare(rec, spec, info, pout, pout2, task, opts, cls, pre="again/",
                    first=False)


def compare(rec, spec, info, pin, pout, task, opts, cls, pre, first):
    cmp = Cmp(rec, pre, task)
    keep_basins = not (task == "repack" and opts["strip_basins"])
    keep_logs = not (task == "repack" and opts["strip_logs"])
    unspec = set()    # features whose defect status the documented rules leave open
    with h5py.File(pin) as hi, h5py.File(pout) as ho:
        lognames = [k for k in hi.get("logs", {}) if hi["logs"][k].size]
        emptylogs = [k for k in hi.get("logs", {}) if not hi["logs"][k].size]
        evi = hi["events"]
        evo = ho.get("events", {})
        in_names = list(evi.keys())
        # ---------------- root attributes
        for k in hi.attrs:
            vi = hi.attrs[k]
            if k == "setup:software version":
                exp = vi if task == "repack" else brand(vi)
                cmp.ck(ho.attrs.get(k) == exp, f"meta/software-version/{task}",
                       lambda: f"software version {vi!r} -> {ho.attrs.get(k)!r}, "
                               f"expected {exp!r}")
            else:
                cmp.ck(k in ho.attrs and attr_eq(vi, ho.attrs[k]), "meta/value",
                       lambda: f"attribute {k!r}: {vi!r} -> "
                               f"{ho.attrs.get(k, '<missing>')!r}")
        for k in ho.attrs:
            if k not in hi.attrs:
                allowed = task != "repack" and (
                    k in RECTIFY_KEYS or k == "setup:software version")
                cmp.ck(allowed, "meta/extra-key",
                       lambda: f"attribute {k!r} appeared in the output")
        # ---------------- events (raw)
        for nm in in_names:
            if not dfn.feature_exists(nm):
                rec.skip("unknown-dataset-not-asserted")
                continue
            kind = feat_kind(nm)
            br = info["branch"].get(nm, "basinmap") if first else "task-output"
            tag = f"{kind}/{br}"
            if cls == "zero-events":
                # reduced oracle for files without events: the (empty) feature
                # must still exist in the output
                if kind == "basinmap" and not keep_basins:
                    continue
                if nm in DEFECTABLE or (task == "condense"
                                        and not dfn.scalar_feature_exists(nm)):
                    continue
                cmp.ck(nm in evo, "zero-events/feature-dropped",
                       f"the empty feature {nm} of a file without events is "
                       f"missing in the output")
                continue
            if kind == "basinmap":
                if keep_basins:
                    if cmp.ck(nm in evo, f"events/missing/{tag}",
                              f"{nm} missing in output"):
                        cmp.dataset(evi[nm], evo[nm], "events", tag)
                else:
                    cmp.ck(nm not in evo, "basins/basinmap-despite-strip",
                           f"{nm} stored although basins were stripped")
                continue
            defect = False
            if nm in DEFECTABLE:
                mspec = spec if first else dict(spec, _branded=(task != "repack"))
                defect = expected_defective(
                    nm, mspec, in_names, lognames,
                    time_f4=(nm == "time" and evi[nm].dtype == np.float32),
                    emptylogs=emptylogs)
            if defect is None:
                rec.skip("defect-rule-unspecified-for-this-file")
                unspec.add(nm)
                continue
            if defect:
                rec.cls("defect-marker-hit")
                if task != "condense":
                    cmp.ck(nm not in evo, f"events/defective-copied/{nm}",
                           f"defective feature {nm} was copied "
                           f"(software version {SW[spec['sw']][0]!r})")
                elif nm in evo and evi[nm].size and n_distinct(evi[nm][()]) > 1:
                    # condense may store a re-computed (ancillary) version, but
                    # not the stored random data of the input
                    same = evo[nm].shape == evi[nm].shape and np.array_equal(
                        evo[nm][()].astype(np.float64),
                        evi[nm][()].astype(np.float64), equal_nan=True)
                    cmp.ck(not same, f"events/defective-copied/{nm}",
                           f"defective feature {nm} was copied verbatim by condense "
                           f"(software version {SW[spec['sw']][0]!r})")
                continue
            if task == "condense" and not dfn.scalar_feature_exists(nm):
                cmp.ck(nm not in evo, f"condense/nonscalar-stored/{kind}",
                       f"non-scalar feature {nm} stored by condense")
                continue
            if cmp.ck(nm in evo, f"events/missing/{tag}", f"{nm} missing in output"):
                cmp.tree(evi[nm], evo[nm], "events", tag)
                if kind in ("scalar", "temp") and evi[nm].size:
                    a = evo[nm][()].astype(np.float64)
                    for an, fn in (("min", np.nanmin), ("max", np.nanmax),
                                   ("mean", np.nanmean)):
                        if cmp.ck(an in evo[nm].attrs, f"events/summary-missing/{tag}",
                                  f"{nm}: attribute {an} not complemented"):
                            got, exp = float(evo[nm].attrs[an]), float(fn(a))
                            # float32 data are reduced in float32 by numpy:
                            # n*eps = 40*6e-8 = 2.4e-6 of the largest value
                            # (x100 margin); float64: 40*1.1e-16 (x1e5)
                            fin = a[np.isfinite(a)]
                            scale = float(np.max(np.abs(fin))) if fin.size else 0.0
                            rtol = 3e-4 if evo[nm].dtype.itemsize < 8 else 1e-9
                            good = (np.isnan(got) and np.isnan(exp)) or got == exp or \
                                abs(got - exp) <= rtol * scale
                            if an not in evi[nm].attrs and scale and \
                                    np.isfinite(got) and np.isfinite(exp):
                                k = "f4" if evo[nm].dtype.itemsize < 8 else "f8"
                                CAL[k] = max(CAL[k], abs(got - exp) / scale)
                            if an in evi[nm].attrs:
                                continue  # copied verbatim (checked above)
                            cmp.ck(good, f"events/summary-value/{tag}",
                                   lambda: f"{nm}: complemented {an}={got!r}, "
                                           f"data give {exp!r}")
        # ---------------- logs
        if "logs" in hi:
            lo = ho.get("logs", {})
            for lk in hi["logs"]:
                src = hi["logs"][lk]
                lg = next((x for x in spec["logs"] if x["name"] == lk), None)
                enc = (lg["enc"] if lg else "task-log") if first else "task-output"
                br = branch_of(lg["lay"], src.shape[0]) if (lg and first) else "x"
                tag = f"{enc}/{br}"
                if not keep_logs:
                    continue
                if src.size == 0 and lk in (f"dclab-{task}", f"dclab-{task}-warnings"):
                    continue   # replaced by the task's own command log
                if src.size == 0:
                    cmp.ck(lk not in lo or lo[lk].size == 0, f"logs/empty/{tag}",
                           f"empty log {lk} became non-empty")
                    continue
                if task == "condense" and lk.startswith("dclab-condense"):
                    rec.skip("condense-log-rename-not-compared")
                    continue
                cands = [lk]
                if task == "compress" and lk in ("dclab-compress",
                                                 "dclab-compress-warnings"):
                    cands = [c for c in lo if c.startswith(lk + "_")
                             and c not in hi["logs"]]
                    cmp.ck(len(cands) == 1, f"logs/renamed-command-log/{tag}",
                           lambda: f"old {lk} log: expected exactly one renamed "
                                   f"copy, found {cands}")
                elif not cmp.ck(lk in lo, f"logs/missing/{tag}",
                                f"log {lk} missing in output"):
                    continue
                want = dec_lines(src)
                for c in cands[:1]:
                    got = dec_lines(lo[c])
                    cmp.ck(got == want, f"logs/lines/{tag}",
                           lambda: f"log {lk}: lines differ, first difference "
                                   f"{next(((a, b) for a, b in zip(want, got) if a != b), (len(want), len(got)))!r}")
                    cmp.attrs(src, lo[c], f"logs/attrs/{tag}")
            if not keep_logs:
                cmp.ck("logs" not in ho or len(ho["logs"]) == 0,
                       "logs/present-despite-strip",
                       lambda: f"logs {list(ho['logs'])} written although stripped")
        if task in ("compress", "condense"):
            cl = f"dclab-{task}"
            if cmp.ck("logs" in ho and cl in ho["logs"] and ho["logs"][cl].size > 0,
                      "logs/command-log-missing", f"no {cl} log in output"):
                # get_command_log: "Return a json dump of system parameters"
                try:
                    ok = isinstance(json.loads("\n".join(dec_lines(ho["logs"][cl]))),
                                    dict)
                except ValueError:
                    ok = False
                cmp.ck(ok, f"logs/command-log-not-json/{task}",
                       f"the {cl} log of the output is not one JSON document "
                       f"(mixed with an older log?)")
        # ---------------- tables
        if "tables" in hi:
            to = ho.get("tables", {})
            for tk in hi["tables"]:
                src = hi["tables"][tk]
                tb = next((x for x in spec["tables"] if x["name"] == tk), None)
                br = branch_of(tb["lay"], src.shape[0]) if (tb and first) else "x"
                if src.size == 0:
                    cmp.ck(tk not in to or to[tk].size == 0, f"tables/empty/{br}",
                           f"empty table {tk} became non-empty")
                    continue
                if cmp.ck(tk in to, f"tables/missing/{br}", f"table {tk} missing"):
                    cmp.dataset(src, to[tk], "tables", br, values_only=True)
                    cmp.ck(src.dtype == to[tk].dtype, f"tables/dtype/{br}",
                           lambda: f"table {tk}: dtype {src.dtype} -> {to[tk].dtype}")
                    cmp.attrs(src, to[tk], "tables/attrs")
        # ---------------- basins
        if keep_basins:
            bo = ho.get("basins", {})
            odefs = []
            for bk in bo:
                try:
                    odefs.append(json.loads(" ".join(dec_lines(bo[bk]))))
                except ValueError:
                    cmp.ck(False, "basins/definition-not-json",
                           f"basin {bk} in the output is not valid JSON")
            for bk in hi.get("basins", {}):
                bd = json.loads(" ".join(dec_lines(hi["basins"][bk])))
                btype = bd["type"] + ("-mapped" if bd["type"] == "file"
                                      and bd["mapping"] != "same" else "")
                rewritten = False
                if bd["type"] == "internal":
                    kept = [f for f in bd["features"]
                            if task != "condense" or dfn.scalar_feature_exists(f)]
                    rewritten = kept != bd["features"]
                    exp = dict(bd, features=kept)
                else:
                    exp = bd
                if rewritten:
                    hit = [o for o in odefs if all(o.get(k) == exp[k] for k in exp)]
                    cmp.ck(len(hit) >= 1 or not kept,
                           f"basins/definition-rewrite/{cls}",
                           lambda: f"no rewritten internal basin definition with "
                                   f"features {kept} in the output")
                else:
                    if cmp.ck(bk in bo, f"basins/definition-missing/{btype}/{cls}",
                              f"basin definition {bk} ({btype}) missing in output"):
                        got = json.loads(" ".join(dec_lines(bo[bk])))
                        cmp.ck(got == bd, f"basins/definition/{btype}",
                               lambda: f"basin definition changed: {bd} -> {got}")
            # internal basin data
            if "basin_events" in hi:
                beo = ho.get("basin_events", {})
                for nm in hi["basin_events"]:
                    if task == "condense" and not dfn.scalar_feature_exists(nm):
                        cmp.ck(nm not in beo, "condense/nonscalar-stored/internal-basin",
                               f"non-scalar internal basin feature {nm} stored")
                        continue
                    if cmp.ck(nm in beo, f"basins/internal-data-missing/{cls}",
                              f"internal basin feature {nm} missing in output"):
                        cmp.dataset(hi["basin_events"][nm], beo[nm],
                                    "basins/internal-data", cls)
            # every internal definition of the output must be backed by data
            for o in odefs:
                if o.get("type") == "internal":
                    loc = o["paths"][0]
                    miss = [f for f in o["features"]
                            if loc not in ho or f not in ho[loc]]
                    cmp.ck(not miss, f"basins/internal-def-lists-missing-feature/{cls}",
                           lambda: f"output basin {o.get('name')} lists internal "
                                   f"features {miss} that are not stored in [{loc}]")
        else:
            cmp.ck("basins" not in ho or len(ho["basins"]) == 0,
                   "basins/present-despite-strip", "basin definitions not stripped")
            cmp.ck("basin_events" not in ho or len(ho["basin_events"]) == 0,
                   "basins/internal-data-despite-strip", "basin_events not stripped")
        # ---------------- compression (compress only: "all features compressed")
        if task == "compress":
            def visit(name, obj):
                if isinstance(obj, h5py.Dataset) and obj.size and \
                        name.split("/")[0] in ("events", "logs", "basin_events"):
                    lv = zstd_level(obj)
                    cmp.ck(lv is not None and lv >= 5,
                           f"compressed/{name.split('/')[0]}",
                           lambda: f"{name} not Zstd>=5 compressed in the output "
                                   f"of dclab-compress (level {lv})")
            ho.visititems(visit)

    # -------------------- through dclab
    if not keep_logs:
        # `--strip-logs` also removes the marker logs the defect rules look at
        # (dclab_issue_141, shapein-acquisition): the stored data are compared
        # above, the view of the output is not comparable for those features
        if "dclab_issue_141" in lognames:
            unspec.add("volume")
        if "shapein-acquisition" in lognames:
            unspec.update(["inert_ratio_raw", "inert_ratio_cvx"])
        if unspec:
            rec.skip("view-of-feature-whose-marker-log-was-stripped")
    if cls == "zero-events":
        rec.skip("zero-events-view-comparison-not-run")
        return
    with dclab.new_dataset(pin) as di, dclab.new_dataset(pout) as do:
        fi = [f for f in di.features_innate if f not in unspec]
        fo = [f for f in do.features_innate if f not in unspec]
        if task != "condense":
            exp = [f for f in fi if keep_basins or not f.startswith("basinmap")]
            cmp.ck(sorted(exp) == sorted(fo), f"view/innate-set/{task}",
                   lambda: f"innate features {sorted(exp)} -> {sorted(fo)}")
            cmp.ck(len(di) == len(do), f"view/length/{task}",
                   lambda: f"len {len(di)} -> {len(do)}")
            for f in exp:
                if f in fo:
                    cmp.ck(view_eq(view_data(di, f), view_data(do, f)),
                           f"view/values/{feat_kind(f)}/{task}",
                           lambda: f"feature {f} differs through dclab")
            if keep_basins:
                bi_, bo_ = di.features_basin, do.features_basin
                cmp.ck(sorted(bi_) == sorted(bo_), f"view/basin-set/{cls}",
                       lambda: f"basin features {bi_} -> {bo_}")
                for f in bi_:
                    if f in bo_ and f not in fi:
                        cmp.ck(view_eq(view_data(di, f), view_data(do, f)),
                               f"view/basin-values/{feat_kind(f)}/{cls}",
                               lambda: f"basin feature {f} differs through dclab")
            else:
                cmp.ck(not do.features_basin, "view/basin-set/stripped",
                       lambda: f"basin features {do.features_basin} after strip")
            if keep_logs:
                for lk in di.logs:
                    if lk.startswith("dclab-compress") and task == "compress":
                        continue
                    cmp.ck(lk in do.logs and list(do.logs[lk]) == list(di.logs[lk]),
                           f"view/logs/{task}", lambda: f"log {lk} differs through dclab")
            for tk in di.tables:
                if cmp.ck(tk in do.tables, f"view/tables/{task}",
                          f"table {tk} missing through dclab"):
                    a, b = di.tables[tk][:], do.tables[tk][:]
                    cmp.ck(a.dtype == b.dtype and a.tobytes() == b.tobytes(),
                           f"view/tables/{task}", lambda: f"table {tk} differs")
            for sec in di.config:
                for k in di.config[sec]:
                    if (sec, k) == ("setup", "software version"):
                        continue
                    vi = di.config[sec][k]
                    vo = do.config.get(sec, {}).get(k, "<missing>")
                    cmp.ck(np.array_equal(np.asarray(vi), np.asarray(vo)),
                           f"view/config/{task}",
                           lambda: f"config [{sec}] {k}: {vi!r} -> {vo!r}")
    if task == "condense":
        condense_oracle(rec, cmp, pin, pout, opts, cls, first, unspec)


def condense_oracle(rec, cmp, pin, pout, opts, cls, first, unspec=()):
    with dclab.new_dataset(pin, enable_basins=opts["bas"]) as di, \
            dclab.new_dataset(pout) as do, h5py.File(pout) as ho:
        innate = set(di.features_innate)
        feats = set(di.features)
        basin = set(di.features_basin) if opts["bas"] else set()
        anc = set(di.features_ancillary) if opts["anc"] else set()
        rapid = set(FEATURES_RAPID) & feats
        want = {}
        for f in sorted(feats):
            if not dfn.scalar_feature_exists(f) or f in unspec:
                continue
            if f in innate:
                want[f] = "innate"
            elif f in basin:
                want[f] = "basin"
            elif f in rapid:
                want[f] = "rapid"
            elif f in anc:
                want[f] = "ancillary"
        stored = set(ho.get("events", {}).keys())
        internal = set(ho.get("basin_events", {}).keys())
        rec.cls("condense:wanted", len(want))
        for f, origin in want.items():
            rec.cls(f"condense:{origin}")
            here = f in stored or f in internal
            if not cmp.ck(here, f"condense/missing/{origin}",
                          f"scalar feature {f} ({origin}) of the input view is not "
                          f"stored in the condensed file"):
                continue
            a = np.asarray(di[f][:])
            try:
                b = np.asarray(do[f][:])
            except KeyError:
                cmp.ck(False, f"condense/unreadable/{origin}/{cls}",
                       f"feature {f} cannot be read from the condensed file")
                continue
            cmp.ck(view_eq(a, b), f"condense/values/{origin}",
                   lambda: f"feature {f} ({origin}): input view and condensed file "
                           f"differ, e.g. {a[:4].tolist()} vs {b[:4].tolist()}")
        for f in sorted(stored):
            if f.startswith("basinmap") or f in unspec:
                continue
            if not dfn.feature_exists(f):
                continue
            cmp.ck(dfn.scalar_feature_exists(f), "condense/nonscalar-stored/output",
                   f"non-scalar feature {f} stored in condensed file")
            if f not in want:
                # stored although not requested by the options
                with dclab.new_dataset(pin) as dfull:
                    if f in dfull.features_basin and not opts["bas"]:
                        o = "basin"
                    elif not opts["anc"]:
                        o = "ancillary"
                    else:
                        o = "other"
                cmp.ck(False, f"condense/unrequested-stored/{o}",
                       f"feature {f} stored although the options exclude it "
                       f"(anc={opts['anc']}, bas={opts['bas']})")


# ------------------------------------------------------------------ tdms

def run_tdms(spec, rec, d):
    try:
        _run_tdms(spec, rec, d)
    except OSError as e:
        if "Could not load meta information" in str(e):
            # imageio-ffmpeg gives up reading the video header when the machine
            # is overloaded (sub-process timeout): inconclusive, not a verdict
            rec.skip("tdms-ffmpeg-timeout-under-load")
            return
        raise


def _run_tdms(spec, rec, d):
    rec.cls("task:tdms2rtdc")
    rec.nontrivial()
    z = pathlib.Path(boot.REPO, "tests", "data", spec["tdms"])
    with zipfile.ZipFile(z) as arc:
        arc.extractall(d)
    cands = sorted(p for p in d.rglob("*.tdms") if not p.name.endswith("_traces.tdms"))
    src = cands[0]
    inputs = sorted(p for p in d.rglob("*") if p.is_file())
    shas = {p: sha256(p) for p in inputs}
    pout = d / "converted.rtdc"
    cf, skip = spec["cf"], spec["skip"]
    tag = f"{'computed' if cf else 'innate'}/{'skip' if skip else 'keep'}-boundary"
    rec.cls(f"tdms:{tag}")
    try:
        cli.tdms2rtdc(path_tdms=src, path_rtdc=pout, compute_features=cf,
                      skip_initial_empty_image=skip, skip_final_empty_image=skip)
    except Exception as e:  # noqa
        if isinstance(e, OSError) and "Could not load meta information" in str(e):
            raise
        isd, where = classify_exception(e, boot.REPO)
        if not isd:
            raise
        rec.fail(f"tdms/raises/{type(e).__name__}/{where}",
                 f"tdms2rtdc raised {type(e).__name__}: {str(e)[:300]}")
        return
    for p, s in shas.items():
        rec.check(p.exists() and sha256(p) == s, "input-modified/tdms2rtdc",
                  f"{p.name} changed while running dclab-tdms2rtdc")
    # Phase A (own handle): the stored video frames, read once in ascending
    # order and only inside the video (reading beyond the end of a video
    # disturbs later reads of the tdms image reader).
    src_img = {}
    with dclab.new_dataset(src) as d0:
        nimg = min(len(d0["image"]), len(d0)) if "image" in d0 else 0
        for i in range(min(nimg, 64)):
            src_img[i] = np.array(d0["image"][i])
    with dclab.new_dataset(src) as di, dclab.new_dataset(pout) as do, \
            h5py.File(pout) as ho:
        n = len(di)
        innate = di.features_innate
        feats = sorted(di.features if cf else innate)
        stored = sorted(ho["events"].keys())
        rec.check(stored == feats, f"tdms/feature-set/{tag}",
                  lambda: f"stored features {stored}, expected {feats}")
        # smallest common length (documented in export.hdf5)
        lens = []
        for f in feats:
            if f == "trace":
                lens += [len(di["trace"][k]) for k in di["trace"].keys()]
            elif f == "image":
                lens.append(nimg)
            else:
                lens.append(len(di[f]))
        lmin = int(min(lens))
        truncated = bool(src_img) and nimg < n
        cls = "truncated-video+final-check" if (truncated and skip) else "general"
        if truncated:
            rec.cls("tdms:truncated-video")
        keep = np.ones(n, dtype=bool)
        keep[lmin:] = False
        if skip and n:
            first_empty = False
            if src_img:
                first_empty |= bool(np.all(src_img[0] == 0))
            if "contour" in di:
                first_empty |= bool(np.all(np.asarray(di["contour"][0]) == 0))
            if first_empty:
                keep[0] = False
                rec.cls("tdms:first-event-empty")
            if src_img and nimg == n:
                # complete video: the documented final-frame rule would need the
                # reader's CorruptFrameWarning; no such fixture exists
                rec.skip("tdms-final-frame-rule-not-modelled")
                return
        idx = np.flatnonzero(keep)
        rec.check(len(do) == len(idx), f"tdms/length/{tag}",
                  lambda: f"{len(do)} events in the output, expected {len(idx)} "
                          f"(source {n}, smallest feature {lmin})")
        if len(do) != len(idx):
            return

        for f in feats:
            kind = feat_kind(f)
            org = "innate" if f in innate else "computed"
            bad = []
            if f == "index":
                # by design a plain enumeration of the events of *this* file
                ok = np.array_equal(np.asarray(do["index"][:]),
                                    np.arange(1, len(idx) + 1))
                rec.check(ok, f"tdms/values/index/{tag}",
                          "index of the converted file is not 1..N")
                continue
            if f == "contour":
                bad = [i for j, i in enumerate(idx) if not np.array_equal(
                    np.asarray(di["contour"][int(i)]), np.asarray(do["contour"][j]))]
            elif f == "trace":
                same = sorted(di["trace"].keys()) == sorted(do["trace"].keys())
                rec.check(same, f"tdms/trace-names/{tag}", "trace names differ")
                for k in di["trace"].keys():
                    if k in do["trace"]:
                        a = np.asarray(di["trace"][k])[idx]
                        b = np.asarray(do["trace"][k][:])
                        bad += list(idx[np.any(a != b, axis=1)]) \
                            if a.shape == b.shape else list(idx)
            elif f == "image":
                for j, i in enumerate(idx):
                    if int(i) not in src_img:
                        rec.skip("tdms-image-beyond-cached-frames")
                        continue
                    if not np.array_equal(src_img[int(i)], np.asarray(do[f][j])):
                        bad.append(i)
                kind = "image"
            elif kind in ("image", "mask"):
                bad = [i for j, i in enumerate(idx) if not np.array_equal(
                    np.asarray(di[f][int(i)]), np.asarray(do[f][j]))]
            else:
                a = np.asarray(di[f][:])[idx].astype(np.float64)
                b = np.asarray(do[f][:]).astype(np.float64)
                if f in UINT32_FEATS:
                    # documented unsigned storage of the writer: negative
                    # source values are outside the comparison (counted)
                    neg = a < 0
                    if neg.any():
                        rec.skip("tdms-negative-value-in-unsigned-feature",
                                 int(neg.sum()))
                    a, b = np.where(neg, 0, a), np.where(neg, 0, b)
                diff = ~((a == b) | (np.isnan(a) & np.isnan(b)))
                bad = list(idx[diff])
                if f.startswith("bright_") and org == "computed":
                    kind = "image-derived"
            rec.check(not bad, f"tdms/values/{kind}/{org}/{cls}",
                      lambda: f"feature {f} of the converted file differs from the "
                              f"tdms source at source events {[int(i) for i in bad][:6]} "
                              f"(video holds {nimg} frames, source {n} events)")
        for lk in di.logs:
            rec.check(lk in do.logs and list(do.logs[lk]) == list(di.logs[lk]),
                      "tdms/logs", f"log {lk} of the tdms source not preserved")
        rec.check("dclab-tdms2rtdc" in do.logs, "tdms/command-log-missing",
                  "no dclab-tdms2rtdc log")
