"""C18 — contour-, image- and fluorescence-derived features obey their definitions.

Case kinds (one Hypothesis strategy, JSON specs):

mask    1..3 connected hole-free masks grown by 8-connected accretion (runs,
        fat strokes, hole filling), placed in the interior or touching
        borders/corners of a common canvas.
        * get_contour: every contour point is a boundary pixel of the mask, the
          contour visits *all* boundary pixels, consecutive points are
          8-neighbours (cyclically), no duplicates, refill(contour) == mask,
          contour(mask shifted on a larger canvas) == contour + shift, a
          one-pixel hole does not change the contour ("longest contour").
        * moments / inertia ratios of the contour at an integer translation
          <= 5000 px against exact rational polygon moments, translation and
          x<->y laws, principal ratio >= 1.
        * volume against an independent Green/Pappus evaluation of the
          documented definition, s^3 scaling, sign flip, pos_x independence.
        * list/3D forms and the ancillary features of a dict dataset agree
          with the single-event functions.
poly    star-shaped simple polygons (integer or float vertices) and polygonal
        ellipses: the same moment / volume laws, rotation invariance of the
        principal ratio, ratio == a/b and |V - 4/3 pi a b^2| <= 1.05 pi^2/n^2
        for affine-regular n-gons, fix_orientation.
disc    pixelated discs/ellipses (min semi-axis >= 10 px) through
        mask -> get_contour -> get_volume: (1 - 1.1/m)^3 <= V/V_analytic <= 1.
bright  masks/images/backgrounds/offsets: get_bright, get_bright_bc,
        get_bright_perc (single event, 3D ndarray, list of arrays) and the
        ancillary features of dict- and HDF5-backed datasets against exact
        integer statistics (mean, population SD, linear 10/90 percentiles).
ctc     spill-over matrices (non-negative, |det| >= 0.05) x signals >= 0:
        correct_crosstalk(S-mixed signals) == signals, as function (arrays and
        scalars) and via flN_max_ctc of a dict dataset (3- and 2-channel).
"""
import math
import os
from fractions import Fraction

import numpy as np
import scipy.ndimage as ndi
from hypothesis import assume
from hypothesis import strategies as st

from .. import boot
from ..common import meta, quiet

import dclab
from dclab.features import bright as f_bright
from dclab.features import bright_bc as f_bright_bc
from dclab.features import bright_perc as f_bright_perc
from dclab.features import contour as f_contour
from dclab.features import fl_crosstalk as f_ctc
from dclab.features import inert_ratio as f_inert
from dclab.features import volume as f_volume

ID = "C18"
RULE = ("Hypothesis specs of five kinds (mask / poly / disc / bright / ctc); "
        "non-trivial: a mask case holds a mask with >= 6 pixels that is not a "
        "rectangle, a poly case a polygon with >= 5 vertices, a disc case "
        "always, a bright case a mask with >= 2 pixels over a non-constant "
        "image, a ctc case a spill matrix with >= 3 non-zero off-diagonal "
        "entries (2-channel: both); distinct = sha1 of the canonical JSON spec")
BUDGET = {"quick": 6000, "thorough": 100000}
ESSENTIAL = ["mask:interior", "mask:border", "mask:thin", "mask:pinhole",
             "mask:far", "poly:int", "poly:float", "poly:ellipse", "disc",
             "bright:offset-array", "bright:offset-scalar", "bright:h5",
             "ctc:3ch", "ctc:2ch"]
ASSUMPTIONS = [
    "connected = 8-connected foreground, hole-free = scipy.ndimage."
    "binary_fill_holes(mask) == mask (4-connected background), the inverse "
    "documented by fmt_tdms/event_mask.py",
    "percentiles use numpy's default linear interpolation (what the test "
    "suite compares against)",
    "spill-over model: measured_j = sum_i c_ij * true_i with c_ii = 1 "
    "(docstring: cij = spill from channel i to channel j = flj / fli)",
    "a one-pixel hole in the mask must not change the contour (extension of "
    "the hole-free domain needed to observe the 'longest contour' mechanism)",
]

EPS = 2.220446049250313e-16
D8 = [(-1, 0), (-1, 1), (0, 1), (1, 1), (1, 0), (1, -1), (0, -1), (-1, -1)]
#: prnc is rotated about the image origin by dclab; below this distance the
#: float64 error of that algorithm stays < 1e-6 and is budgeted by `_model`
NEAR = 300

#: calibration aid (C18_CAL=1): worst observed error/tolerance per sub-check
CAL = {}


def _cal(name, err, tol):
    if os.environ.get("C18_CAL"):
        r = err / tol if tol > 0 else (0.0 if err == 0 else float("inf"))
        if r > CAL.get(name, (0, 0, 0))[0]:
            CAL[name] = (r, err, tol)


def _close(rec, name, sig, got, exp, tol, what=""):
    """|got/exp - 1| <= tol (relative), NaN never passes"""
    got = float(got)
    exp = float(exp)
    if exp == 0:
        err = abs(got)
    else:
        err = abs(got / exp - 1)
    if err != err:
        err = float("inf")
    _cal(name, err, tol)
    return rec.check(err <= tol, sig,
                     lambda: f"{what}: got {got!r}, expected {exp!r} "
                             f"(rel. dev. {err:.3g} > tol {tol:.3g})")


# ------------------------------------------------------------------ strategies

@st.composite
def st_blob(draw):
    style = draw(st.sampled_from(["blob", "blob", "fat", "thin", "mixed"]))
    if style == "thin":
        ops = draw(st.lists(st.tuples(st.integers(0, 999), st.integers(0, 7),
                                      st.integers(1, 9), st.just(False)),
                            min_size=1, max_size=5))
        fat0 = False
    elif style == "fat":
        ops = draw(st.lists(st.tuples(st.integers(0, 999), st.integers(0, 7),
                                      st.integers(1, 4), st.just(True)),
                            min_size=0, max_size=10))
        fat0 = True
    else:
        ops = draw(st.lists(st.tuples(st.integers(0, 999), st.integers(0, 7),
                                      st.integers(1, 5), st.booleans()),
                            min_size=draw(st.sampled_from([0, 1, 1, 1, 1, 1])),
                            max_size=20 if style == "blob" else 8))
        fat0 = draw(st.booleans())
    anchor = st.sampled_from(["mid"] * 5 + ["lo", "hi"])
    return {"ops": [list(o) for o in ops], "fat0": fat0,
            "ay": draw(anchor), "ax": draw(anchor),
            "pinhole": draw(st.one_of(st.none(), st.none(),
                                      st.integers(0, 99)))}


st_shift = st.one_of(
    st.just([0, 0]),
    st.lists(st.integers(0, 60), min_size=2, max_size=2),
    st.lists(st.integers(0, NEAR - 60), min_size=2, max_size=2),
    st.lists(st.integers(0, 5000), min_size=2, max_size=2),
    st.lists(st.sampled_from([0, 1000, 4999, 5000]), min_size=2, max_size=2))

st_pix = st.one_of(st.sampled_from([0.34, 0.26, 1.0]),
                   st.floats(0.05, 3.0, allow_nan=False))
st_scale = st.one_of(st.sampled_from([2.0, 0.5, 3.0]),
                     st.floats(0.1, 10.0, allow_nan=False))
st_off = st.floats(-1.5, 1.5, allow_nan=False)


@st.composite
def st_mask_case(draw):
    return {"kind": "mask",
            "blobs": draw(st.lists(st_blob(), min_size=1, max_size=3)),
            "shift": draw(st_shift), "pix": draw(st_pix),
            "scale": draw(st_scale),
            "cdtype": draw(st.sampled_from(["int64", "int64", "int32", "int16",
                                            "uint16"])),
            "posoff": [draw(st_off), draw(st_off)],
            "embed": [draw(st.integers(0, 7)), draw(st.integers(0, 7))]}


@st.composite
def st_poly_case(draw):
    shape = draw(st.sampled_from(["star", "star", "ellipse"]))
    spec = {"kind": "poly", "shape": shape, "pix": draw(st_pix),
            "scale": draw(st_scale), "posoff": [draw(st_off), draw(st_off)],
            "theta": draw(st.floats(0, 6.283, allow_nan=False)),
            "reverse": draw(st.booleans())}
    if shape == "star":
        n = draw(st.integers(3, 14))
        integer = draw(st.booleans())
        spec["int"] = integer
        if integer:
            spec["radii"] = draw(st.lists(st.integers(3, 30), min_size=n,
                                          max_size=n))
            spec["center"] = draw(st.one_of(
                st.lists(st.integers(30, 200), min_size=2, max_size=2),
                st.lists(st.integers(30, 5000), min_size=2, max_size=2)))
        else:
            spec["radii"] = draw(st.lists(st.floats(1.0, 30.0, allow_nan=False),
                                          min_size=n, max_size=n))
            spec["center"] = draw(st.lists(
                st.floats(30, 200, allow_nan=False), min_size=2, max_size=2))
        spec["phase"] = draw(st.floats(0, 6.283, allow_nan=False))
    else:
        spec["n"] = draw(st.one_of(st.sampled_from([8, 200, 400]),
                                   st.integers(8, 400)))
        spec["a"] = draw(st.floats(2.0, 40.0, allow_nan=False))
        spec["b"] = draw(st.floats(2.0, 40.0, allow_nan=False))
        spec["center"] = draw(st.lists(st.floats(40, 200, allow_nan=False),
                                       min_size=2, max_size=2))
        spec["phase"] = draw(st.floats(0, 6.283, allow_nan=False))
    return spec


@st.composite
def st_disc_case(draw):
    return {"kind": "disc",
            "a": draw(st.floats(10.0, 28.0, allow_nan=False)),
            "b": draw(st.one_of(st.none(),
                                st.floats(10.0, 28.0, allow_nan=False))),
            "sub": [draw(st.floats(-0.5, 0.5, allow_nan=False)),
                    draw(st.floats(-0.5, 0.5, allow_nan=False))],
            "pix": draw(st_pix)}


st_offval = st.one_of(st.sampled_from([0.0, 1.0, -2.0, 0.5]),
                      st.floats(-30, 30, allow_nan=False),
                      st.integers(-20, 20).map(float))


@st.composite
def st_bright_case(draw):
    n = draw(st.integers(1, 4))
    offkind = draw(st.sampled_from(["none", "scalar", "npscalar", "array",
                                    "array"]))
    if offkind == "none":
        off = None
    elif offkind == "array":
        off = draw(st.lists(st_offval, min_size=n, max_size=n))
    else:
        off = draw(st_offval)
    return {"kind": "bright", "n": n,
            "h": draw(st.integers(2, 8)), "w": draw(st.integers(2, 10)),
            "seed": draw(st.integers(0, 2**31 - 1)),
            "density": draw(st.sampled_from([0.1, 0.3, 0.5, 0.9, 1.0])),
            "imgmode": draw(st.sampled_from(["rand", "rand", "dark", "bright",
                                             "extreme", "const"])),
            "bgmode": draw(st.sampled_from(["rand", "rand", "dark", "bright",
                                            "extreme"])),
            "offkind": offkind, "off": off,
            "h5": draw(st.sampled_from([False, False, False, True]))}


st_ct = st.one_of(st.just(0.0), st.floats(0.0, 0.5, allow_nan=False),
                  st.floats(0.0, 0.5, allow_nan=False),
                  st.floats(0.0, 1.5, allow_nan=False))
CTKEYS = ["21", "31", "12", "32", "13", "23"]


def _spill(ct):
    """c_ij = spill from channel i to channel j (rows i, columns j)"""
    s = np.eye(3)
    for k, v in ct.items():
        s[int(k[0]) - 1, int(k[1]) - 1] = v
    return s


@st.composite
def st_ctc_case(draw):
    mode = draw(st.sampled_from(["3ch", "3ch", "12", "13", "23"]))
    keys = CTKEYS if mode == "3ch" else [mode, mode[::-1]]
    ct = {k: draw(st_ct) for k in keys}
    assume(abs(np.linalg.det(_spill(ct))) >= 0.05)
    n = draw(st.integers(1, 5))
    sig = st.one_of(st.integers(0, 30000).map(float),
                    st.floats(0, 1e5, allow_nan=False))
    return {"kind": "ctc", "mode": mode, "ct": ct,
            "x": draw(st.lists(st.lists(sig, min_size=3, max_size=3),
                               min_size=n, max_size=n))}


def strategy(tier):
    return st.one_of(st_mask_case(), st_mask_case(), st_mask_case(),
                     st_mask_case(), st_poly_case(), st_poly_case(),
                     st_disc_case(), st_bright_case(), st_bright_case(),
                     st_ctc_case())


def sample_view(spec):
    return spec


# ------------------------------------------------------------ reference models

def build_blob(ops, fat0, lim=12):
    """grow an 8-connected pixel set from (0,0); returns the hole-filled
    bounding-box mask"""
    px = {(0, 0)}

    def add(p, fat):
        if abs(p[0]) > lim or abs(p[1]) > lim:
            return
        px.add(p)
        if fat:
            for d in (0, 2, 4, 6):
                q = (p[0] + D8[d][0], p[1] + D8[d][1])
                if abs(q[0]) <= lim and abs(q[1]) <= lim:
                    px.add(q)
    if fat0:
        add((0, 0), True)
    for idx, d, ln, fat in ops:
        s = sorted(px)
        p = s[idx % len(s)]
        for _ in range(ln):
            p = (p[0] + D8[d][0], p[1] + D8[d][1])
            add(p, fat)
    ys = [p[0] for p in px]
    xs = [p[1] for p in px]
    y0, x0 = min(ys), min(xs)
    m = np.zeros((max(ys) - y0 + 1, max(xs) - x0 + 1), dtype=bool)
    for p in px:
        m[p[0] - y0, p[1] - x0] = True
    return ndi.binary_fill_holes(m)


def boundary_pixels(m):
    """mask pixels with a 4-neighbour that is background (everything outside
    the image counts as background: contours are closed along the border)"""
    p = np.pad(m, 1, constant_values=False)
    allin = p[:-2, 1:-1] & p[2:, 1:-1] & p[1:-1, :-2] & p[1:-1, 2:]
    return m & ~allin


def refill(cont, shape):
    m = np.zeros(shape, dtype=bool)
    m[cont[:, 1], cont[:, 0]] = True
    return ndi.binary_fill_holes(m)


def exact_moments(pts):
    """Green's-theorem polygon moments in exact rational arithmetic.
    pts: list of (x, y) ints or floats (floats are exact dyadic rationals)"""
    P = [(Fraction(x), Fraction(y)) for x, y in pts]
    n = len(P)
    A = Sx = Sy = Sxx = Syy = Sxy = Fraction(0)
    for i in range(n):
        x0, y0 = P[i]
        x1, y1 = P[(i + 1) % n]
        cr = x0 * y1 - x1 * y0
        A += cr
        Sx += cr * (x0 + x1)
        Sy += cr * (y0 + y1)
        Sxx += cr * (x0 * x0 + x0 * x1 + x1 * x1)
        Syy += cr * (y0 * y0 + y0 * y1 + y1 * y1)
        Sxy += cr * (x0 * y1 + 2 * x0 * y0 + 2 * x1 * y1 + x1 * y0)
    A /= 2
    Sx /= 6
    Sy /= 6
    Sxx /= 12
    Syy /= 12
    Sxy /= 24
    if A < 0:
        A, Sx, Sy, Sxx, Syy, Sxy = -A, -Sx, -Sy, -Sxx, -Syy, -Sxy
    if A == 0:
        return None
    return {"m00": A, "m20": Sxx, "m02": Syy,
            "mu20": Sxx - Sx * Sx / A, "mu02": Syy - Sy * Sy / A,
            "mu11": Sxy - Sx * Sy / A}


def hull_int(pts):
    """convex hull (monotone chain, exact) of integer points, CCW, no
    collinear points"""
    P = sorted(set((int(x), int(y)) for x, y in pts))
    if len(P) < 3:
        return P

    def cross(o, a, b):
        return (a[0] - o[0]) * (b[1] - o[1]) - (a[1] - o[1]) * (b[0] - o[0])
    lo = []
    for p in P:
        while len(lo) >= 2 and cross(lo[-2], lo[-1], p) <= 0:
            lo.pop()
        lo.append(p)
    up = []
    for p in reversed(P):
        while len(up) >= 2 and cross(up[-2], up[-1], p) <= 0:
            up.pop()
        up.append(p)
    return lo[:-1] + up[:-1]


def _first_moment(r, z):
    """(signed first moment of area about the z axis, magnitude of the
    summands before any cancellation) of the closed polygon (r_i, z_i),
    positive for counter-clockwise order in the r-z plane; volume of
    revolution = 2 pi * first moment (Pappus)"""
    n = len(r)
    t, a = [], []
    for i in range(n):
        j = (i + 1) % n
        t.append((r[i] + r[j]) * (r[i] * z[j] - r[j] * z[i]))
        # ... of this formula and of the truncated-cone formula
        a.append((abs(r[i]) + abs(r[j]))
                 * (abs(r[i] * z[j]) + abs(r[j] * z[i]))
                 + abs(z[j] - z[i])
                 * (r[i] * r[i] + abs(r[i] * r[j]) + r[j] * r[j]))
    return math.fsum(t) / 6, math.fsum(a) / 6


def volume_ref(cont, pos_x, pos_y, pix):
    """documented definition: mean of the volumes of revolution (about the
    x axis through the centroid) of the upper and the lower half contour"""
    x = [float(a) - pos_x / pix for a in cont[:, 0]]
    y = [float(b) - pos_y / pix for b in cont[:, 1]]
    up = [max(v, 0.0) for v in y]
    lo = [max(-v, 0.0) for v in y]
    mu, au = _first_moment(up, x)
    ml, al = _first_moment(lo, x)
    # mirroring r -> -r reverses the orientation: the lower half counts -ml
    return math.pi * pix**3 * (mu - ml), math.pi * pix**3 * (au + al)


# ------------------------------------------------------------------- moments

def _model(R, n, mu):
    """float64 error model (relative) of a central second moment `mu` computed
    by the OpenCV formulas from float vertices of magnitude <= R: the products
    x_i*y_j (error eps*R^2) are multiplied by x^2 before the sums cancel"""
    return EPS * R**4 * math.sqrt(n) / mu


def check_moments(rec, cont, tag, exact_int, origin_class):
    """cont: (N,2) array (int64 or float64).  All moment-based laws at this
    position.  tag = input class for the signatures."""
    pts = [(v[0], v[1]) for v in cont.tolist()]
    ex = exact_moments(pts)
    n = len(pts)
    R = float(np.max(np.abs(cont))) + 1.0
    mo = f_inert.cont_moments_cv(cont)
    if ex is None or ex["mu20"] <= 0 or ex["mu02"] <= 0:
        rec.skip("moments:zero-area-or-line")
        if ex is None and exact_int:
            rec.check(mo is None, f"moments/zero-area-not-none/{tag}",
                      lambda: f"zero-area contour gave moments {mo}")
        return None
    if float(ex["m00"]) <= 1e-3:
        rec.skip("moments:tiny-area")
        return None
    rec.check(mo is not None, f"moments/none/{tag}", "moments are None")
    if mo is None:
        return None
    a, b, c = float(ex["mu20"]), float(ex["mu02"]), float(ex["mu11"])
    # --- area
    if exact_int:
        rec.check(mo["m00"] == float(ex["m00"]), f"m00/exact/{tag}",
                  lambda: f"m00 {mo['m00']!r} != {float(ex['m00'])!r}")
        cond = float(ex["m20"]) / a + float(ex["m02"]) / b
        tol_raw = 1e-12 + 100 * EPS * cond
    else:
        tol_a = 1e-12 + 100 * EPS * R * R * math.sqrt(n) / float(ex["m00"])
        _close(rec, "m00/float", f"m00/value/{tag}", mo["m00"], ex["m00"],
               tol_a, "m00")
        tol_raw = 1e-12 + 100 * 0.5 * (_model(R, n, a) + _model(R, n, b))
    # --- raw ratio against exact moments
    rex = math.sqrt(ex["mu20"] / ex["mu02"])
    raw = float(f_inert.get_inert_ratio_raw(cont))
    if tol_raw > 1e-3:
        rec.skip("raw:ill-conditioned")
    else:
        _close(rec, "raw/" + ("int" if exact_int else "float"),
               f"inert_ratio_raw/value/{tag}", raw, rex, tol_raw,
               "inert_ratio_raw vs exact polygon moments")
        # x <-> y
        sw = float(f_inert.get_inert_ratio_raw(cont[:, ::-1].copy()))
        _close(rec, "swap", f"inert_ratio_raw/swap/{tag}", sw * raw, 1.0,
               1e-12 + 2 * tol_raw, "ratio(x<->y) * ratio")
    # --- principal ratio
    mid = (a + b) / 2
    rad = math.hypot((a - b) / 2, c)
    lmin = mid - rad
    out = {"raw": raw, "rex": rex, "prnc_ex": None}
    if lmin <= 1e-9 * mid:
        rec.skip("prnc:degenerate")
        return out
    pex = math.sqrt((mid + rad) / lmin)
    out["prnc_ex"] = pex
    prnc = float(f_inert.get_inert_ratio_prnc(cont))
    if origin_class == "near":
        tol_p = 100 * (6e-8 + _model(R, n, lmin) * pex * pex)
        cls = tag
    else:
        # what an algorithm working relative to the centroid achieves; the
        # design's rtol 1e-5 as a floor
        ctr = np.mean(cont, axis=0)
        Rc = float(np.max(np.abs(cont - ctr))) + 1.0
        tol_p = max(1e-5, 100 * (6e-8 + _model(Rc, n, lmin) * pex * pex))
        cls = "far-from-origin"
    out["tol_p"] = tol_p
    if tol_p > 1e-2:
        rec.skip("prnc:ill-conditioned")
        return out
    dev = abs(prnc / pex - 1) if prnc == prnc else float("inf")
    if origin_class != "near" and dev > 0.2:
        cls += "-gross"
    _close(rec, "prnc/" + origin_class, f"inert_ratio_prnc/value/{cls}",
           prnc, pex, tol_p, "inert_ratio_prnc vs principal axes of the exact "
           "central moments")
    _cal("prnc>=1/" + origin_class, max(0.0, 1 - prnc), tol_p)
    rec.check(prnc >= 1 - tol_p, f"inert_ratio_prnc/at-least-one/{cls}",
              lambda: f"inert_ratio_prnc = {prnc!r} < 1")
    out["prnc"] = prnc
    return out


def check_cvx(rec, cont, tag):
    """convex-hull ratio of an integer contour against an exact hull"""
    hull = hull_int(cont.tolist())
    got = float(f_inert.get_inert_ratio_cvx(cont))
    if len(hull) < 3:
        rec.skip("cvx:collinear")
        return
    ex = exact_moments(hull)
    if ex is None or ex["mu20"] <= 0 or ex["mu02"] <= 0:
        rec.skip("cvx:degenerate")
        return
    cond = float(ex["m20"] / ex["mu20"] + ex["m02"] / ex["mu02"])
    tol = 1e-12 + 100 * EPS * cond
    _close(rec, "cvx", f"inert_ratio_cvx/value/{tag}", got,
           math.sqrt(ex["mu20"] / ex["mu02"]), tol,
           "inert_ratio_cvx vs exact hull moments")


def check_translation(rec, cont0, cont1, tag):
    """cont1 = cont0 + integer shift (both int64)"""
    m0 = f_inert.cont_moments_cv(cont0)
    m1 = f_inert.cont_moments_cv(cont1)
    if m0 is None or m1 is None:
        rec.check((m0 is None) == (m1 is None), f"moments/translation-none/{tag}",
                  "moments None only at one position")
        return
    rec.check(m0["m00"] == m1["m00"], f"m00/translation/{tag}",
              lambda: f"m00 {m0['m00']!r} vs {m1['m00']!r} after translation")
    ex = exact_moments(cont1.tolist())
    if ex is None or ex["mu20"] <= 0 or ex["mu02"] <= 0:
        return
    cond = float(ex["m20"] / ex["mu20"] + ex["m02"] / ex["mu02"])
    tol = 1e-6 + 200 * EPS * cond
    r0 = float(f_inert.get_inert_ratio_raw(cont0))
    r1 = float(f_inert.get_inert_ratio_raw(cont1))
    _close(rec, "translation/raw", f"inert_ratio_raw/translation/{tag}", r1, r0,
           tol, "inert_ratio_raw after integer translation")
    c0 = float(f_inert.get_inert_ratio_cvx(cont0))
    c1 = float(f_inert.get_inert_ratio_cvx(cont1))
    if c0 == c0 and c1 == c1:
        _close(rec, "translation/cvx", f"inert_ratio_cvx/translation/{tag}",
               c1, c0, tol, "inert_ratio_cvx after integer translation")
    else:
        rec.check((c0 == c0) == (c1 == c1), f"inert_ratio_cvx/translation-nan/{tag}",
                  lambda: f"cvx {c0!r} vs {c1!r} after translation")


# -------------------------------------------------------------------- volume

def check_volume(rec, cont, pos_x, pos_y, pix, scale, tag):
    if len(cont) < 4:
        v = f_volume.get_volume(cont, pos_x, pos_y, pix)
        rec.check(v != v, f"volume/short-contour-not-nan/{tag}",
                  lambda: f"contour with {len(cont)} points gave volume {v!r}")
        return None
    v = float(f_volume.get_volume(cont, pos_x, pos_y, pix))
    ref, sc = volume_ref(cont, pos_x, pos_y, pix)
    if sc <= 0:
        rec.skip("volume:zero-scale")
        return v
    # coordinates are formed as cont - pos/pix: one rounding of pos/pix
    # perturbs the radii (relative to their span) by eps * |pos/pix| / span
    span = float(np.max(np.abs(cont[:, 1] - pos_y / pix))) + 1e-300
    rpos = max(abs(pos_x), abs(pos_y)) / pix
    tol = 1e-12 + 200 * EPS * rpos / span

    def cl(name, sig, got, exp, s=sc, what=""):
        err = abs(got - exp) / s
        if err != err:
            err = float("inf")
        _cal(name, err, tol)
        rec.check(err <= tol, sig,
                  lambda: f"{what}: got {got!r}, expected {exp!r} "
                          f"(scale {s!r})")
    cl("vol/ref", f"volume/definition/{tag}", v, ref,
       what="get_volume vs Pappus reference of the two half contours")
    s = scale
    v2 = float(f_volume.get_volume(cont, pos_x * s, pos_y * s, pix * s))
    cl("vol/scale", f"volume/cubic-scaling/{tag}", v2, s**3 * v, s**3 * sc,
       what=f"volume(s*pix, s*pos), s={s}")
    v3 = float(f_volume.get_volume(cont[::-1].copy(), pos_x, pos_y, pix))
    cl("vol/reverse", f"volume/orientation-sign/{tag}", v3, -v,
       what="volume of the reversed contour")
    v4 = float(f_volume.get_volume(cont, pos_x + 7.25 * pix, pos_y, pix))
    # shifting the origin along the rotation axis changes the summands
    x = cont[:, 0].astype(float) - pos_x / pix
    grow = (1 + 7.25 / (np.max(np.abs(x)) + 1e-9))
    cl("vol/posx", f"volume/pos_x-independence/{tag}", v4, v, sc * grow,
       what="volume with pos_x moved along the rotation axis")
    return v


# ---------------------------------------------------------------- mask kind

def place(m, H, W, ay, ax):
    h, w = m.shape
    oy = {"lo": 0, "mid": 2, "hi": H - h}[ay]
    ox = {"lo": 0, "mid": 2, "hi": W - w}[ax]
    M = np.zeros((H, W), dtype=bool)
    M[oy:oy + h, ox:ox + w] = m
    return M


def is_rectangle(m):
    ys, xs = np.nonzero(m)
    return m.sum() == (ys.max() - ys.min() + 1) * (xs.max() - xs.min() + 1)


def get_contour_guarded(mask):
    """(contour, None) or (None, exception) – NoValidContourFoundError derives
    from BaseException"""
    try:
        return f_contour.get_contour(mask), None
    except f_contour.NoValidContourFoundError as e:
        return None, e


def check_contour_trace(rec, M, cont, interior, tag):
    H, W = M.shape
    okidx = (cont[:, 0] >= 0).all() and (cont[:, 0] < W).all() \
        and (cont[:, 1] >= 0).all() and (cont[:, 1] < H).all()
    rec.check(okidx and cont.ndim == 2 and cont.shape[1] == 2
              and cont.dtype.kind == "i",
              f"contour/shape-or-range/{tag}",
              lambda: f"contour outside the image or malformed: {cont.tolist()}")
    if not okidx:
        return
    bnd = boundary_pixels(M)
    cs = np.zeros_like(M)
    cs[cont[:, 1], cont[:, 0]] = True
    rec.check(not (cs & ~bnd).any(), f"contour/on-boundary/{tag}",
              lambda: "contour points that are not boundary pixels of the mask:"
                      f" {np.argwhere(cs & ~bnd)[:, ::-1].tolist()}\nmask=\n"
                      f"{M.astype(int)}\ncontour={cont.tolist()}")
    step = np.abs(np.diff(cont, axis=0)).max(axis=1) if len(cont) > 1 \
        else np.zeros(0, int)
    rec.check((step == 1).all(), f"contour/steps-8-adjacent/{tag}",
              lambda: f"consecutive contour points not 8-adjacent/duplicated: "
                      f"{cont.tolist()}")
    if True:   # border-touching masks included (contours close along the border)
        if len(cont) > 2:
            last = np.abs(cont[0] - cont[-1]).max()
            rec.check(last == 1, f"contour/closed/{tag}",
                      lambda: f"contour does not close: {cont.tolist()}")
        rec.check(not (bnd & ~cs).any(), f"contour/covers-boundary/{tag}",
                  lambda: "boundary pixels missing from the contour: "
                          f"{np.argwhere(bnd & ~cs)[:, ::-1].tolist()}\nmask=\n"
                          f"{M.astype(int)}\ncontour={cont.tolist()}")
    rf = refill(cont, M.shape)
    rec.check(np.array_equal(rf, M),
              f"contour/refill/{tag}" if interior
              else "contour/refill/border-touching",
              lambda: f"refill(contour) != mask\nmask=\n{M.astype(int)}\n"
                      f"refilled=\n{rf.astype(int)}\ncontour={cont.tolist()}")
    # the same with dclab's own refilling (contours stored as uint16 in tdms data)
    for dt in (np.int64, np.uint16):
        rd = dclab_refill(cont.astype(dt), M.shape)
        rec.check(rd.shape == M.shape and np.array_equal(rd, M),
                  f"contour/refill-by-dclab/{'interior' if interior else 'border-touching'}",
                  lambda: f"MaskColumn refill of the {np.dtype(dt).name} contour != "
                          f"mask\nmask=\n{M.astype(int)}\nrefilled=\n"
                          f"{np.asarray(rd).astype(int)}\ncontour={cont.tolist()}")


class _FakeContours(list):
    identifier = "vf-contours"


class _FakeImages:
    def __init__(self, shape):
        self.shape = (1,) + tuple(shape)

    def __bool__(self):
        return True


class _FakeTdms(dict):
    """the three things fmt_tdms.event_mask.MaskColumn takes from its dataset"""
    config = {"imaging": {}}


def dclab_refill(cont, shape):
    """dclab's own refilling of a stored contour (mask feature of tdms data)"""
    from dclab.rtdc_dataset.fmt_tdms.event_mask import MaskColumn
    ds = _FakeTdms(contour=_FakeContours([np.asarray(cont)]),
                   image=_FakeImages(shape))
    return np.asarray(MaskColumn(ds)[0])


def run_mask(spec, rec):
    blobs = [build_blob(b["ops"], b["fat0"]) for b in spec["blobs"]]
    H = max(max(m.shape[0] for m in blobs) + 4, 4)
    W = max(max(m.shape[1] for m in blobs) + 4, 4)
    sh = np.array(spec["shift"], dtype=np.int64)
    far = int(sh.max()) + max(H, W) > NEAR
    pix = spec["pix"]
    stack, conts, vols = [], [], []
    nontrivial = False
    for b, m in zip(spec["blobs"], blobs):
        npx = int(m.sum())
        interior = b["ay"] == "mid" and b["ax"] == "mid"
        thin = bool(boundary_pixels(np.pad(m, 1)).sum() == npx)
        tag = ("thin" if thin else "blob") if interior else "border"
        M = place(m, H, W, b["ay"], b["ax"])
        cont, err = get_contour_guarded(M)
        if npx == 1:
            # documented rejection (NoValidContourFoundError) – or a 1-point
            # contour; nothing else to check
            rec.cls("mask:single-pixel")
            rec.skip("single-pixel-mask")
            rec.check(err is not None or (cont is not None and len(cont) == 1
                                          and M[cont[0, 1], cont[0, 0]]),
                      "contour/single-pixel",
                      lambda: f"single pixel mask gave {cont}")
            continue
        rec.cls("mask:interior" if interior else "mask:border")
        if thin:
            rec.cls("mask:thin")
        if far:
            rec.cls("mask:far")
        if npx >= 6 and not is_rectangle(m):
            nontrivial = True
        if err is not None:
            rec.fail(f"contour/no-contour/{tag}",
                     f"NoValidContourFoundError for a {npx}-pixel mask\n"
                     f"{M.astype(int)}")
            continue
        check_contour_trace(rec, M, cont, interior, tag)
        if interior:
            # translation equivariance of the extraction itself
            ey, ex_ = spec["embed"]
            M2 = np.zeros((H + ey + 3, W + ex_ + 2), dtype=bool)
            M2[ey:ey + H, ex_:ex_ + W] = M
            c2, e2 = get_contour_guarded(M2)
            rec.check(e2 is None and np.array_equal(c2, cont + [ex_, ey]),
                      f"contour/translation/{tag}",
                      lambda: f"contour of the shifted mask differs: "
                              f"{None if c2 is None else c2.tolist()} vs "
                              f"{(cont + [ex_, ey]).tolist()}")
            if b["pinhole"] is not None:
                er = ndi.binary_erosion(M, structure=np.ones((3, 3)))
                cand = np.argwhere(er)
                if len(cand):
                    rec.cls("mask:pinhole")
                    py, px_ = cand[b["pinhole"] % len(cand)]
                    Mh = M.copy()
                    Mh[py, px_] = False
                    ch, eh = get_contour_guarded(Mh)
                    rec.check(eh is None and np.array_equal(ch, cont),
                              f"contour/pinhole-outer/{tag}",
                              lambda: "contour changes with a one-pixel hole "
                                      f"at {(int(px_), int(py))}: "
                                      f"{None if ch is None else ch.tolist()} vs "
                                      f"{cont.tolist()}\nmask=\n{Mh.astype(int)}")
        stack.append(M)
        conts.append(cont)
        # ---- moments
        c64 = cont.astype(np.int64)
        # stored contours come as int16/uint16/int32/int64 (file formats)
        cs = (c64 + sh).astype(spec.get("cdtype", "int64"))
        rec.cls("mask:contour-dtype-" + str(cs.dtype))
        mtag = "mask-contour"
        check_moments(rec, cs, mtag, True, "far" if far else "near")
        check_cvx(rec, cs, mtag)
        if sh.any():
            check_translation(rec, c64, cs, mtag)
        # ---- volume (centroid of the mask pixels + sub-pixel offset)
        ys, xs = np.nonzero(M)
        pos_x = (float(xs.mean()) + spec["posoff"][0]) * pix
        pos_y = (float(ys.mean()) + spec["posoff"][1]) * pix
        v = check_volume(rec, cont, pos_x, pos_y, pix, spec["scale"], mtag)
        if v is not None and interior:
            _, sc = volume_ref(cont, pos_x, pos_y, pix)
            rec.check(v >= -1e-12 * sc, f"volume/sign-of-mask-contour/{tag}",
                      lambda: f"volume {v!r} < 0 for a contour from get_contour")
        vols.append((pos_x, pos_y))
    if nontrivial:
        rec.nontrivial()
    if not stack:
        return
    # ------------- list / 3D forms and ancillary features of a dict dataset
    arr = np.array(stack)
    px = np.array([p[0] for p in vols])
    py = np.array([p[1] for p in vols])
    lst = f_contour.get_contour(arr)
    same = len(lst) == len(conts) and all(
        np.array_equal(a, b) for a, b in zip(lst, conts))
    rec.check(same, "contour/stack-form", "get_contour(3D) != per-event result")
    ref = {
        "volume": np.array([float(f_volume.get_volume(c, x, y, pix))
                            for c, x, y in zip(conts, px, py)]),
        "inert_ratio_raw": np.array([float(f_inert.get_inert_ratio_raw(c))
                                     for c in conts]),
        "inert_ratio_cvx": np.array([float(f_inert.get_inert_ratio_cvx(c))
                                     for c in conts]),
        "inert_ratio_prnc": np.array([float(f_inert.get_inert_ratio_prnc(c))
                                      for c in conts]),
    }
    # single-event form with the centroid as numpy scalar types (what indexing a
    # feature array of a file yields): same result as with the same python floats
    for c, x, y in list(zip(conts, px, py))[:2]:
        for tag, conv in (("float32", np.float32),
                          ("int64", lambda v: np.int64(round(v)))):
            xs, ys = conv(x), conv(y)
            want = np.asarray(f_volume.get_volume(c, float(xs), float(ys), pix))
            gotv = np.asarray(f_volume.get_volume(c, xs, ys, pix))
            # (float32 scalars make dclab's own arithmetic single precision)
            tol = 1e-4 * max(abs(float(want)), 100 * pix ** 3) \
                if np.isfinite(want) else 0
            rec.check(gotv.shape == want.shape
                      and np.allclose(gotv, want, rtol=0, atol=tol, equal_nan=True),
                      f"volume/centroid-scalar-type/{tag}",
                      lambda: f"get_volume with {tag} centroid ({xs!r}, {ys!r}) gives "
                              f"{gotv!r}, with python floats {want!r}")
    got = {
        "volume": f_volume.get_volume(list(conts), px, py, pix),
        "inert_ratio_raw": f_inert.get_inert_ratio_raw(list(conts)),
        "inert_ratio_cvx": f_inert.get_inert_ratio_cvx(list(conts)),
        "inert_ratio_prnc": f_inert.get_inert_ratio_prnc(list(conts)),
    }
    for k in sorted(ref):
        g = np.asarray(got[k], dtype=float)
        rec.check(g.shape == ref[k].shape
                  and np.array_equal(g, ref[k], equal_nan=True),
                  f"{k}/list-form",
                  lambda: f"{k}(list) = {g.tolist()} != per-event "
                          f"{ref[k].tolist()}")
    with quiet():
        ds = dclab.new_dataset({"mask": arr, "pos_x": px, "pos_y": py,
                                "deform": np.linspace(0.01, 0.02, len(arr))})
        ds.config["imaging"]["pixel size"] = pix
        dc = ds["contour"]
        okc = len(dc) == len(conts)
        # access in a scrambled order (lazy list with an LRU deque)
        order = list(range(len(conts)))[::-1] + list(range(len(conts)))
        for i in order:
            okc = okc and np.array_equal(dc[i], conts[i])
        rec.check(okc, "contour/ancillary-dict-dataset",
                  "ds['contour'][i] != get_contour(mask[i])")
        for k in sorted(ref):
            rec.check(k in ds, f"{k}/ancillary-missing", f"{k} not available")
            if k in ds:
                g = np.asarray(ds[k], dtype=float)
                rec.check(g.shape == ref[k].shape
                          and np.array_equal(g, ref[k], equal_nan=True),
                          f"{k}/ancillary-dict-dataset",
                          lambda: f"ds[{k!r}] = {g.tolist()} != function "
                                  f"result {ref[k].tolist()}")


# ---------------------------------------------------------------- poly kind

def run_poly(spec, rec):
    pix = spec["pix"]
    cx, cy = spec["center"]
    if spec["shape"] == "star":
        n = len(spec["radii"])
        t = spec["phase"] + 2 * np.pi * np.arange(n) / n
        r = np.array(spec["radii"], dtype=float)
        pts = np.stack([cx + r * np.cos(t), cy + r * np.sin(t)], axis=1)
        if spec["int"]:
            pts = np.round(pts).astype(np.int64)
            rec.cls("poly:int")
        else:
            rec.cls("poly:float")
        tag = "int-polygon" if spec["int"] else "float-polygon"
        exact_int = spec["int"]
        if n >= 5:
            rec.nontrivial()
    else:
        n = spec["n"]
        a, b = spec["a"], spec["b"]
        t = spec["phase"] + 2 * np.pi * np.arange(n) / n
        pts = np.stack([cx + a * np.cos(t), cy + b * np.sin(t)], axis=1)
        rec.cls("poly:ellipse")
        tag = "ellipse"
        exact_int = False
        rec.nontrivial()
    if spec["reverse"]:
        pts = pts[::-1].copy()
    R = float(np.max(np.abs(pts)))
    oc = "near" if R <= NEAR else "far"
    if oc == "far":
        rec.cls("poly:far")
    res = check_moments(rec, pts, tag, exact_int, oc)
    if exact_int:
        check_cvx(rec, pts, tag)
        sh = np.array([int(spec["theta"] * 700) % 4000, int(spec["phase"] * 600) % 4000],
                      dtype=np.int64)
        check_translation(rec, pts, pts + sh, tag)
    # ---- rotation invariance of the principal ratio (float contour, about
    # its own centre so that the rotated contour stays at the same distance)
    if res and res.get("prnc_ex") and oc == "near" and res.get("tol_p", 1) <= 1e-2:
        th = spec["theta"]
        rot = np.array([[math.cos(th), -math.sin(th)],
                        [math.sin(th), math.cos(th)]])
        ctr = np.array([cx, cy], dtype=float)
        pr = (pts.astype(float) - ctr) @ rot.T + ctr
        Rr = float(np.max(np.abs(pr))) + 1.0
        exr = exact_moments(pr.tolist())
        if exr is not None and Rr <= 2 * NEAR:
            ar, br, cr = float(exr["mu20"]), float(exr["mu02"]), float(exr["mu11"])
            lmin = (ar + br) / 2 - math.hypot((ar - br) / 2, cr)
            if lmin > 0:
                p2 = float(f_inert.get_inert_ratio_prnc(pr))
                tol = max(1e-5, 2 * res["tol_p"]
                          + 100 * _model(Rr, len(pr), lmin) * res["prnc_ex"]**2)
                _close(rec, "prnc/rotation",
                       f"inert_ratio_prnc/rotation/{tag}", p2, res["prnc"],
                       tol, f"principal ratio after rotation by {th}")
    # ---- ellipse: affine image of a regular n-gon
    if spec["shape"] == "ellipse" and res:
        tol = 1e-9 + 100 * 0.5 * (_model(R, n, float(a * a)) + _model(R, n, float(b * b)))
        _close(rec, "ellipse/ratio", "inert_ratio_raw/ellipse-a-over-b",
               res["raw"], a / b, tol, "inert ratio of an affine-regular n-gon")
    # ---- volume
    pos_x = (cx + spec["posoff"][0]) * pix
    pos_y = (cy + spec["posoff"][1]) * pix
    check_volume(rec, pts, pos_x, pos_y, pix, spec["scale"], tag)
    if len(pts) >= 4:
        # star-shaped about (cx, cy): fix_orientation must give the same
        # positive volume for both orientations
        px0, py0 = cx * pix, cy * pix
        v = float(f_volume.get_volume(pts, px0, py0, pix))
        ref, sc = volume_ref(pts, px0, py0, pix)
        if sc > 0 and abs(ref) > 1e-3 * sc:
            # input already counter-clockwise (v > 0) / clockwise (v < 0)
            ccw, cw = (pts, pts[::-1].copy()) if v > 0 else (pts[::-1].copy(), pts)
            for name, pp in (("ccw-input", ccw), ("cw-input", cw)):
                vf = float(f_volume.get_volume(pp, px0, py0, pix,
                                               fix_orientation=True))
                err = abs(vf - abs(v)) / sc
                _cal("vol/fix-" + name, err, 1e-12)
                rec.check(err <= 1e-12, f"volume/fix-orientation/{name}",
                          lambda: f"fix_orientation=True gives {vf!r} for the "
                                  f"{name} polygon, expected {abs(v)!r}\n"
                                  f"cont={pp.tolist()} pos=({px0},{py0}) pix={pix}")
        if spec["shape"] == "ellipse":
            va = 4 / 3 * math.pi * (a * pix) * (b * pix)**2
            bound = 1.05 * math.pi**2 / n**2
            err = abs(abs(v) / va - 1)
            _cal("ellipse/volume", err, bound)
            rec.check(err <= bound, "volume/ellipsoid-convergence",
                      lambda: f"polygonal ellipsoid n={n}: |V|/V_analytic - 1 = "
                              f"{err:.3g} > 1.05 pi^2/n^2 = {bound:.3g}")
            want = -1.0 if not spec["reverse"] else 1.0
            rec.check(math.copysign(1.0, v) == want, "volume/ellipsoid-sign",
                      lambda: f"volume {v!r}: increasing angle in image "
                              "coordinates is clockwise in the r-z plane")


# ---------------------------------------------------------------- disc kind

def run_disc(spec, rec):
    a = spec["a"]
    b = spec["b"] if spec["b"] is not None else a
    rec.cls("disc")
    rec.cls("disc:sphere" if spec["b"] is None else "disc:ellipsoid")
    rec.nontrivial()
    H = int(2 * b) + 8
    W = int(2 * a) + 8
    cy = H // 2 + spec["sub"][1]
    cx = W // 2 + spec["sub"][0]
    yy, xx = np.mgrid[:H, :W]
    M = ((xx - cx) / a)**2 + ((yy - cy) / b)**2 <= 1.0
    pix = spec["pix"]
    cont = f_contour.get_contour(M)
    check_contour_trace(rec, M, cont, True, "disc")
    v = float(f_volume.get_volume(cont, cx * pix, cy * pix, pix))
    va = 4 / 3 * math.pi * (a * pix) * (b * pix)**2
    m = min(a, b)
    lo = (1 - 1.1 / m)**3
    ratio = v / va
    _cal("disc/lo", lo / ratio if ratio > 0 else float("inf"), 1.0)
    _cal("disc/hi", ratio, 1.0)
    rec.check(lo <= ratio <= 1.0, "volume/pixelated-ellipsoid",
              lambda: f"pixelated ellipsoid a={a}, b={b}: V/V_analytic = "
                      f"{ratio!r} outside [{lo:.4f}, 1]")
    # through the ancillary feature
    with quiet():
        ds = dclab.new_dataset({"mask": M[np.newaxis],
                                "pos_x": np.array([cx * pix]),
                                "pos_y": np.array([cy * pix])})
        ds.config["imaging"]["pixel size"] = pix
        rec.check(float(ds["volume"][0]) == v, "volume/ancillary-dict-dataset",
                  lambda: f"ds['volume'] = {ds['volume'][0]!r} != {v!r}")


# -------------------------------------------------------------- bright kind

def _imgs(seed, n, h, w, mode):
    r = np.random.default_rng(seed)
    if mode == "rand":
        return r.integers(0, 256, size=(n, h, w), dtype=np.uint8)
    if mode == "dark":
        return r.integers(0, 12, size=(n, h, w), dtype=np.uint8)
    if mode == "bright":
        return r.integers(240, 256, size=(n, h, w), dtype=np.uint8)
    if mode == "extreme":
        return (r.integers(0, 2, size=(n, h, w)) * 255).astype(np.uint8)
    return np.full((n, h, w), int(r.integers(0, 256)), dtype=np.uint8)


def _stats(vals):
    """exact mean, population SD, linear 10th/90th percentile of ints"""
    v = sorted(int(x) for x in vals)
    n = len(v)
    mean = Fraction(sum(v), n)
    var = sum((Fraction(x) - mean)**2 for x in v) / n
    sd = math.sqrt(var)

    def perc(q):
        pos = Fraction(q, 100) * (n - 1)
        k = int(pos)
        fr = pos - k
        if k + 1 >= n:
            return float(v[-1])
        return float(v[k] + fr * (v[k + 1] - v[k]))
    return float(mean), sd, perc(10), perc(90)


def _cmp_arr(rec, sig, got, exp, what, atol=1e-9):
    got = np.atleast_1d(np.asarray(got, dtype=float))
    exp = np.atleast_1d(np.asarray(exp, dtype=float))
    ok = got.shape == exp.shape and bool(
        np.all(np.abs(got - exp) <= atol * (1 + np.abs(exp))))
    if got.shape == exp.shape and exp.size:
        _cal("bright", float(np.max(np.abs(got - exp) / (1 + np.abs(exp)))), atol)
    rec.check(ok, sig, lambda: f"{what}: got {got.tolist()}, expected "
                               f"{exp.tolist()}")


def run_bright(spec, rec):
    n, h, w = spec["n"], spec["h"], spec["w"]
    seed = spec["seed"]
    img = _imgs(seed, n, h, w, spec["imgmode"])
    bg = _imgs(seed + 1, n, h, w, spec["bgmode"])
    r = np.random.default_rng(seed + 2)
    mask = r.random((n, h, w)) < spec["density"]
    for i in range(n):
        if not mask[i].any():
            mask[i, r.integers(0, h), r.integers(0, w)] = True
    offkind = spec["offkind"]
    if offkind == "none":
        off_ev = [0.0] * n
        bg_off = None
    elif offkind == "array":
        off_ev = [float(o) for o in spec["off"]]
        bg_off = np.array(off_ev, dtype=float)
        rec.cls("bright:offset-array")
    else:
        off_ev = [float(spec["off"])] * n
        bg_off = float(spec["off"]) if offkind == "scalar" \
            else np.float64(spec["off"])
        rec.cls("bright:offset-scalar")
    if offkind == "none":
        rec.cls("bright:offset-none")
    per_event = offkind == "array" and n >= 2
    if int(mask.sum(axis=(1, 2)).max()) >= 2 and spec["imgmode"] != "const":
        rec.nontrivial()
    # exact references
    e_avg, e_sd, e_bavg, e_bsd, e_p10, e_p90 = [], [], [], [], [], []
    for i in range(n):
        mi = mask[i]
        a, s, _, _ = _stats(img[i][mi].tolist())
        e_avg.append(a)
        e_sd.append(s)
        diff = (img[i].astype(np.int64) - bg[i].astype(np.int64))[mi].tolist()
        a, s, p10, p90 = _stats(diff)
        e_bavg.append(a - off_ev[i])
        e_bsd.append(s)
        e_p10.append(p10 - off_ev[i])
        e_p90.append(p90 - off_ev[i])
    oc = {"none": "no-offset", "scalar": "scalar-offset",
          "npscalar": "scalar-offset", "array": "array-offset"}[offkind]

    def perc_call(site, fn, exp10, exp90):
        try:
            p10, p90 = fn()
        except ValueError as e:
            # candidate 16: truth value of a per-event offset array
            rec.fail(f"bright_perc/{site}/{oc}/ValueError",
                     f"get_bright_perc raises {e!r} for bg_off={bg_off!r}")
            return
        _cmp_arr(rec, f"bright_perc/{site}/{oc}/p10", p10, exp10,
                 "10th percentile")
        _cmp_arr(rec, f"bright_perc/{site}/{oc}/p90", p90, exp90,
                 "90th percentile")

    # ---- single-event form
    for i in range(n):
        o = None if bg_off is None else (
            float(off_ev[i]) if offkind != "npscalar" else np.float64(off_ev[i]))
        a, s = f_bright.get_bright(mask[i], img[i], ret_data="avg,sd")
        _cmp_arr(rec, "bright/single/avg", a, e_avg[i], "bright_avg")
        _cmp_arr(rec, "bright/single/sd", s, e_sd[i], "bright_sd")
        a, s = f_bright_bc.get_bright_bc(mask[i], img[i], bg[i], bg_off=o)
        _cmp_arr(rec, f"bright_bc/single/{oc}/avg", a, e_bavg[i], "bright_bc_avg")
        _cmp_arr(rec, f"bright_bc/single/{oc}/sd", s, e_bsd[i], "bright_bc_sd")
        # each value requested on its own (documented ret_data selections)
        _cmp_arr(rec, f"bright_bc/single/{oc}/sd-only",
                 f_bright_bc.get_bright_bc(mask[i], img[i], bg[i], bg_off=o,
                                           ret_data="sd"), e_bsd[i], "bc sd only")
        _cmp_arr(rec, f"bright_bc/single/{oc}/avg-only",
                 f_bright_bc.get_bright_bc(mask[i], img[i], bg[i], bg_off=o,
                                           ret_data="avg"), e_bavg[i], "bc avg only")
        perc_call("single", lambda: f_bright_perc.get_bright_perc(
            mask[i], img[i], bg[i], bg_off=o), e_p10[i], e_p90[i])
    # ret_data selection
    _cmp_arr(rec, "bright/single/avg-only",
             f_bright.get_bright(mask[0], img[0], ret_data="avg"), e_avg[0],
             "bright avg only")
    _cmp_arr(rec, "bright_bc/single/sd-only",
             f_bright_bc.get_bright_bc(mask[0], img[0], bg[0], bg_off=None,
                                       ret_data="sd"), e_bsd[0], "bc sd only")
    # ---- multi-event forms: 3D ndarray and list of 2D arrays
    for form in ("ndarray3d", "list"):
        if form == "list":
            mk, im, bk = list(mask), list(img), list(bg)
        else:
            mk, im, bk = mask, img, bg
        a, s = f_bright.get_bright(mk, im)
        _cmp_arr(rec, f"bright/{form}/avg", a, e_avg, "bright_avg")
        _cmp_arr(rec, f"bright/{form}/sd", s, e_sd, "bright_sd")
        a, s = f_bright_bc.get_bright_bc(mk, im, bk, bg_off=bg_off)
        _cmp_arr(rec, f"bright_bc/{form}/{oc}/avg", a, e_bavg, "bright_bc_avg")
        _cmp_arr(rec, f"bright_bc/{form}/{oc}/sd", s, e_bsd, "bright_bc_sd")
        _cmp_arr(rec, f"bright_bc/{form}/{oc}/sd-only",
                 f_bright_bc.get_bright_bc(mk, im, bk, bg_off=bg_off, ret_data="sd"),
                 e_bsd, "bc sd only")
        _cmp_arr(rec, f"bright_bc/{form}/{oc}/avg-only",
                 f_bright_bc.get_bright_bc(mk, im, bk, bg_off=bg_off, ret_data="avg"),
                 e_bavg, "bc avg only")
        _cmp_arr(rec, f"bright/{form}/sd-only",
                 f_bright.get_bright(mk, im, ret_data="sd"), e_sd, "bright sd only")
        perc_call("function-per-event-offsets" if per_event else form,
                  lambda: f_bright_perc.get_bright_perc(mk, im, bk, bg_off=bg_off),
                  e_p10, e_p90)
    # ---- ancillary features
    if offkind in ("scalar", "npscalar"):
        ds_off = np.full(n, float(spec["off"]))
    elif offkind == "array":
        ds_off = np.array(off_ev)
    else:
        ds_off = None
    exp = {"bright_avg": e_avg, "bright_sd": e_sd, "bright_bc_avg": e_bavg,
           "bright_bc_sd": e_bsd, "bright_perc_10": e_p10,
           "bright_perc_90": e_p90}
    ds_per_event = ds_off is not None and n >= 2

    def check_ds(ds, site):
        for k in sorted(exp):
            if k not in ds:
                rec.fail(f"{k}/{site}/missing", f"{k} not available")
                continue
            if k.startswith("bright_perc"):
                st_ = site + ("-per-event-offsets" if ds_per_event else "")
                try:
                    g = ds[k][:]
                except ValueError as e:
                    rec.fail(f"bright_perc/{st_}/"
                             f"{'array-offset' if ds_off is not None else oc}"
                             "/ValueError",
                             f"ds[{k!r}] raises {e!r} (bg_off feature present)")
                    continue
                _cmp_arr(rec, f"bright_perc/{st_}/"
                              f"{'array-offset' if ds_off is not None else oc}/"
                              f"{'p10' if k.endswith('10') else 'p90'}",
                         g, exp[k], k)
            else:
                _cmp_arr(rec, f"{k}/{site}/"
                              f"{'array-offset' if ds_off is not None else oc}",
                         ds[k][:], exp[k], k)

    with quiet():
        data = {"mask": mask, "image": img, "image_bg": bg,
                "deform": np.linspace(0.01, 0.02, n)}
        if ds_off is not None:
            data["bg_off"] = ds_off
        ds = dclab.new_dataset(data)
        check_ds(ds, "dict-dataset")
        if spec["h5"]:
            rec.cls("bright:h5")
            d = boot.casedir()
            try:
                p = d / "b.rtdc"
                with dclab.RTDCWriter(p) as hw:
                    hw.store_metadata(meta(imaging={"roi size x": w,
                                                    "roi size y": h}))
                    hw.store_feature("deform", np.linspace(0.01, 0.02, n))
                    hw.store_feature("image", img)
                    hw.store_feature("image_bg", bg)
                    hw.store_feature("mask", mask)
                    if ds_off is not None:
                        hw.store_feature("bg_off", ds_off)
                with dclab.new_dataset(p) as ds2:
                    check_ds(ds2, "hdf5-dataset")
            finally:
                boot.rmcase(d)


# ----------------------------------------------------------------- ctc kind

def run_ctc(spec, rec):
    mode = spec["mode"]
    ct = {k: float(v) for k, v in spec["ct"].items()}
    S = _spill(ct)
    x = np.array(spec["x"], dtype=float)          # (n, 3) true signals
    chans = [1, 2, 3] if mode == "3ch" else [int(mode[0]), int(mode[1])]
    rec.cls("ctc:3ch" if mode == "3ch" else "ctc:2ch")
    for c in (1, 2, 3):
        if c not in chans:
            x[:, c - 1] = 0.0
    nz = sum(1 for v in ct.values() if v != 0)
    if nz >= (3 if mode == "3ch" else 2):
        rec.nontrivial()
    meas = x @ S                                   # measured_j = sum_i x_i c_ij
    cond = float(np.linalg.cond(S))
    scale = float(np.max(np.abs(x))) + 1e-300
    tol = 1e-9 * cond * scale
    kw = {"ct" + k: v for k, v in ct.items()}
    cls = "3-channel" if mode == "3ch" else "2-channel"

    def cmp(sig, got, exp, what):
        got = np.atleast_1d(np.asarray(got, dtype=float))
        exp = np.atleast_1d(np.asarray(exp, dtype=float))
        ok = got.shape == exp.shape and bool(np.all(np.abs(got - exp) <= tol))
        if got.shape == exp.shape:
            _cal("ctc", float(np.max(np.abs(got - exp))), tol)
        rec.check(ok, sig, lambda: f"{what}: corrected {got.tolist()}, true "
                                   f"signal {exp.tolist()}, spill {S.tolist()}")
    for c in chans:
        got = f_ctc.correct_crosstalk(meas[:, 0], meas[:, 1], meas[:, 2], c, **kw)
        cmp(f"fl_crosstalk/inverse/function-array/{cls}", got, x[:, c - 1],
            f"channel {c}")
        g0 = f_ctc.correct_crosstalk(float(meas[0, 0]), float(meas[0, 1]),
                                     float(meas[0, 2]), c, **kw)
        cmp(f"fl_crosstalk/inverse/function-scalar/{cls}", g0, x[0, c - 1],
            f"channel {c} (scalars)")
    minv = f_ctc.get_compensation_matrix(**{
        "ct" + k: ct.get(k, 0.0) for k in CTKEYS})
    err = float(np.max(np.abs(minv @ S - np.eye(3))))
    _cal("ctc/minv", err, 1e-9 * cond)
    rec.check(err <= 1e-9 * cond, f"fl_crosstalk/compensation-matrix/{cls}",
              lambda: f"compensation matrix is not the inverse of the spill "
                      f"matrix {S.tolist()}: {minv.tolist()}")
    # ---- ancillary features
    with quiet():
        data = {f"fl{c}_max": meas[:, c - 1].copy() for c in chans}
        data["deform"] = np.linspace(0.01, 0.02, len(x))
        ds = dclab.new_dataset(data)
        ds.config["calculation"].update(
            {f"crosstalk fl{k}": v for k, v in ct.items()})
        for c in chans:
            name = f"fl{c}_max_ctc"
            rec.check(name in ds, f"fl_crosstalk/ancillary-missing/{cls}",
                      f"{name} not available")
            if name in ds:
                cmp(f"fl_crosstalk/inverse/ancillary/{cls}", ds[name][:],
                    x[:, c - 1], name)


def run_case(spec, rec):
    kind = spec["kind"]
    rec.cls("kind:" + kind)
    if kind == "mask":
        run_mask(spec, rec)
    elif kind == "poly":
        run_poly(spec, rec)
    elif kind == "disc":
        run_disc(spec, rec)
    elif kind == "bright":
        run_bright(spec, rec)
    elif kind == "ctc":
        run_ctc(spec, rec)
    else:  # pragma: no cover
        raise ValueError(kind)
