"""C06 — computed (ancillary) features always reflect the current data and settings.

History-driven differential: the spec is a list of operations on ONE long-lived
dataset (in-memory or HDF5, plus a hierarchy child of it): set / change / delete a
[calculation] / [imaging] / [setup] / [user] key, set / replace a temporary feature
(registered names and ml_score_???; directly or through the child), register /
replace / remove plugin features, change the parent filter, and the observations
read a feature, `feat in ds`, `ds.features` (on the dataset or on the refreshed
child).  Every observation is repeated on a FRESH dataset that is built from the
same data and the *current* model state only (configuration, temporary features,
plugin registry, filter) and must agree: value (NaN-aware exact), exception class,
membership, feature list.  In addition, on both datasets: membership <=> reading
succeeds (valid configurations), membership == availability model transcribed from
the documentation, and value == direct evaluation of the documented recipe
(emodulus scenario A/B/C through `get_emodulus`, area_um, time, deform, aspect,
area_ratio, index, ml_class, crosstalk with an exactly-specified matrix, plugin
recipes).
"""
import traceback

import sys

import numpy as np
from hypothesis import strategies as st

from .. import boot
from ..common import meta

import dclab
from dclab import RTDCWriter
from dclab.rtdc_dataset import feat_temp
from dclab.rtdc_dataset.feat_anc_plugin.plugin_feature import (
    PlugInFeature, remove_plugin_feature, load_plugin_feature)
from dclab.rtdc_dataset.feat_anc_core.af_fl_max_ctc import (
    MissingCrosstalkMatrixElementsError)
from dclab.features.emodulus import get_emodulus
from dclab.features.fl_crosstalk import correct_crosstalk

ID = "C06"
RULE = ("Hypothesis-generated histories (<=40 operations) on a long-lived dataset "
        "(dict / HDF5 / hierarchy child, n<=25) that starts from a near-complete "
        "configuration; every read / membership / feature-list observation is compared "
        "with a fresh dataset carrying only the current state.  non-trivial = the history "
        "contains a read of a feature that had been read (cached) before and one of whose "
        "ingredients (configuration key, temporary feature, plugin registration) was "
        "changed or removed in between; distinct = sha1 of the spec")
BUDGET = {"quick": 480, "thorough": 8000}
ESSENTIAL = [
    "reread-after-change:emodulus", "reread-after-change:ctc",
    "reread-after-change:time", "reread-after-change:ml_class",
    "reread-after-change:plugin", "reread-after-removal", "child-read",
    "emodulus-unavailable:no-temperature-source",
    "fmt:hdf5", "fmt:dict", "scenario:A", "scenario:B", "scenario:C",
    "scenario:B-other+T", "emodulus-finite-values", "op:temp", "op:ctemp",
    "op:plug", "op:unplug", "op:features", "direct:emodulus", "direct:ctc",
    "direct:ml_class", "direct:plugin"]
#: further classes to watch in the evidence (too variable to be made mandatory):
#: reread-after-change:area_um / :volume / :crosstalk-of-unrecorded-channel
ASSUMPTIONS = [
    "version shim so that the HDF5 file written by the untagged build re-opens",
    "input feature data are fixed per case; data change only through the documented "
    "routes (temporary features incl. ml_score_???, plugin recipes, configuration)",
    "`temp` (per-event temperature) is present or absent per dataset, it is not "
    "replaced through set_temporary_feature (only registered names and ml_score_??? are)",
    "contradictory emodulus settings (known medium + viscosity, unknown medium, "
    "'other' without viscosity) and an incomplete crosstalk matrix with three channels "
    "raise by design (ValueError / MissingCrosstalkMatrixElementsError); the same "
    "outcome is required from the long-lived and the fresh dataset",
    "get_emodulus / correct_crosstalk themselves are trusted here (C05 / C18 check them)",
    "crosstalk values are non-negative, ml scores lie in [0, 1] or are NaN"]

# ------------------------------------------------------------------ key tables

CT = ["ct12", "ct21", "ct13", "ct31", "ct23", "ct32"]
KEYS = {
    "px": ("imaging", "pixel size", [0.34, 0.27, 0.5]),
    "fr": ("imaging", "frame rate", [2000.0, 3000.0, 500.0]),
    "flow": ("setup", "flow rate", [0.04, 0.08, 0.16]),
    "width": ("setup", "channel width", [20.0, 30.0]),
    "region": ("setup", "chip region", ["channel", "reservoir"]),
    "lut": ("calculation", "emodulus lut", ["HE-3D-FEM-22", "LE-2D-FEM-19"]),
    "med": ("calculation", "emodulus medium",
            ["CellCarrier", "other", "water", "CellCarrier B", "0.49% MC-PBS", "honey"]),
    # incl. 0.0 (valid for water; a falsy but *set* temperature)
    "T": ("calculation", "emodulus temperature", [23.0, 25.5, 30.0, 0.0]),
    "visc": ("calculation", "emodulus viscosity", [1.0, 2.5, 9.0]),
    "vm": ("calculation", "emodulus viscosity model",
           ["buyukurganci-2022", "herold-2017"]),
    "uk": ("user", "k", [2, 3, 5]),
    "um": ("user", "m", [1, 2, 4]),
}
for _c in CT:
    KEYS[_c] = ("calculation", f"crosstalk fl{_c[2:]}", [0.1, 0.25, 0.05, 0.0])
KNOWN_MEDIA = {"CellCarrier", "water", "CellCarrier B", "0.49% MC-PBS"}
EMOD_KEYS = ["lut", "med", "T", "visc", "vm", "px", "flow", "width", "region"]

SCALAR_IN = ["area_cvx", "area_msd", "size_x", "size_y", "circ", "frame", "pos_x",
             "pos_y", "bg_off", "fl1_max", "fl2_max", "fl3_max", "temp"]
IMAGE_IN = ["mask", "image", "image_bg"]
DROPPABLE = ["bg_off",
             "image_bg", "area_msd", "size_y", "frame", "pos_x", "mask", "image",
             "area_cvx", "circ"]
TEMPS = ["tmp_a", "ml_score_aaa", "ml_score_bbb", "ml_score_ccc"]
IMG_SHAPE = (12, 16)

# observed features -> group (used in signatures and class names)
GROUP = {
    "emodulus": "emodulus", "fl1_max_ctc": "ctc", "fl2_max_ctc": "ctc",
    "fl3_max_ctc": "ctc", "area_um": "area_um", "time": "time", "volume": "volume",
    "ml_class": "ml_class", "plug_s": "plugin", "plug_t": "plugin", "plug_n": "plugin",
    "plug_a": "plugin", "plug_f": "plugin",
    "deform": "basic", "aspect": "basic", "area_ratio": "basic", "index": "basic",
    "bright_avg": "image", "bright_sd": "image", "bright_bc_avg": "image",
    "bright_bc_sd": "image", "bright_perc_10": "image", "bright_perc_90": "image",
    "inert_ratio_cvx": "image", "inert_ratio_prnc": "image", "inert_ratio_raw": "image",
    "tilt": "image",
}
READ_POOL = (["emodulus"] * 5 + ["fl1_max_ctc", "fl2_max_ctc", "fl3_max_ctc"] * 2
             + ["area_um", "time", "volume"] * 2 + ["ml_class"] * 4
             + ["plug_s"] * 3 + ["plug_t"] * 2 + ["plug_n"] * 3 + ["plug_a"] * 4
             + ["plug_f"] * 3
             + ["deform", "aspect", "area_ratio", "index", "bright_avg", "bright_sd",
                "bright_bc_avg", "bright_bc_sd", "bright_perc_10", "bright_perc_90",
                "inert_ratio_cvx", "inert_ratio_prnc", "inert_ratio_raw", "tilt"])
WARM = ["emodulus", "fl1_max_ctc", "fl2_max_ctc", "fl3_max_ctc", "area_um", "time",
        "volume", "ml_class", "plug_s", "plug_n", "plug_a", "plug_f"]
#: features populated by the same recipe call (documented: "all ancillary features
#: that share the same method will also be populated automatically")
SIBLINGS = [{"bright_avg", "bright_sd"}, {"bright_bc_avg", "bright_bc_sd"},
            {"bright_perc_10", "bright_perc_90"}, {"plug_s", "plug_t"}]
#: ingredient ids per feature (configuration keys, temporary features, plugin recipe)
ING = {
    "area_um": {"px"}, "time": {"fr"}, "volume": {"px"},
    "emodulus": set(EMOD_KEYS),
    "fl1_max_ctc": set(CT), "fl2_max_ctc": set(CT), "fl3_max_ctc": set(CT),
    "ml_class": {"ml_score_aaa", "ml_score_bbb", "ml_score_ccc"},
    "plug_s": {"uk", "tmp_a", "plugin"}, "plug_t": {"uk", "tmp_a", "plugin"},
    "plug_n": {"um", "plugin"},
    # requires the ancillary feature area_um (which depends on the pixel size)
    # without listing that configuration key itself
    "plug_a": {"px", "plugin"},
    # recipe loaded from a script file (re-written and re-loaded when the variant changes)
    "plug_f": {"tmp_a", "plugin"},
}
KEY_TO_FEATS = {}
for _f, _ings in ING.items():
    for _i in _ings:
        KEY_TO_FEATS.setdefault(_i, []).append(_f)
for _v in KEY_TO_FEATS.values():
    _v.sort()

# ------------------------------------------------------------------- generator

KEY_CATS = ([["med", "T", "visc", "vm", "vm", "lut"]] * 4
            + [["px", "px", "px", "flow", "width", "region"]] * 4
            + [["fr"]] * 3 + [["uk", "um"]] * 2 + [CT] * 6)


def _vidx(draw, key):
    nv = len(KEYS[key][2])
    if key == "lut":
        return draw(st.sampled_from([0, 0, 0, 0, 1]))
    if key == "region":
        return draw(st.sampled_from([0, 0, 0, 1]))
    if key == "med":
        return draw(st.sampled_from([0, 0, 0, 1, 1, 1, 2, 3, 4, 5]))
    return draw(st.integers(0, nv - 1))


@st.composite
def st_op(draw):
    kind = draw(st.sampled_from(
        ["set"] * 9 + ["del"] * 2 + ["temp"] * 4 + ["ctemp", "ctemp", "plug", "plug", "unplug",
                                                     "filter"]
        + ["read"] * 7 + ["has"] * 2 + ["features"] + ["cread"] * 3 + ["chas"]))
    if kind in ("set", "del"):
        key = draw(st.sampled_from(draw(st.sampled_from(KEY_CATS))))
        then = None
        if draw(st.integers(0, 9)) < (9 if key in CT or key == "vm" else 6):
            then = draw(st.sampled_from(
                ["volume", "area_um", "plug_a", "plug_a", "emodulus", "plug_a"]
                if key == "px"
                else KEY_TO_FEATS[key]))
        if kind == "set":
            return ["set", key, _vidx(draw, key), then]
        return ["del", key, then]
    if kind in ("temp", "ctemp"):
        name = draw(st.sampled_from(TEMPS))
        then = None
        if draw(st.integers(0, 9)) < 6:
            then = draw(st.sampled_from(KEY_TO_FEATS[name]))
        return [kind, name, draw(st.integers(0, 999)), then]
    if kind in ("plug", "unplug"):
        then = None
        if draw(st.integers(0, 9)) < 6:
            then = draw(st.sampled_from(["plug_s", "plug_t", "plug_n", "plug_a"]))
        if kind == "plug":
            return ["plug", draw(st.integers(0, 1)), then]
        return ["unplug", then]
    if kind == "filter":
        return ["filter", draw(st.integers(0, 999))]
    if kind in ("read", "has", "cread", "chas"):
        return [kind, draw(st.sampled_from(READ_POOL))]
    return [kind]


@st.composite
def st_spec(draw):
    scen = draw(st.sampled_from(["A", "A", "B", "C", "C", "Bother", "BotherT",
                                 "BotherT"]))
    present = {"px", "fr", "flow", "width", "lut", "uk", "um"}
    present |= {"A": {"med", "vm"}, "B": {"visc"}, "C": {"med", "T", "vm"},
                "Bother": {"med", "visc"}, "BotherT": {"med", "visc", "T", "vm"}}[scen]
    # two-channel measurements are common: one fluorescence channel not recorded
    fl_absent = draw(st.sampled_from([[], [], ["fl3_max"], ["fl3_max"], ["fl3_max"],
                                      ["fl2_max"], ["fl1_max"], ["fl2_max", "fl3_max"]]))
    if len(fl_absent) == 1:
        # ... while the analysis pipeline defines the full matrix
        ct0 = draw(st.sampled_from([CT, CT, CT, CT, ["ct12", "ct21", "ct13", "ct31"],
                                    ["ct12", "ct21"], []]))
    else:
        ct0 = draw(st.sampled_from(
            [CT, CT, ["ct12", "ct21"], ["ct13", "ct31"], ["ct23", "ct32"],
             ["ct12", "ct21", "ct13", "ct31"], []]))
    present |= set(ct0)
    if draw(st.booleans()):
        present.add("region")
    present -= set(draw(st.lists(st.sampled_from(sorted(KEYS)), max_size=1)))
    present |= set(draw(st.lists(st.sampled_from(sorted(KEYS)), max_size=1)))
    cfg = {}
    for k in sorted(present):
        if k == "med" and scen in ("Bother", "BotherT"):
            cfg[k] = 1
        elif k == "med" and scen in ("A", "C"):
            cfg[k] = draw(st.sampled_from([0, 0, 0, 2, 3, 4]))
        else:
            cfg[k] = _vidx(draw, k)
    absent = draw(st.lists(st.sampled_from(DROPPABLE), max_size=2, unique=True))
    absent += fl_absent
    # datasets without the per-event temperature (scenario A impossible)
    if draw(st.sampled_from([False, False, True])):
        absent.append("temp")
    return {
        "fmt": draw(st.sampled_from(["dict", "dict", "hdf5", "basin"])),
        "n": draw(st.sampled_from([1, 2, 3, 5, 8, 13, 25])),
        "seed": draw(st.integers(0, 9999)),
        "absent": sorted(absent),
        "innate": draw(st.sampled_from([[], [], [], ["area_um"], ["deform"],
                                        ["area_um", "deform"]])),
        "cfg": cfg,
        "temps": {nm: draw(st.integers(0, 999)) for nm in
                  draw(st.sampled_from([["tmp_a", "ml_score_aaa", "ml_score_bbb"],
                                        ["tmp_a", "ml_score_aaa"], ["tmp_a"],
                                        ["ml_score_bbb"], []]))},
        "plug": draw(st.sampled_from([0, 0, 1, None])),
        "mask": draw(st.integers(0, 999)),
        # features NOT read right after construction (all others of WARM are, so that
        # most later changes hit a cached value)
        "cold": sorted(draw(st.lists(st.sampled_from(WARM), max_size=4, unique=True))),
        "ops": draw(st.lists(st_op(), min_size=4, max_size=40)),
    }


def strategy(tier):
    return st_spec()


def sample_view(spec):
    s = dict(spec)
    if "ops" in s:
        s["ops"] = spec["ops"][:25]
    return s


# ------------------------------------------------------------------------ data

def make_data(spec):
    n = spec["n"]
    r = np.random.default_rng(spec["seed"])
    d = {}
    d["area_cvx"] = np.round(r.uniform(150, 1600, n))
    d["area_msd"] = np.round(d["area_cvx"] * r.uniform(0.9, 1.0, n))
    d["size_x"] = r.integers(0, 30, n).astype(float)
    d["size_y"] = r.integers(0, 20, n).astype(float)
    d["circ"] = r.uniform(0.84, 0.998, n)
    d["frame"] = np.cumsum(r.integers(1, 40, n))
    h, w = IMG_SHAPE
    yy, xx = np.mgrid[0:h, 0:w]
    mask = np.zeros((n, h, w), dtype=bool)
    cy = r.uniform(4.5, h - 5.5, n)
    cx = r.uniform(6.5, w - 7.5, n)
    ry = r.uniform(1.6, 3.4, n)
    rx = r.uniform(1.6, 5.4, n)
    for i in range(n):
        mask[i] = ((yy - cy[i]) / ry[i]) ** 2 + ((xx - cx[i]) / rx[i]) ** 2 <= 1.0
    d["mask"] = mask
    d["pos_x"] = cx * 0.34
    d["pos_y"] = cy * 0.34
    d["image"] = r.integers(0, 256, (n, h, w), dtype=np.uint8)
    d["image_bg"] = r.integers(0, 256, (n, h, w), dtype=np.uint8)
    d["bg_off"] = np.round(r.normal(0, 2, n), 2)
    for k in (1, 2, 3):
        d[f"fl{k}_max"] = r.integers(0, 3000, n).astype(float)   # uint32 in files
    d["temp"] = np.round(r.uniform(19, 31, n), 2)
    d["area_um"] = np.round(d["area_cvx"] * 0.34 ** 2 * r.uniform(0.95, 1.0, n), 3)
    d["deform"] = np.round((1 - d["circ"]) * r.uniform(0.9, 1.1, n), 5)
    out = {}
    for k in SCALAR_IN + IMAGE_IN:
        if k not in spec["absent"]:
            out[k] = d[k]
    for k in spec["innate"]:
        out[k] = d[k]
    if not any(k in out for k in SCALAR_IN):
        out["area_cvx"] = d["area_cvx"]
    return out


def temp_data(name, seed, n):
    r = np.random.default_rng(100000 + seed * 7 + TEMPS.index(name))
    if name.startswith("ml_score_"):
        v = np.round(r.uniform(0, 1, n), 3)
        sel = r.integers(0, 6, n)
        v[sel == 0] = np.nan
        v[sel == 1] = 0.0
        return v
    return np.round(r.normal(0, 10, n), 2)


def filter_mask(seed, n):
    r = np.random.default_rng(200000 + seed)
    m = r.integers(0, 3, n) > 0
    if not m.any():
        m[r.integers(0, n)] = True
    return m


# ----------------------------------------------------------- plugin recipes

def _plug_st_0(ds):
    k = ds.config["user"]["k"]
    a = np.asarray(ds["tmp_a"][:], dtype=float)
    return {"plug_s": a * k, "plug_t": a + k}


def _plug_st_1(ds):
    k = ds.config["user"]["k"]
    a = np.asarray(ds["tmp_a"][:], dtype=float)
    return {"plug_s": a * k - 1.0, "plug_t": a + 2 * k}


def _plug_n_0(ds):
    m = ds.config["user"]["m"]
    return np.asarray(ds["image"][:], dtype=float)[:, :2, :3] * m


def _plug_n_1(ds):
    m = ds.config["user"]["m"]
    return np.asarray(ds["image"][:], dtype=float)[:, :2, :3] + m


def _plug_a_0(ds):
    return np.asarray(ds["area_um"][:], dtype=float) / 2


def _plug_a_1(ds):
    return np.asarray(ds["area_um"][:], dtype=float) / 2 + 1.0


def _plug_n_check(ds):
    """requirement function with a non-boolean (hashed) return value"""
    if "m" in ds.config["user"]:
        return ["m", ds.config["user"]["m"]]
    return False


def register_plugins(variant):
    info_st = {"method": [_plug_st_0, _plug_st_1][variant],
               "feature names": ["plug_s", "plug_t"],
               "features required": ["tmp_a"],
               "config required": [["user", ["k"]]],
               "version": f"0.{variant}.0"}
    info_n = {"method": [_plug_n_0, _plug_n_1][variant],
              "feature names": ["plug_n"],
              "scalar feature": [False],
              "feature shapes": [(2, 3)],
              "features required": ["image"],
              "method check required": _plug_n_check,
              "version": f"0.{variant}.0"}
    info_a = {"method": [_plug_a_0, _plug_a_1][variant],
              "feature names": ["plug_a"],
              "features required": ["area_um"],
              "version": f"0.{variant}.0"}
    # a recipe that lives in a script file: the documented way to register plugins;
    # the same file is edited (other variant) and loaded again
    pdir = boot.tmproot() / "vf_plugin_scripts"
    pdir.mkdir(exist_ok=True)
    script = pdir / "vf_plugfile.py"
    # (the two versions differ in size: a rewrite within one timestamp tick of the
    # file system is still a visible change of the file)
    script.write_text(PLUG_SCRIPT.format(add=[0.5, 7.0][variant], ver=variant)
                      + "# variant\n" * (1 + variant))
    # (dclab's script import leaves the script directory in sys.path and removes the
    # first entry instead; that is outside C06 - the harness keeps its own sys.path)
    saved = list(sys.path)
    try:
        from_file = list(load_plugin_feature(script))
    finally:
        sys.path[:] = saved
    return [PlugInFeature("plug_s", info_st), PlugInFeature("plug_t", info_st),
            PlugInFeature("plug_n", info_n), PlugInFeature("plug_a", info_a)] \
        + from_file


PLUG_SCRIPT = '''import numpy as np


def compute(rtdc_ds):
    a = np.asarray(rtdc_ds["tmp_a"][:], dtype=float)
    return {{"plug_f": a * 3 + {add}}}


info = {{"method": compute, "description": "vf file plugin",
        "long description": "vf file plugin", "feature names": ["plug_f"],
        "feature labels": ["plug f"], "features required": ["tmp_a"],
        "config required": [], "method check required": lambda x: True,
        "scalar feature": [True], "version": "0.{ver}.0"}}
'''


# ------------------------------------------------------------------ simulator

OKAY_EXC = ("KeyError", "ValueError", "MissingCrosstalkMatrixElementsError")


def _is_dclab_tb(e):
    for fr in traceback.extract_tb(e.__traceback__):
        if "/dclab/" in fr.filename.replace("\\", "/"):
            return True
    return False


def observe(ds, feat):
    """('ok', array) or ('exc', class name)"""
    try:
        v = ds[feat]
        return "ok", np.array(v[:])
    except (Exception, MissingCrosstalkMatrixElementsError) as e:
        if not _is_dclab_tb(e):
            raise
        return "exc", type(e).__name__


def same(a, b):
    if a[0] != b[0]:
        return False
    if a[0] == "exc":
        return a[1] == b[1]
    x, y = a[1], b[1]
    if x.shape != y.shape or x.dtype.kind != y.dtype.kind:
        return False
    return bool(np.array_equal(x, y, equal_nan=x.dtype.kind in "fc"))


def show(o):
    if o[0] == "exc":
        return f"raises {o[1]}"
    return f"{o[1].dtype}{list(o[1].shape)} {np.asarray(o[1]).ravel()[:6].tolist()}"


class Sim:
    def __init__(self, spec, rec, casedir):
        self.spec, self.rec, self.dir = spec, rec, casedir
        self.n = spec["n"]
        self.data = make_data(spec)
        self.fmt = spec["fmt"]
        self.cfg = {k: KEYS[k][2][i % len(KEYS[k][2])] for k, i in spec["cfg"].items()}
        self._sane_T(None)
        self.temps = {nm: temp_data(nm, sd, self.n)
                      for nm, sd in sorted(spec["temps"].items())}
        self.mask = filter_mask(spec["mask"], self.n)
        self.plugins = []
        self.variant = None
        self.opened = []
        self.path = None
        # history model
        self.cached = set()        # successfully read on the long-lived dataset
        self.snap = {}             # feat -> ingredient states at that read
        self.temp_ver = {nm: 1 for nm in self.temps}
        self.nontrivial = False
        feat_temp.register_temporary_feature("tmp_a")
        if spec["plug"] is not None:
            self.set_plugins(spec["plug"])
        if self.fmt == "hdf5":
            self.path = self.dir / "long.rtdc"
            with RTDCWriter(self.path) as hw:
                hw.store_metadata(meta())
                for k in sorted(self.data):
                    hw.store_feature(k, self.data[k])
        elif self.fmt == "basin":
            # a thin file: one feature stored, everything else through a file basin
            # whose definition lists no features; the reference ("fresh") dataset is
            # an in-memory dataset with the same data and configuration
            origin = self.dir / "origin.rtdc"
            with RTDCWriter(origin) as hw:
                hw.store_metadata(meta())
                for k in sorted(self.data):
                    hw.store_feature(k, self.data[k])
            self.path = self.dir / "long.rtdc"
            with RTDCWriter(self.path) as hw:
                hw.store_metadata(meta())
                k0 = sorted(self.data)[0]
                hw.store_feature(k0, self.data[k0])
                hw.store_basin(basin_name="origin", basin_type="file",
                               basin_format="hdf5", basin_locs=[str(origin)],
                               verify=False)
        self.ds = self.build()
        self.child = dclab.new_dataset(self.ds)
        self._child_mask = np.array(self.ds.filter.all).copy()

    def sync_child(self):
        self.child.rejuvenate()
        self._child_mask = np.array(self.ds.filter.all).copy()

    def child_in_sync(self):
        return (len(self._child_mask) == len(self.mask)
                and np.array_equal(self._child_mask, self.mask)
                and np.array_equal(np.asarray(self.ds.filter.all), self.mask))

    # -- construction of datasets from the model state
    def build(self, fresh=False):
        if self.fmt == "hdf5" or (self.fmt == "basin" and not fresh):
            ds = dclab.new_dataset(self.path)
        else:
            ds = dclab.new_dataset({k: v.copy() for k, v in self.data.items()})
        self.opened.append(ds)
        for k in sorted(KEYS):
            sec, key, _ = KEYS[k]
            if k in self.cfg:
                ds.config[sec][key] = self.cfg[k]
            elif key in ds.config[sec]:
                del ds.config[sec][key]
        for nm in sorted(self.temps):
            feat_temp.set_temporary_feature(ds, nm, self.temps[nm].copy())
        ds.filter.manual[:] = self.mask
        ds.apply_filter()
        return ds

    def fresh(self, child=False):
        f = self.build(fresh=True)
        if child:
            return dclab.new_dataset(f)
        return f

    def release(self, ds):
        while hasattr(ds, "hparent"):
            ds = ds.hparent
        if ds is not self.ds:
            ds.close()
            if ds in self.opened:
                self.opened.remove(ds)

    def close(self):
        for ds in self.opened:
            try:
                ds.close()
            except Exception:
                pass
        self.opened = []

    def set_plugins(self, variant):
        for p in self.plugins:
            remove_plugin_feature(p)
        self.plugins = []
        self.variant = variant
        if variant is not None:
            self.plugins = register_plugins(variant)

    # -- documentation model ------------------------------------------------
    def has(self, f):
        return f in self.data

    def avail(self, f):
        c, has = self.cfg, self.has
        if f in self.data or f in self.temps:
            return True
        if f == "area_um":
            return has("area_cvx") and "px" in c
        if f == "deform":
            return has("circ")
        if f == "aspect":
            return has("size_x") and has("size_y")
        if f == "area_ratio":
            return has("area_cvx") and has("area_msd")
        if f == "index":
            return True
        if f == "time":
            return has("frame") and "fr" in c
        if f in ("bright_avg", "bright_sd"):
            return has("image") and has("mask")
        if f.startswith("bright_"):
            return has("image") and has("image_bg") and has("mask")
        if f in ("inert_ratio_cvx", "inert_ratio_prnc", "inert_ratio_raw", "tilt",
                 "contour"):
            return has("mask")
        if f == "volume":
            return has("mask") and has("pos_x") and has("pos_y") and "px" in c
        if f.endswith("_max_ctc"):
            i = int(f[2])
            for j in (1, 2, 3):
                if j != i and has(f"fl{i}_max") and has(f"fl{j}_max") \
                        and f"ct{i}{j}" in c and f"ct{j}{i}" in c:
                    return True
            return False
        if f == "ml_class":
            return any(t.startswith("ml_score_") for t in self.temps)
        if f in ("plug_s", "plug_t"):
            return self.variant is not None and "tmp_a" in self.temps and "uk" in c
        if f == "plug_n":
            return self.variant is not None and has("image") and "um" in c
        if f == "plug_f":
            return self.variant is not None and "tmp_a" in self.temps
        if f == "plug_a":
            return self.variant is not None and self.avail("area_um")
        if f == "emodulus":
            return self.emod_scenario() != "none"
        raise ValueError(f)

    def emod_scenario(self):
        """documented scenario that the current settings select"""
        c = self.cfg
        if not (all(k in c for k in ("lut", "px", "flow", "width"))
                and c.get("region", "channel") == "channel"
                and self.avail("area_um") and self.avail("deform")):
            return "none"
        med, tmp, visc = c.get("med"), c.get("T"), c.get("visc")
        if visc is not None:
            if med is None:
                return "B+T" if tmp is not None else "B"
            if med == "other":
                return "B-other+T" if tmp is not None else "B-other"
            return "invalid-medium+viscosity"
        if med is None:
            return "none"
        if tmp is None and not self.has("temp"):
            return "none"
        if med not in KNOWN_MEDIA:
            return "invalid-unknown-medium"
        if tmp is not None:
            return "C+temp" if self.has("temp") else "C"
        return "A"

    def valid(self, f):
        if f == "emodulus":
            return not self.emod_scenario().startswith("invalid")
        if f.endswith("_max_ctc"):
            if all(self.has(f"fl{k}_max") for k in (1, 2, 3)):
                return all(k in self.cfg for k in CT)
        return True

    def direct(self, f):
        """value by direct evaluation of the documented recipe, or None"""
        c, d = self.cfg, self.data
        if f in d:
            return d[f]
        if f in self.temps:
            return self.temps[f]
        if f == "area_um":
            return d["area_cvx"] * c["px"] ** 2
        if f == "deform":
            return 1 - d["circ"]
        if f == "time":
            return np.array(d["frame"], dtype=float) / c["fr"]
        if f == "index":
            return np.arange(1, self.n + 1)
        if f in ("aspect", "area_ratio"):
            a, b = (d["size_x"], d["size_y"]) if f == "aspect" else \
                (d["area_cvx"], d["area_msd"])
            out = np.full(self.n, np.nan)
            ok = b != 0
            out[ok] = a[ok] / b[ok]
            return out
        if f == "ml_class":
            names = sorted(t for t in self.temps if t.startswith("ml_score_"))
            out = np.full(self.n, -1, dtype=int)
            for i in range(self.n):
                best = None
                for j, nm in enumerate(names):
                    v = self.temps[nm][i]
                    if np.isnan(v) or v == 0:
                        continue
                    if best is None or v > best[0]:
                        best = (v, j)
                if best is not None:
                    out[i] = best[1]
            return out
        if f in ("plug_s", "plug_t"):
            a, k = self.temps["tmp_a"], c["uk"]
            if f == "plug_s":
                return a * k if self.variant == 0 else a * k - 1.0
            return a + k if self.variant == 0 else a + 2 * k
        if f == "plug_f":
            return self.temps["tmp_a"] * 3 + [0.5, 7.0][self.variant]
        if f == "plug_a":
            a = np.asarray(self.direct("area_um"), dtype=float) / 2
            return a if self.variant == 0 else a + 1.0
        if f == "plug_n":
            img = np.asarray(d["image"], dtype=float)[:, :2, :3]
            return img * c["um"] if self.variant == 0 else img + c["um"]
        if f.endswith("_max_ctc"):
            chans = [k for k in (1, 2, 3) if self.has(f"fl{k}_max")]
            need = {f"ct{i}{j}" for i in chans for j in chans if i != j}
            have = {k for k in CT if k in c}
            if have != need:
                return None      # matrix over-/under-specified: no documented recipe
            fl = [d[f"fl{k}_max"] if k in chans else 0 for k in (1, 2, 3)]
            return correct_crosstalk(fl1=fl[0], fl2=fl[1], fl3=fl[2],
                                     fl_channel=int(f[2]),
                                     **{k: c[k] for k in sorted(have)})
        if f == "emodulus":
            sc = self.emod_scenario()
            kw = dict(area_um=self.direct("area_um"), deform=self.direct("deform"),
                      channel_width=c["width"], flow_rate=c["flow"], px_um=c["px"],
                      lut_data=c["lut"])
            if sc.startswith("B"):
                return get_emodulus(medium=c["visc"], temperature=None,
                                    visc_model=None, **kw)
            t = c["T"] if sc.startswith("C") else d["temp"]
            return get_emodulus(medium=c["med"], temperature=t,
                                visc_model=c.get("vm", "herold-2017"), **kw)
        return None

    # -- history bookkeeping ---------------------------------------------
    def ing_state(self, ing):
        if ing == "region":
            return self.cfg.get("region", "channel")   # documented default
        if ing in KEYS:
            return self.cfg.get(ing)
        if ing == "plugin":
            return self.variant
        return self.temp_ver.get(ing)

    def changes(self, f):
        """labels of the ingredients of `f` whose state differs from the state at the
        last read of `f` that agreed with a fresh dataset (net difference)"""
        snap = self.snap[f]
        out, removed = set(), False
        for ing in sorted(ING.get(f, ())):
            old, new = snap[ing], self.ing_state(ing)
            if old == new:
                continue
            if f == "emodulus" and ing == "vm" and snap["_scenario"].startswith("B") \
                    and self.emod_scenario() not in ("A", "C", "C+temp"):
                # the viscosity model is no input of scenario B (docs)
                continue
            if ing in CT:
                # is it an element of the crosstalk matrix of the recorded channels?
                rec_ch = self.has(f"fl{ing[2]}_max") and self.has(f"fl{ing[3]}_max")
                out.add("crosstalk-of-recorded-channels" if rec_ch
                        else "crosstalk-with-missing-channel")
                removed |= new is None
            elif ing in KEYS:
                out.add(KEYS[ing][1].replace(" ", "-"))
                removed |= new is None
            elif ing == "plugin":
                out.add("plugin-removed" if new is None else "plugin-replaced"
                        if old is not None else "plugin-added")
                removed |= new is None
            elif ing.startswith("ml_score_"):
                out.add("score-added" if old is None else "score-replaced")
            else:
                out.add("temp-set" if old is None else "temp-replaced")
        return out, removed

    def hist(self, f):
        if f not in self.cached:
            return "first", False
        lab, removed = self.changes(f)
        if not lab:
            return "cached-unchanged", False
        if len(lab) > 2:
            return "after-several-changes", removed
        return "after:" + "+".join(sorted(lab)), removed

    def mark_read(self, f):
        fs = {f}
        for s in SIBLINGS:
            if f in s:
                fs |= s
        for g in fs:
            self.cached.add(g)
            self.snap[g] = {ing: self.ing_state(ing) for ing in ING.get(g, ())}
            if g == "emodulus":
                self.snap[g]["_scenario"] = self.emod_scenario()

    def stale_class(self, f, avail_now):
        """discriminator for membership checks"""
        if f in self.cached and not avail_now:
            return "cached-then-requirement-removed"
        if f in self.cached:
            return "cached"
        return "never-read"

    # -- operations ----------------------------------------------------------
    def run(self):
        rec = self.rec
        rec.cls("fmt:" + self.fmt)
        for f in WARM:
            if f not in self.spec["cold"]:
                self.op_read(f, child=False)
        for op in self.spec["ops"]:
            k = op[0]
            rec.cls("op:" + k)
            if k == "set":
                self.op_set(op[1], op[2])
                if op[3]:
                    self.op_read(op[3], child=False)
            elif k == "del":
                self.op_del(op[1])
                if op[2]:
                    self.op_read(op[2], child=False)
            elif k in ("temp", "ctemp"):
                self.op_temp(op[1], op[2], child=(k == "ctemp"))
                if op[3]:
                    # set_temporary_feature() on a hierarchy child is documented to
                    # update the hierarchy itself: read through the child *without*
                    # an explicit refresh by the harness
                    self.op_read(op[3], child=(k == "ctemp"),
                                 norefresh=(k == "ctemp"))
            elif k == "plug":
                self.set_plugins(op[1])
                if op[2]:
                    self.op_read(op[2], child=False)
            elif k == "unplug":
                self.set_plugins(None)
                if op[1]:
                    self.op_read(op[1], child=False)
            elif k == "filter":
                self.mask = filter_mask(op[1], self.n)
                self.ds.filter.manual[:] = self.mask
                self.ds.apply_filter()
            elif k == "read":
                self.op_read(op[1], child=False)
            elif k == "cread":
                self.op_read(op[1], child=True)
            elif k == "has":
                self.op_has(op[1], child=False)
            elif k == "chas":
                self.op_has(op[1], child=True)
            elif k == "features":
                self.op_features()
        if self.nontrivial:
            rec.nontrivial()

    def _sane_T(self, ds):
        """0 degC is only inside the documented range of the water model (the
        MC-PBS models divide by it): a history that would leave T=0.0 with another
        medium continues with the user setting 23.0 instead"""
        if self.cfg.get("T") == 0.0 and self.cfg.get("med") != "water":
            self.cfg["T"] = 23.0
            if ds is not None:
                ds.config["calculation"]["emodulus temperature"] = 23.0
            self.rec.cls("op:T0-replaced")

    def op_set(self, key, vidx):
        sec, name, vals = KEYS[key]
        val = vals[vidx % len(vals)]
        self.ds.config[sec][name] = val
        self.cfg[key] = val
        self._sane_T(self.ds)

    def op_del(self, key):
        sec, name, _ = KEYS[key]
        if key not in self.cfg:
            self.rec.cls("op:del-noop")
            return
        del self.ds.config[sec][name]
        del self.cfg[key]
        self._sane_T(self.ds)

    def op_temp(self, name, seed, child):
        full = temp_data(name, seed, self.n)
        if child:
            # refresh only when the child is out of sync with the parent's filter
            # (a refresh would wipe the child's cached feature objects, which are
            # exactly what a replaced temporary feature has to invalidate)
            if not self.child_in_sync():
                self.sync_child()
            sub = full[self.mask]
            feat_temp.set_temporary_feature(self.child, name, sub.copy())
            full = np.full(self.n, np.nan)
            full[self.mask] = sub
        else:
            feat_temp.set_temporary_feature(self.ds, name, full.copy())
        old = self.temps.get(name)
        if old is None or not np.array_equal(old, full, equal_nan=True):
            self.temp_ver[name] = self.temp_ver.get(name, 0) + 1
        self.temps[name] = full

    def sigtag(self, f):
        """feature group (+ documented emodulus scenario) for signatures"""
        grp = GROUP[f]
        if f != "emodulus":
            return grp
        sc = self.emod_scenario()
        return "emodulus/" + ("invalid-config" if sc.startswith("invalid") else sc)

    def op_read(self, f, child, norefresh=False):
        """read on the long-lived dataset (and, for `child`, afterwards through the
        refreshed hierarchy child) and on fresh counterparts"""
        rec = self.rec
        grp = GROUP[f]
        hist, removed = self.hist(f)
        tag = self.sigtag(f)
        if child:
            if norefresh:
                rec.cls("child-read-without-explicit-refresh")
            else:
                self.sync_child()
            rec.cls("child-read")
        fr = self.fresh(False)
        try:
            has_l = f in self.ds
            out_l = observe(self.ds, f)
            has_f = f in fr
            out_f = observe(fr, f)
        finally:
            self.release(fr)
        av = self.avail(f)
        valid = self.valid(f)
        if f == "emodulus":
            sc = self.emod_scenario()
            rec.cls("scenario:" + ("C" if sc == "C+temp" else sc))
            c = self.cfg
            if sc == "none" and c.get("med") in KNOWN_MEDIA and "visc" not in c \
                    and all(k in c for k in ("lut", "px", "flow", "width")) \
                    and c.get("region", "channel") == "channel":
                # everything but a temperature source (no `temp`, no configured value)
                rec.cls("emodulus-unavailable:no-temperature-source")
        if hist.startswith("after"):
            self.nontrivial = True
            rec.cls("reread-after-change:" + grp)
            if removed:
                rec.cls("reread-after-removal")
            if "crosstalk-with-missing-channel" in hist:
                rec.cls("reread-after-change:crosstalk-of-unrecorded-channel")
        if out_f[0] == "ok":
            rec.cls("read-available:" + f)
            if f == "emodulus" and np.isfinite(out_f[1]).any():
                rec.cls("emodulus-finite-values")
        # (1) long-lived == fresh
        agree = same(out_l, out_f)
        rec.check(agree, f"value/ds/{tag}/{hist}",
                  lambda: f"{f}: long-lived dataset gives {show(out_l)}, a fresh dataset "
                          f"with the same state gives {show(out_f)}; cfg={self.cfg} "
                          f"temps={sorted(self.temps)} plugin={self.variant}")
        stale = self.stale_class(f, av)
        self.check_contains(f, has_l, has_f, stale, False)
        # (2) membership <=> reading succeeds (valid configurations)
        self.check_avail_vs_read(f, "long", has_l, out_l, stale, tag, valid)
        self.check_avail_vs_read(f, "fresh", has_f, out_f, "fresh", tag, valid)
        # (3) documentation model of availability (fresh dataset)
        rec.check(has_f == av, f"avail-model/{tag}",
                  lambda: f"'{f}' in fresh dataset is {has_f}, documentation model says "
                          f"{av}; cfg={self.cfg} data={sorted(self.data)} "
                          f"temps={sorted(self.temps)} plugin={self.variant}")
        # (4) direct evaluation of the documented recipe
        exp = None
        if av and valid and out_f[0] == "ok":
            exp = self.direct(f)
            if exp is None:
                rec.skip("no-direct-recipe:" + grp)
            else:
                rec.cls("direct:" + grp)
                exp = np.asarray(exp)
                self.check_direct(f, exp, out_f, f"direct/{tag}")
        if child:
            self.read_child(f, hist, tag, agree, stale, valid, exp)
        if out_l[0] == "ok" and agree:
            self.mark_read(f)
        if f == "emodulus" and has_l and out_l != ("exc", "KeyError"):
            # the cache key of emodulus is computed from area_um and deform, i.e. an
            # attempt to read emodulus reads (and caches) these two
            for g in ("area_um", "deform"):
                if g not in self.data and self.avail(g):
                    self.mark_read(g)

    def read_child(self, f, hist, tag, parent_agrees, stale, valid, exp):
        rec = self.rec
        fc = self.fresh(True)
        try:
            has_l = f in self.child
            out_l = observe(self.child, f)
            has_f = f in fc
            out_f = observe(fc, f)
        finally:
            self.release(fc)
        if parent_agrees:
            rec.check(same(out_l, out_f), f"value/child/{tag}/{hist}",
                      lambda: f"{f}: refreshed long-lived child gives {show(out_l)}, the "
                              f"child of a fresh dataset gives {show(out_f)}; "
                              f"cfg={self.cfg} temps={sorted(self.temps)} "
                              f"plugin={self.variant} filter={self.mask.astype(int)}")
        else:
            rec.skip("child-comparison-skipped:parent-already-differs")
        self.check_contains(f, has_l, has_f, stale, True)
        self.check_avail_vs_read(f, "long-child", has_l, out_l, stale, tag, valid)
        if exp is not None and out_f[0] == "ok":
            # a child enumerates its own events
            expc = (np.arange(1, int(self.mask.sum()) + 1) if f == "index"
                    else exp[self.mask])
            self.check_direct(f, expc, out_f, f"direct-child/{tag}")

    def check_direct(self, f, exp, out_f, sig):
        got = out_f[1]
        ok = exp.shape == got.shape and np.array_equal(
            exp.astype(float), got.astype(float), equal_nan=True)
        self.rec.check(ok, sig,
                       lambda: f"{f}: fresh dataset gives {show(out_f)}, documented "
                               f"recipe gives {show(('ok', exp))}; cfg={self.cfg} "
                               f"plugin={self.variant}")

    def check_avail_vs_read(self, f, side, has_x, out_x, st_cls, tag, valid):
        rec = self.rec
        if out_x[0] == "exc" and out_x[1] not in OKAY_EXC:
            rec.fail(f"unexpected-exception/{side}/{tag}/{out_x[1]}",
                     f"reading {f} raises {out_x[1]}; cfg={self.cfg}")
            return
        if out_x[0] == "ok":
            ok = has_x
        elif out_x[1] == "KeyError":
            ok = not has_x
        else:
            # deliberate rejection of contradictory settings
            ok = not valid
            if ok:
                rec.skip("deliberate-error-in-invalid-configuration")
        sig = (f"available-vs-read/{side}/{st_cls}"
               if st_cls == "cached-then-requirement-removed"
               else f"available-vs-read/{side}/{tag}/{st_cls}")
        rec.check(ok, sig,
                  lambda: f"{side}: '{f}' in ds is {has_x} but reading {show(out_x)}; "
                          f"valid-config={valid} cfg={self.cfg} plugin={self.variant}")

    def check_contains(self, f, has_l, has_f, stale, child):
        where = "child" if child else "ds"
        sig = ("contains/" + stale if stale == "cached-then-requirement-removed"
               else f"contains/{where}/{GROUP[f]}/{stale}")
        self.rec.check(has_l == has_f, sig,
                       lambda: f"'{f}' in long-lived {where} is {has_l}, in a fresh "
                               f"dataset {has_f}; cfg={self.cfg} plugin={self.variant}")

    def op_has(self, f, child):
        if child:
            self.sync_child()
        long_ds = self.child if child else self.ds
        fr = self.fresh(child)
        try:
            has_l = f in long_ds
            has_f = f in fr
        finally:
            self.release(fr)
        av = self.avail(f)
        self.check_contains(f, has_l, has_f, self.stale_class(f, av), child)
        self.rec.check(has_f == av, f"avail-model/{self.sigtag(f)}",
                       lambda: f"'{f}' in fresh dataset is {has_f}, documentation model "
                               f"says {av}; cfg={self.cfg} data={sorted(self.data)}")

    def op_features(self):
        fr = self.fresh(False)
        try:
            fl = list(self.ds.features)
            ff = list(fr.features)
            fa = list(fr.features_ancillary)
        finally:
            self.release(fr)
        diff = sorted(set(fl) ^ set(ff))
        if diff:
            kinds = sorted({self.stale_class(f, self.avail(f)) if f in GROUP
                            else "other-feature" for f in diff})
            self.rec.fail("features/" + "+".join(kinds),
                          f"ds.features differs from a fresh dataset in {diff}; "
                          f"cfg={self.cfg} plugin={self.variant}")
        else:
            self.rec.check(True, "features/equal")
        exp = sorted(f for f in GROUP if f not in self.data and f not in self.temps
                     and self.avail(f))
        # (the property lists duplicates: one entry per registered recipe)
        got = sorted(set(f for f in fa if f in GROUP))
        self.rec.check(exp == got, "features-ancillary-model",
                       lambda: f"features_ancillary of a fresh dataset: {got}, model: "
                               f"{exp}; cfg={self.cfg} data={sorted(self.data)}")


def enumerate_cases(tier):
    """datasets with more events than fit into one MiB of float64 (131072): a change
    of an ingredient that only touches late events"""
    return [{"kind": "bigtail", "n": 140000, "tail": 50, "seed": 3},
            {"kind": "bigtail", "n": 270000, "tail": 1, "seed": 4}]


def _run_bigtail(spec, rec):
    n, tail = spec["n"], spec["tail"]
    r = np.random.default_rng(spec["seed"])
    rec.cls("bigtail")
    rec.nontrivial()
    feat_temp.register_temporary_feature("tmp_a")
    plugs = register_plugins(0)
    try:
        data = {"deform": r.uniform(0.01, 0.2, n), "area_um": r.uniform(30, 300, n)}
        sa, sb = r.uniform(0, 1, n), r.uniform(0, 1, n)
        ta = r.normal(size=n)

        def build(sa_, ta_):
            ds = dclab.new_dataset({k: v.copy() for k, v in data.items()})
            ds.config["user"]["k"] = 2
            feat_temp.set_temporary_feature(ds, "ml_score_aaa", sa_.copy())
            feat_temp.set_temporary_feature(ds, "ml_score_bbb", sb.copy())
            feat_temp.set_temporary_feature(ds, "tmp_a", ta_.copy())
            return ds
        ds = build(sa, ta)
        first = {f: np.array(ds[f][:]) for f in ("ml_class", "plug_s", "plug_f")}
        # replace two ingredients by data that differ in the last events only
        sa2, ta2 = sa.copy(), ta.copy()
        sa2[-tail:] = np.where(sa[-tail:] > sb[-tail:], 0.0, 1.0)   # flips the class
        ta2[-tail:] += 5.0
        feat_temp.set_temporary_feature(ds, "ml_score_aaa", sa2.copy())
        feat_temp.set_temporary_feature(ds, "tmp_a", ta2.copy())
        fresh = build(sa2, ta2)
        for f in ("ml_class", "plug_s", "plug_f"):
            got, exp = np.array(ds[f][:]), np.array(fresh[f][:])
            rec.check(not np.array_equal(exp, first[f]), f"bigtail/vacuous/{f}",
                      "the late change does not change the feature")
            rec.check(np.array_equal(got, exp, equal_nan=True),
                      f"value/ds/{GROUP[f]}/after:late-events-replaced",
                      lambda: f"{f} of a dataset with {n} events after replacing the "
                              f"last {tail} values of an ingredient: "
                              f"{int(np.sum(~(got == exp)))} events differ from a fresh "
                              f"dataset")
    finally:
        for p_ in plugs:
            remove_plugin_feature(p_)
        feat_temp.deregister_all()


def run_case(spec, rec):
    if spec.get("kind") == "bigtail":
        return _run_bigtail(spec, rec)
    d = boot.casedir() if spec["fmt"] in ("hdf5", "basin") else None
    sim = None
    try:
        sim = Sim(spec, rec, d)
        sim.run()
    finally:
        if sim is not None:
            sim.close()
            sim.set_plugins(None)
        feat_temp.deregister_all()
        if d is not None:
            boot.rmcase(d)
